import CodeLimit.Spec.Entry
/-!
# Basic facts about `Model/Entry.lean`: `Configuration.load`, one call, a history of calls
-/
namespace CL.Entry

open CL CL.Sel

variable (S : Sys)

/-! ## the bridge to `Spec/C12cwd.lean` -/

theorem fileAt_eq_fileIn (fs : Node) (dir : List Str) (name : Str) : fileAt fs dir name = C12cwd.fileIn fs dir name := rfl

theorem gitignoreAt_eq (fs : Node) (dir : List Str) :
    gitignoreAt S fs dir = C12cwd.gitignoreAt (readers S) fs dir := rfl

theorem configLines_eq (fs : Node) (dir : List Str) :
    configLines S fs dir =
      (match C12cwd.fileIn fs dir C12cwd.configName with | some c => (readers S).yamlExclude c | none => []) := by
  unfold configLines
  rw [fileAt_eq_fileIn]
  show (match C12cwd.fileIn fs dir C12cwd.configName with | none => [] | some text => _) = _
  cases C12cwd.fileIn fs dir C12cwd.configName with
  | none => rfl
  | some text => rfl

/-- `Configuration.exclude` after the options `opts` and the load, in the words of `Spec/C12cwd.lean` -/
theorem configuredAt_eq (fs : Node) (opts : List Str) (dir : List Str) :
    C12cwd.configuredAt (readers S) fs opts dir = opts ++ configLines S fs dir := by
  rw [configLines_eq]; rfl

/-! ## `Configuration.load` -/

theorem load_none_iff (fs : Node) (dir : List Str) (p : Proc) : load S fs dir p = none ↔ ¬ LoadOk S fs dir := by
  unfold load LoadOk
  cases h : fileAt fs dir configName with
  | none => simp
  | some text =>
    cases hy : S.yaml text with
    | mapping ex vb => simp [hy]
    | inert => simp [hy]
    | raises => simp [hy]

/-- **what `load` does when it does not raise**: the configured lines are appended, `verbose` is
overwritten when the file has the key, the repository is not touched -/
theorem load_of_ok {fs : Node} {dir : List Str} (h : LoadOk S fs dir) (p : Proc) :
    load S fs dir p = some ⟨p.exclude ++ configLines S fs dir, (configVerbose S fs dir).getD p.verbose, p.repository⟩ := by
  unfold load configLines configVerbose
  unfold LoadOk at h
  cases hf : fileAt fs dir configName with
  | none => simp
  | some text =>
    have := h text hf
    simp only
    cases hy : S.yaml text with
    | mapping ex vb => cases ex <;> cases vb <;> simp
    | inert => simp
    | raises => exact absurd hy this

theorem load_addOptions {fs : Node} {dir : List Str} (h : LoadOk S fs dir) (p : Proc) (ex : Option (List Str)) (vb : Bool) :
    load S fs dir (addOptions p ex vb) = some (configured S fs dir p ex vb) := by
  rw [load_of_ok S h]; rfl

/-- when `load` raises, the file contributes no line -/
theorem configLines_of_not_ok {fs : Node} {dir : List Str} (h : ¬ LoadOk S fs dir) : configLines S fs dir = [] := by
  unfold LoadOk at h
  unfold configLines
  cases hf : fileAt fs dir configName with
  | none => rfl
  | some text =>
    simp only
    cases hy : S.yaml text with
    | mapping ex vb => exact absurd (fun t ht => by rw [hf] at ht; cases ht; rw [hy]; exact fun h => by cases h) h
    | inert => rfl
    | raises => rfl

/-! ## one call -/

theorem entryScan_of_ok {st : State} {root : List Str} (h : LoadOk S st.fs root) (ex : Option (List Str)) (vb : Bool)
    (det : Option Json.Repo) (uuid now : Str) :
    entryScan S st root ex vb det uuid now =
      (let p := withDetected (configured S st.fs root st.proc ex vb) det
       let result :=
         match specPats S st.fs p root, getNode st.fs root with
         | some pats, some (.dir n ch) =>
           some (Pipeline.scan S.env ⟨pats, rootStr root, uuid, now, p.repository⟩ (.dir n ch) (st.cache root))
         | _, _ => none
       let cache' := match result with
         | some (.ok (_, text)) => setCache st.cache root text
         | _ => st.cache
       ({ st with proc := p, cache := cache' }, some ⟨specLines S st.fs p root, p.verbose, p.repository, result⟩)) := by
  simp only [entryScan, load_addOptions S h]
  rfl

theorem entryScan_of_not_ok {st : State} {root : List Str} (h : ¬ LoadOk S st.fs root) (ex : Option (List Str)) (vb : Bool)
    (det : Option Json.Repo) (uuid now : Str) :
    entryScan S st root ex vb det uuid now = ({ st with proc := addOptions st.proc ex vb }, none) := by
  simp only [entryScan, (load_none_iff S st.fs root _).2 h]

theorem entryCheck_of_ok {st : State} {cwd : List Str} (h : LoadOk S st.fs cwd) (args : List CheckArg)
    (ex : Option (List Str)) (q vb : Bool) :
    entryCheck S st cwd args ex q vb =
      (let p := configured S st.fs cwd st.proc ex vb
       ({ st with proc := p },
        some ⟨specLines S st.fs p cwd, p.verbose, q,
          (specPats S st.fs p cwd).map fun pats => Pipeline.check S.env pats st.fs cwd args q⟩)) := by
  simp only [entryCheck, load_addOptions S h]

theorem entryCheck_of_not_ok {st : State} {cwd : List Str} (h : ¬ LoadOk S st.fs cwd) (args : List CheckArg)
    (ex : Option (List Str)) (q vb : Bool) :
    entryCheck S st cwd args ex q vb = ({ st with proc := addOptions st.proc ex vb }, none) := by
  simp only [entryCheck, (load_none_iff S st.fs cwd _).2 h]

theorem entryReport_of_ok {st : State} {root : List Str} (h : LoadOk S st.fs root) (fmt : Fmt) (diff : Option (Option Str)) :
    entryReport S st root fmt diff =
      ({ st with proc := configured S st.fs root st.proc none false },
       some ⟨reportCommand S.env.version (st.cache root) diff,
             reportHeadline fmt (reportCommand S.env.version (st.cache root) diff)⟩) := by
  unfold entryReport
  rw [load_of_ok S h]
  simp [configured]

theorem entryFindings_of_ok {st : State} {root : List Str} (h : LoadOk S st.fs root) (full : Bool) (fmt : Fmt) :
    entryFindings S st root full fmt =
      ({ st with proc := configured S st.fs root st.proc none false },
       some ⟨findingsCommand S.env.version (st.cache root),
             findingsHeadline fmt (findingsCommand S.env.version (st.cache root))⟩) := by
  unfold entryFindings
  rw [load_of_ok S h]
  simp [configured]

theorem entryReport_of_not_ok {st : State} {root : List Str} (h : ¬ LoadOk S st.fs root) (fmt : Fmt)
    (diff : Option (Option Str)) : entryReport S st root fmt diff = (st, none) := by
  unfold entryReport
  rw [(load_none_iff S st.fs root _).2 h]

theorem entryFindings_of_not_ok {st : State} {root : List Str} (h : ¬ LoadOk S st.fs root) (full : Bool) (fmt : Fmt) :
    entryFindings S st root full fmt = (st, none) := by
  unfold entryFindings
  rw [(load_none_iff S st.fs root _).2 h]

/-! ## what every call does to the configuration and to the tree -/

theorem step_fs (st : State) (c : Call) : (step S st c).1.fs = st.fs := by
  cases c with
  | scan root ex vb det uuid now =>
    by_cases h : LoadOk S st.fs root
    · simp only [step, entryScan_of_ok S h]
    · simp only [step, entryScan_of_not_ok S h]
  | check cwd args ex q vb =>
    by_cases h : LoadOk S st.fs cwd
    · simp only [step, entryCheck_of_ok S h]
    · simp only [step, entryCheck_of_not_ok S h]
  | report root fmt diff =>
    by_cases h : LoadOk S st.fs root
    · simp only [step, entryReport_of_ok S h]
    · simp only [step, entryReport_of_not_ok S h]
  | findings root full fmt =>
    by_cases h : LoadOk S st.fs root
    · simp only [step, entryFindings_of_ok S h]
    · simp only [step, entryFindings_of_not_ok S h]

theorem step_exclude (st : State) (c : Call) :
    (step S st c).1.proc.exclude = st.proc.exclude ++ contribution S st.fs c := by
  cases c with
  | scan root ex vb det uuid now =>
    by_cases h : LoadOk S st.fs root
    · simp only [step, entryScan_of_ok S h, withDetected, configured, contribution, Call.options, Call.dir,
        List.append_assoc]
    · simp only [step, entryScan_of_not_ok S h, addOptions, contribution, Call.options, Call.dir,
        configLines_of_not_ok S h, List.append_nil]
  | check cwd args ex q vb =>
    by_cases h : LoadOk S st.fs cwd
    · simp only [step, entryCheck_of_ok S h, configured, contribution, Call.options, Call.dir, List.append_assoc]
    · simp only [step, entryCheck_of_not_ok S h, addOptions, contribution, Call.options, Call.dir,
        configLines_of_not_ok S h, List.append_nil]
  | report root fmt diff =>
    by_cases h : LoadOk S st.fs root
    · simp [step, entryReport_of_ok S h, configured, contribution, Call.options, Call.dir]
    · simp [step, entryReport_of_not_ok S h, contribution, Call.options, Call.dir, configLines_of_not_ok S h]
  | findings root full fmt =>
    by_cases h : LoadOk S st.fs root
    · simp [step, entryFindings_of_ok S h, configured, contribution, Call.options, Call.dir]
    · simp [step, entryFindings_of_not_ok S h, contribution, Call.options, Call.dir, configLines_of_not_ok S h]

/-! ## histories -/

theorem run_nil (st : State) : run S st [] = (st, []) := rfl

theorem run_cons (st : State) (c : Call) (cs : List Call) :
    run S st (c :: cs) = ((run S (step S st c).1 cs).1, (step S st c).2 :: (run S (step S st c).1 cs).2) := rfl

theorem run_fs (st : State) (cs : List Call) : (run S st cs).1.fs = st.fs := by
  induction cs generalizing st with
  | nil => rfl
  | cons c cs ih => rw [run_cons]; simp only; rw [ih, step_fs]

theorem run_exclude (st : State) (cs : List Call) :
    (run S st cs).1.proc.exclude = st.proc.exclude ++ cs.flatMap (contribution S st.fs) := by
  induction cs generalizing st with
  | nil => simp [run_nil]
  | cons c cs ih =>
    rw [run_cons]
    simp only
    rw [ih, step_exclude, step_fs, List.flatMap_cons, List.append_assoc]

theorem run_append (st : State) (cs ds : List Call) :
    run S st (cs ++ ds) = ((run S (run S st cs).1 ds).1, (run S st cs).2 ++ (run S (run S st cs).1 ds).2) := by
  induction cs generalizing st with
  | nil => rfl
  | cons c cs ih => simp only [List.cons_append, run_cons, ih, List.cons_append]

theorem run_length (st : State) (cs : List Call) : (run S st cs).2.length = cs.length := by
  induction cs generalizing st with
  | nil => rfl
  | cons c cs ih => rw [run_cons]; simp [ih]

end CL.Entry
