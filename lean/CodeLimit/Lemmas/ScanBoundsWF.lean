import CodeLimit.Lemmas.ScanBoundsOrder
import CodeLimit.Lemmas.ScanBoundsHeaderStarts
/-!
# Assembly: what every reported scope and measurement satisfies under position order
-/
namespace CL

/-- blocks of a shipped language are non-empty ranges inside the tokens: brace blocks always,
Python blocks when the tokens are position-ordered -/
theorem extractBlocks_wf (L : Language) (hL : L ∈ Gen.all.map (·.2)) {toks : List Tok}
    (hp : L.python = false ∨ PosOrdered toks) {hs : List Header}
    (hhs : extractHeaders L toks = .ok hs)
    {bs : List Range} (h : extractBlocks L toks hs = .ok bs) :
    ∀ b ∈ bs, BlockWF toks.length b := by
  unfold extractBlocks at h
  split at h
  · next hpy =>
    have hwf := extractHeaders_wf' L hL hhs
    rcases hp with hp | hp
    · rw [hpy] at hp; cases hp
    · exact pyBlocks_wf hp (fun x hx => (hwf x hx).1) h
  · exact getBlocks_blockWF h

/-- a reported scope of a brace language, or of Python on position-ordered tokens -/
structure ScopeGood (code : List Tok) (p : Scope × List Range) : Prop where
  /-- the scope ends after its header END, inside the tokens -/
  lt : p.1.hdr.rng.e < p.1.blk.e
  le : p.1.blk.e ≤ code.length
  /-- the name token is the first or second header token and lies inside the header -/
  name : ∃ k, p.1.hdr.rng.s ≤ k ∧ k ≤ p.1.hdr.rng.s + 1 ∧ k < p.1.hdr.rng.e ∧
    code[k]? = some p.1.hdr.name ∧ p.1.hdr.name.isName = true
  /-- every child range starts after the scope's first token, inside the tokens, and ends no
  later than the scope -/
  children : ∀ c ∈ p.2, p.1.hdr.rng.s < c.s ∧ c.s < code.length ∧ c.e ≤ p.1.blk.e

theorem ScopeGood.start_lt {code : List Tok} {p : Scope × List Range} (h : ScopeGood code p) :
    p.1.hdr.rng.s < p.1.blk.e := by
  obtain ⟨k, h1, _, h3, _⟩ := h.name
  have := h.lt
  omega

theorem buildScopes_good (L : Language) (hL : L ∈ Gen.all.map (·.2)) (all : List Tok)
    (hp : L.python = false ∨ PosOrdered (filterTokens false all))
    {scs : List (Scope × List Range)}
    (h : buildScopes L all = .ok scs) : ∀ p ∈ scs, ScopeGood (filterTokens false all) p := by
  obtain ⟨hs, bs, sc, hhs, hbs, hsc, rfl⟩ := buildScopes_decomp h
  have hwf := extractHeaders_wf' L hL hhs
  have hearly := extractHeaders_early L hL hhs
  have hbwf := extractBlocks_wf L hL hp hhs hbs
  have hgood := buildScopes0_good hwf (fun b hb => Nat.le_of_lt (hbwf b hb).1) hsc
  obtain ⟨sc', hsc', hok⟩ := buildScopes0_ok hwf (fun b hb => (hbwf b hb).ok)
  rw [hsc] at hsc'; cases hsc'
  have hfl : ∀ s ∈ filterNocl sc (noclTokens all), ScopeOK (filterTokens false all).length s :=
    fun s hs' => (hok s ((filterNocl_sub _ _).subset hs')).2
  intro p hp'
  obtain ⟨hmem, hpok, hch⟩ := reportScopes_ok L hfl p hp'
  have hmem' := (filterNocl_sub _ _).subset hmem
  obtain ⟨hhdr, b, hb, hb1, hb2⟩ := hgood p.1 hmem'
  have hbw := hbwf b hb
  refine ⟨by have := hbw.1; omega, hpok.2.2, ?_, ?_⟩
  · obtain ⟨_, _, _, k, hk1, hk2, hk3, hk4⟩ := hearly _ hhdr
    exact ⟨k, hk1, hk2, hk3, hk4, (hwf _ hhdr).2.2.1⟩
  · intro c hc
    obtain ⟨hlt, child, _, rfl, hcont⟩ := hch c hc
    simp only [Scope.contains, Bool.and_eq_true, decide_eq_true_eq] at hcont
    exact ⟨hcont.1, hlt, hcont.2⟩

/-- without any assumption on positions: child ranges start after the parent's first token and
end no later than the parent -/
theorem buildScopes_children (L : Language) (hL : L ∈ Gen.all.map (·.2)) (all : List Tok)
    {scs : List (Scope × List Range)} (h : buildScopes L all = .ok scs) :
    ∀ p ∈ scs, ∀ c ∈ p.2, p.1.hdr.rng.s < c.s ∧ c.e ≤ p.1.blk.e := by
  obtain ⟨hs, bs, sc, hhs, hbs, hsc, rfl⟩ := buildScopes_decomp h
  have hwf := extractHeaders_wf' L hL hhs
  obtain ⟨bs', hbs', hbok⟩ := extractBlocks_ok L hwf
  rw [hbs] at hbs'; cases hbs'
  obtain ⟨sc', hsc', hok⟩ := buildScopes0_ok hwf hbok
  rw [hsc] at hsc'; cases hsc'
  have hfl : ∀ s ∈ filterNocl sc (noclTokens all), ScopeOK (filterTokens false all).length s :=
    fun s hs' => (hok s ((filterNocl_sub _ _).subset hs')).2
  intro p hp' c hc
  obtain ⟨_, _, hch⟩ := reportScopes_ok L hfl p hp'
  obtain ⟨_, child, _, rfl, hcont⟩ := hch c hc
  simp only [Scope.contains, Bool.and_eq_true, decide_eq_true_eq] at hcont
  exact ⟨hcont.1, hcont.2⟩

/-- without any assumption on positions: every reported scope has a well-formed header with an
early name token, a positive block end inside the tokens, and valid child starts -/
theorem buildScopes_anchored (L : Language) (hL : L ∈ Gen.all.map (·.2)) (all : List Tok)
    {scs : List (Scope × List Range)} (h : buildScopes L all = .ok scs) :
    ∀ p ∈ scs, ScopeOK (filterTokens false all).length p.1 ∧
      HeaderNameEarly (filterTokens false all) p.1.hdr ∧
      ∀ c ∈ p.2, c.s < (filterTokens false all).length := by
  obtain ⟨hs, bs, sc, hhs, hbs, hsc, rfl⟩ := buildScopes_decomp h
  have hwf := extractHeaders_wf' L hL hhs
  obtain ⟨bs', hbs', hbok⟩ := extractBlocks_ok L hwf
  rw [hbs] at hbs'; cases hbs'
  obtain ⟨sc', hsc', hok⟩ := buildScopes0_ok hwf hbok
  rw [hsc] at hsc'; cases hsc'
  have hfl : ∀ s ∈ filterNocl sc (noclTokens all), ScopeOK (filterTokens false all).length s :=
    fun s hs' => (hok s ((filterNocl_sub _ _).subset hs')).2
  intro p hp'
  obtain ⟨hmem, hpok, hch⟩ := reportScopes_ok L hfl p hp'
  have hhdr := (hok p.1 ((filterNocl_sub _ _).subset hmem)).1
  exact ⟨hpok, extractHeaders_early L hL hhs _ hhdr, fun c hc => (hch c hc).1⟩

/-- scopes are reported in header-start order; strictly if the header starts are distinct -/
theorem buildScopes_order (L : Language) (hL : L ∈ Gen.all.map (·.2)) (all : List Tok)
    (hp : PosOrdered (filterTokens false all)) {hs : List Header}
    (hhs : extractHeaders L (filterTokens false all) = .ok hs)
    (hdist : (hs.map (·.rng.s)).Nodup) {scs : List (Scope × List Range)}
    (h : buildScopes L all = .ok scs) :
    scs.Pairwise (fun p q => p.1.hdr.rng.s < q.1.hdr.rng.s) := by
  obtain ⟨hs', bs, sc, hhs', hbs, hsc, rfl⟩ := buildScopes_decomp h
  rw [hhs] at hhs'; cases hhs'
  have hwf := extractHeaders_wf' L hL hhs
  have hlt : ∀ h ∈ hs, h.rng.s < (filterTokens false all).length := fun h hh => by
    have := hwf h hh; unfold HeaderWF at this; omega
  have hord := (buildScopes0_order hp hlt hsc).2 hdist
  have h1 : ((reportScopes L (filterNocl sc (noclTokens all))).map (·.1)).Pairwise
      (fun a b => a.hdr.rng.s < b.hdr.rng.s) :=
    List.Pairwise.sublist ((reportScopes_sublist L _).trans (filterNocl_sub _ _)) hord
  rwa [List.pairwise_map] at h1

/-! ## from scopes to measurements -/

theorem scanFile_decomp {L : Language} {all : List Tok} {ms : List Measurement}
    (h : scanFile L all = .ok ms) :
    ∃ scs, buildScopes L all = .ok scs ∧ measureAll (filterTokens false all) scs = .ok ms := by
  unfold scanFile at h
  split at h
  · cases h
  · next scs hscs => exact ⟨scs, hscs, h⟩

/-- a token ends after it starts when its text is not empty -/
theorem Tok.endPos_after (t : Tok) (h : t.val ≠ []) : posLt (t.line, t.col) t.endPos := by
  unfold Tok.endPos posLt
  simp only
  split
  · right
    have : 0 < t.val.length := List.length_pos_iff.2 h
    exact ⟨rfl, by show t.col < t.col + t.val.length; omega⟩
  · left
    show t.line < t.line + (lastLineInfo t.val).1
    omega

theorem foldl_add_eq_sum (l : List Nat) (a : Nat) : l.foldl (· + ·) a = a + l.sum := by
  induction l generalizing a with
  | nil => simp
  | cons x xs ih => simp [ih]; omega

theorem filterTokens_code (kc : Bool) (all : List Tok) :
    ∀ t ∈ filterTokens kc all, t.isWhitespace = false ∧ (kc = false → t.isComment = false) := by
  intro t ht
  have := (List.mem_filter.1 ht).2
  cases hw : t.isWhitespace
  · cases hc : t.isComment
    · simp
    · simp only [hw, hc, Bool.false_eq_true, if_false, if_true] at this
      simp [this]
  · simp [hw] at this

/-- every measurement is the measurement of a good scope -/
theorem scanFile_measurements (L : Language) (hL : L ∈ Gen.all.map (·.2)) (all : List Tok)
    (hp : L.python = false ∨ PosOrdered (filterTokens false all)) {ms : List Measurement}
    (h : scanFile L all = .ok ms) :
    ∀ m ∈ ms, ∃ p first last, ScopeGood (filterTokens false all) p ∧
      (filterTokens false all)[p.1.hdr.rng.s]? = some first ∧
      (filterTokens false all)[p.1.blk.e - 1]? = some last ∧
      m.name = p.1.hdr.name.val ∧ (m.sl, m.sc) = (first.line, first.col) ∧
      (m.el, m.ec) = last.endPos ∧ 1 ≤ m.len ∧
      m.len ≤ countDistinct ((((filterTokens false all).drop p.1.hdr.rng.s).take
        (p.1.blk.e - p.1.hdr.rng.s)).map (·.line)) := by
  obtain ⟨scs, hscs, hms⟩ := scanFile_decomp h
  intro m hm
  obtain ⟨p, hp', hpm⟩ := measureAll_mem_ok hms m hm
  have hg := buildScopes_good L hL all hp hscs p hp'
  have hslt := hg.start_lt
  have h1 : p.1.hdr.rng.s < (filterTokens false all).length := by
    have := hg.le; omega
  have hch : ∀ c ∈ p.2, c.s < (filterTokens false all).length := fun c hc => (hg.children c hc).2.1
  obtain ⟨m', first, last, hm', hf, hl, hn, hs, he, hlen⟩ :=
    measure_spec h1 (by omega) hg.le hch
  rw [hpm] at hm'; cases hm'
  obtain ⟨len, hlen', hle, hpos⟩ := countLines_spec (toks := filterTokens false all) (s := p.1) h1 hg.le hch
  rw [hlen] at hlen'; cases hlen'
  exact ⟨p, first, last, hg, hf, hl, hn, hs, he,
    hpos hslt (fun c hc => (hg.children c hc).1), hle⟩

/-- for EVERY token list: each measurement starts at a code token `i`, ends just past a code token
`j`, is named after a name token at `i` or `i + 1`, and counts at most the distinct lines of
tokens `i..j` -/
theorem scanFile_anchored (L : Language) (hL : L ∈ Gen.all.map (·.2)) (all : List Tok)
    {ms : List Measurement} (h : scanFile L all = .ok ms) :
    ∀ m ∈ ms, ∃ i j k, i ≤ k ∧ k ≤ i + 1 ∧ j < (filterTokens false all).length ∧
      (∃ ti, (filterTokens false all)[i]? = some ti ∧ (m.sl, m.sc) = (ti.line, ti.col)) ∧
      (∃ tj, (filterTokens false all)[j]? = some tj ∧ (m.el, m.ec) = tj.endPos) ∧
      (∃ tk, (filterTokens false all)[k]? = some tk ∧ tk.isName = true ∧ m.name = tk.val) ∧
      m.len ≤ countDistinct ((((filterTokens false all).drop i).take (j + 1 - i)).map (·.line)) := by
  obtain ⟨scs, hscs, hms⟩ := scanFile_decomp h
  intro m hm
  obtain ⟨p, hp', hpm⟩ := measureAll_mem_ok hms m hm
  obtain ⟨⟨h1, h2, h3⟩, ⟨_, _, hnm, k, hk1, hk2, _, hk4⟩, hch⟩ := buildScopes_anchored L hL all hscs p hp'
  obtain ⟨m', first, last, hm', hf, hl, hn, hs, he, hlen⟩ := measure_spec h1 h2 h3 hch
  rw [hpm] at hm'; cases hm'
  obtain ⟨len, hlen', hle, _⟩ := countLines_spec (toks := filterTokens false all) (s := p.1) h1 h3 hch
  rw [hlen] at hlen'; cases hlen'
  refine ⟨p.1.hdr.rng.s, p.1.blk.e - 1, k, hk1, hk2, by omega, ⟨first, hf, hs⟩, ⟨last, hl, he⟩,
    ⟨p.1.hdr.name, hk4, hnm, hn⟩, ?_⟩
  rw [show p.1.blk.e - 1 + 1 - p.1.hdr.rng.s = p.1.blk.e - p.1.hdr.rng.s by omega]
  exact hle

/-- measurements are listed in strictly increasing start position when the header starts are
distinct -/
theorem scanFile_order (L : Language) (hL : L ∈ Gen.all.map (·.2)) (all : List Tok)
    (hp : PosOrdered (filterTokens false all)) {hs : List Header}
    (hhs : extractHeaders L (filterTokens false all) = .ok hs)
    (hdist : (hs.map (·.rng.s)).Nodup) {ms : List Measurement}
    (h : scanFile L all = .ok ms) :
    ms.Pairwise (fun a b => posLt (a.sl, a.sc) (b.sl, b.sc)) := by
  obtain ⟨scs, hscs, hms⟩ := scanFile_decomp h
  have hord := buildScopes_order L hL all hp hhs hdist hscs
  have hgood := buildScopes_anchored L hL all hscs
  refine measureAll_pairwise hms _ ((List.Pairwise.and_mem.1 hord).imp ?_)
  intro p q ⟨hpm, hqm, hlt⟩ m m' hm hm'
  have start : ∀ r ∈ scs, ∀ x, measure (filterTokens false all) r.1 r.2 = .ok x →
      ∃ first, (filterTokens false all)[r.1.hdr.rng.s]? = some first ∧
        (x.sl, x.sc) = (first.line, first.col) := by
    intro r hr x hx
    obtain ⟨⟨h1, h2, h3⟩, _, hch⟩ := hgood r hr
    obtain ⟨x', first, _, hx', hf, _, _, hs, _⟩ := measure_spec h1 h2 h3 hch
    rw [hx] at hx'; cases hx'
    exact ⟨first, hf, hs⟩
  obtain ⟨f1, hf1, hs1⟩ := start p hpm m hm
  obtain ⟨f2, hf2, hs2⟩ := start q hqm m' hm'
  have := hp.before hlt hf1 hf2
  rw [hs1, hs2]
  exact this

/-! ## a Boolean necessary condition for `MeasurementWF` (to refute it on concrete inputs) -/

/-- some `i ≤ k ≤ j < len(code)` with the start position at `i`, the end position at `j` and a
name token with the right text at `k` -/
def spanCheck (code : List Tok) (m : Measurement) : Bool :=
  (List.range code.length).any fun j => (List.range (j + 1)).any fun k =>
    (List.range (k + 1)).any fun i =>
      (code[i]?.map (fun t => (t.line, t.col)) == some (m.sl, m.sc)) &&
      (code[j]?.map Tok.endPos == some (m.el, m.ec)) &&
      (code[k]?.any (fun t => t.isName && t.val == m.name))

theorem MeasurementWF.spanCheck {code : List Tok} {m : Measurement} (h : MeasurementWF code m) :
    spanCheck code m = true := by
  obtain ⟨i, j, k, hik, hkj, hj, ⟨ti, hti, hpi⟩, ⟨tj, htj, hpj⟩, ⟨tk, htk, hnk, hmk⟩, _⟩ := h
  unfold CL.spanCheck
  simp only [List.any_eq_true, List.mem_range, Bool.and_eq_true, beq_iff_eq]
  refine ⟨j, hj, k, by omega, i, by omega, ⟨?_, ?_⟩, ?_⟩
  · rw [hti, hpi]; rfl
  · rw [htj, hpj]; rfl
  · rw [htk]; simp [hnk, hmk]

end CL
