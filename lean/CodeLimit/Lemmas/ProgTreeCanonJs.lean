import CodeLimit.Lemmas.ProgTreeCanonDisc
import CodeLimit.Lemmas.ProgTreeCanonArrow
/-!
# Canonical forests without arrow functions: discovery for JavaScript and TypeScript

* `cfgJs_sound`, `cfgTs_sound` - the tree-level tests of `Prog.CanonJs` / `Prog.CanonTs` are sound for
  the token-level follow-up tests `folC` (`{`) and `folTs` (`{` or `: … {`);
* `fun_headers_eq` - for a language with the patterns `[function / method pattern, arrow pattern]`:
  on the token sequence of a canonical forest without `= [async] ( … ) => {`, `extract_headers`
  returns exactly the headers of the function nodes, in source order (a header that starts with
  the keyword `function` is reported from that keyword, as the tree says);
* `js_headers_eq`, `ts_headers_eq` - the two instances.
-/
namespace CL
open CL.Syn CL.C01syn CL.Compose

/-! ## the TypeScript follow-up test -/

/-- TypeScript: the next token is the symbol `{`, or the operator `:` with a symbol `{` before any
other `;` / `{` in the rest -/
def folTs : List Tok → Bool
  | [] => false
  | t :: r => t.isSymbol [123] || (t.isOperator [58] && braceAhead r)

theorem folTs_iff (toks : List Tok) (e : Nat) : folTs (toks.drop e) = true ↔ TsFollow toks e := by
  unfold TsFollow SymbolAt OperatorAt
  cases hd : toks.drop e with
  | nil =>
    have hnone : toks[e]? = none := by
      rw [List.getElem?_eq_none_iff]; exact List.drop_eq_nil_iff.1 hd
    simp [folTs, hnone]
  | cons x xs =>
    have hx : toks[e]? = some x := getElem?_of_drop_cons hd
    have hxs : toks.drop (e + 1) = xs := by
      have := drop_eq_cons hx
      rw [hd] at this
      exact (List.cons.inj this).2.symm
    simp only [folTs, hx, Option.some.injEq, exists_eq_left', hxs, Bool.or_eq_true,
      Bool.and_eq_true]

theorem kok_folTs {k : List Tok} (hk : KOK k) : folTs k = false := by
  cases k with
  | nil => rfl
  | cons t ts =>
    have h := hk t (by simp)
    have hk3 := (isSymbol_iff.1 h).1
    simp [folTs, (rbrace_facts h).2.2.2, Tok.isOperator, hk3]

/-! ## soundness of the tree-level tests -/

theorem isKw_facts {t : Tok} {s : Str} (h : t.isKw s = true) : t.kind = 1 ∧ t.val = s := by
  simpa [Tok.isKw, Tok.isKeyword] using h

theorem kwFunction_noParen {t : Tok} (h : t.isKw kwFunctionS = true) :
    t.isName = false ∧ t.noParen = true := by
  obtain ⟨h1, h2⟩ := isKw_facts h
  simp [Tok.isName, Tok.noParen, isOpen, isClose, Tok.isSymbol, h1]

/-- the two shapes of a `function` / method header -/
theorem funHeaderOK_cases {h : List Tok} {k : Nat} (hh : funHeaderOK h k = true) :
    (k = 0 ∧ headerOK h = true) ∨
      (k = 1 ∧ ∃ f h', h = f :: h' ∧ f.isKw kwFunctionS = true ∧ headerOK h' = true) := by
  simp only [funHeaderOK, Bool.or_eq_true, Bool.and_eq_true, beq_iff_eq] at hh
  rcases hh with ⟨hk, h0⟩ | ⟨hk, h1⟩
  · exact .inl ⟨hk, h0⟩
  · right
    refine ⟨hk, ?_⟩
    cases h with
    | nil => cases h1
    | cons f h' =>
      simp only [Bool.and_eq_true] at h1
      exact ⟨f, h', rfl, h1.1, h1.2⟩

theorem funHeaderOK_sound {h : List Tok} {k : Nat} (hh : funHeaderOK h k = true) :
    headerOK (h.drop k) = true ∧
      ∀ t ∈ h.take k, t.isName = false ∧ t.noParen = true ∧ (fun _ : Tok => false) t = false := by
  rcases funHeaderOK_cases hh with ⟨rfl, h0⟩ | ⟨rfl, f, h', rfl, hf, h1⟩
  · exact ⟨h0, fun t ht => by simp at ht⟩
  · refine ⟨h1, fun t ht => ?_⟩
    simp only [List.take_succ_cons, List.take_zero, List.mem_singleton] at ht
    subst ht
    exact ⟨(kwFunction_noParen hf).1, (kwFunction_noParen hf).2, rfl⟩

/-- the first token of a `function` / method header is a Name token or a keyword -/
theorem funHeaderOK_head {h : List Tok} {k : Nat} (hh : funHeaderOK h k = true) :
    ∃ t r, h = t :: r ∧ (t.kind = 2 ∨ t.kind = 1) := by
  rcases funHeaderOK_cases hh with ⟨_, h0⟩ | ⟨_, f, h', rfl, hf, _⟩
  · obtain ⟨n, o, g, hflat, hn, _⟩ := headerShape_cases (headerOK_shape h0)
    exact ⟨n, o :: g, hflat, .inl (by simpa [Tok.isName] using hn)⟩
  · exact ⟨f, h', rfl, .inr (isKw_facts hf).1⟩

theorem cfgJs_sound : CfgSound cfgJs folC where
  hdr := fun _ _ h => funHeaderOK_sound h
  gap_noParen := by
    intro g hg t ht
    have : g = [] := by simpa [cfgJs] using hg
    subst this; cases ht
  gap_fol := by
    intro g op Y hg hop
    have : g = [] := by simpa [cfgJs] using hg
    subst this
    simpa [folC] using hop
  fol_sound := by
    intro q ex k hw hc hk hf
    cases q with
    | nil => rw [Prog.flat, List.nil_append, kok_folC hk] at hf; cases hf
    | leaf t rest => simp [Prog.flat, folC, leaf_not_lbrace hw] at hf
    | group op cl items rest => rfl
    | fn hdr j gap op cl body rest =>
      obtain ⟨_, hH, _⟩ := canonWith_fn hc
      obtain ⟨t, r, hflat, hkind⟩ := funHeaderOK_head hH
      rw [flat_fn_append, hflat] at hf
      rcases hkind with hk' | hk' <;> simp [folC, Tok.isSymbol, hk'] at hf
  exempt_punct := fun _ _ => rfl
  joins_punct := by
    intro t ht
    simp [cfgJs, Tok.isKw, Tok.isKeyword, ht]

theorem braceAhead_gap' {op : Tok} (Y : List Tok) (hop : op.isSymbol [123] = true) (ts : List Tok)
    (h : ts.all Tok.gapTok = true) : braceAhead (ts ++ op :: Y) = true :=
  braceAhead_gap Y hop ts h

theorem cfgTs_sound : CfgSound cfgTs folTs where
  hdr := fun _ _ h => funHeaderOK_sound h
  gap_noParen := by
    intro g hg t ht
    cases g with
    | nil => cases ht
    | cons a as =>
      simp only [cfgTs, tsGapOK, Bool.and_eq_true, List.all_eq_true] at hg
      rcases List.mem_cons.1 ht with rfl | ht
      · have hv : t.kind = 4 := by
          have := hg.1
          simp only [Tok.isOperator, Bool.and_eq_true, beq_iff_eq] at this
          exact this.1
        simp [Tok.noParen, isOpen, isClose, Tok.isSymbol, hv]
      · have := hg.2 t ht
        simp only [Tok.gapTok, Bool.and_eq_true] at this
        exact this.1.1
  gap_fol := by
    intro g op Y hg hop
    cases g with
    | nil => simp [folTs, hop]
    | cons a as =>
      simp only [cfgTs, tsGapOK, Bool.and_eq_true] at hg
      simp only [List.cons_append, folTs, hg.1, braceAhead_gap Y hop as hg.2, Bool.and_self,
        Bool.or_true]
  fol_sound := by
    intro q ex k hw hc hk hf
    cases q with
    | nil => rw [Prog.flat, List.nil_append, kok_folTs hk] at hf; cases hf
    | leaf t rest =>
      have h1 := leaf_not_lbrace hw
      simp only [Prog.wfCore, Bool.and_eq_true] at hw
      simp only [Prog.flat, List.cons_append, folTs, h1, Bool.false_or, Bool.and_eq_true] at hf
      simp only [cfgTs, Prog.tsFollows, hf.1, Bool.true_and]
      exact noSemiAhead_of_braceAhead rest k hw.2 hf.2
    | group op cl items rest => rfl
    | fn hdr j gap op cl body rest =>
      obtain ⟨_, hH, _⟩ := canonWith_fn hc
      obtain ⟨t, r, hflat, hkind⟩ := funHeaderOK_head hH
      rw [flat_fn_append, hflat] at hf
      rcases hkind with hk' | hk' <;>
        simp [folTs, Tok.isSymbol, Tok.isOperator, hk'] at hf
  exempt_punct := fun _ _ => rfl
  joins_punct := by
    intro t ht
    simp [cfgTs, Tok.isKw, Tok.isKeyword, ht]

/-! ## pairwise disjoint headers -/

/-- in a list of pairwise disjoint non-empty ranges, two members with the same end are equal -/
theorem eq_of_same_end {l : List Header} (hpw : l.Pairwise (fun a b => a.rng.e ≤ b.rng.s))
    (hne : ∀ a ∈ l, a.rng.s < a.rng.e) {a b : Header} (ha : a ∈ l) (hb : b ∈ l)
    (he : a.rng.e = b.rng.e) : a = b := by
  induction l with
  | nil => cases ha
  | cons x xs ih =>
    rw [List.pairwise_cons] at hpw
    rcases List.mem_cons.1 ha with rfl | ha' <;> rcases List.mem_cons.1 hb with rfl | hb'
    · rfl
    · have := hpw.1 b hb'
      have := hne b (List.mem_cons_of_mem _ hb')
      omega
    · have := hpw.1 a ha'
      have := hne a (List.mem_cons_of_mem _ ha')
      omega
    · exact ih hpw.2 (fun c hc => hne c (List.mem_cons_of_mem _ hc)) ha' hb'

/-! ## discovery through the function / method pattern -/

section funpat
variable {L : Language} {fo : Option (Rx Pred)} {C : CanonCfg} {fol : List Tok → Bool}

/-- the start of the reported range of a located header: the keyword `function` if it is part of
the header, the name otherwise -/
theorem funStart_located {pre hp rest : List Tok} {k : Nat} {h : List Tok}
    (hok : funHeaderOK (hp ++ h) k = true) (hl : hp.length = k)
    (hj : k = 0 → flagAfter (fun t => t.isKw kwFunctionS) false pre = false) :
    funStart (pre ++ (hp ++ rest)) (pre.length + hp.length) = pre.length := by
  unfold funStart
  rcases funHeaderOK_cases hok with ⟨rfl, _⟩ | ⟨rfl, f, h', hfh, hf, _⟩
  · have hpn : hp = [] := List.length_eq_zero_iff.1 hl
    subst hpn
    rw [if_neg]
    · rfl
    · rintro ⟨hpos, t, ht, hk⟩
      simp only [List.length_nil, Nat.add_zero] at hpos ht
      have hne : pre ≠ [] := by intro h0; rw [h0] at hpos; simp at hpos
      obtain ⟨a, u, rfl, hbu⟩ := flagAfter_false_last (hj rfl) hne
      have hget : (a ++ [u] ++ ([] ++ rest))[(a ++ [u]).length - 1]? = some u := by simp
      rw [hget] at ht; cases ht
      have : t.isKw kwFunctionS = true := hk
      rw [this] at hbu; cases hbu
  · obtain ⟨g, rfl⟩ : ∃ g, hp = [g] := by
      match hp, hl with
      | [g], _ => exact ⟨g, rfl⟩
    have hgf : g = f := by
      simp only [List.singleton_append, List.cons.injEq] at hfh
      exact hfh.1
    subst hgf
    rw [if_pos]
    · simp
    · refine ⟨by simp, g, ?_, hf⟩
      simp

variable (hL : L ∈ Gen.all.map (·.2)) (hpats : L.pats = [⟨fExpr, fo⟩, ⟨aExpr, some aFollow⟩])
  (hprev : L.prevKw = none) (hS : CfgSound C fol)
  (hfo : ∀ toks e, FollowsAt fo toks e ↔ fol (toks.drop e) = true)
  (hC : C.hdrOK = funHeaderOK ∧ C.exempt = (fun _ => false) ∧
    C.joins = (fun t => t.isKw kwFunctionS))

include hL hpats hprev hS hfo hC

/-- the header of every function node is reported -/
theorem fun_header_complete {p : Prog Tok} (hw : p.wfCore = true)
    (hc : p.canonWith C false = true) {hs : List Header}
    (h : extractHeaders L p.flat = .ok hs) : ∀ x ∈ fnsK p 0, x.1.hdr ∈ hs := by
  intro x hx
  obtain ⟨pre, hp, hd, gap, b, post, e, hl, hh, hok, hg, hb, _, hjn, hf'⟩ :=
    fn_located hS p false false 0 hw hc (by intro h; cases h) x hx
  have hgo : ∀ t ∈ gap, isOpen t = false :=
    fun t ht => (noParen_iff.1 (hS.gap_noParen _ hg t ht)).1
  have hZ : NoOpenHead (gap ++ b :: post) := by
    cases gap with
    | nil => exact NoOpenHead.cons (lbrace_facts hb).1
    | cons g gs => exact NoOpenHead.cons (hgo g (by simp))
  obtain ⟨h1, h2, h3, h4, h5⟩ := header_in_context (pre := pre ++ hp) (Z := gap ++ b :: post) hok hZ
  have e' : p.flat = pre ++ hp ++ (hd ++ (gap ++ b :: post)) := by rw [e]; simp
  rw [← e'] at h1 h2 h3 h5
  have hlt : (pre ++ hp).length + hd.length < p.flat.length := by
    have := congrArg List.length e'
    simp only [List.length_append, List.length_cons] at this ⊢
    omega
  obtain ⟨y, hy, hr, hn, _⟩ := complete_fExpr hL (by rw [hpats]; exact List.mem_cons_self ..) hprev
    h h1 ((hfo _ _).2 (by rw [h2]; exact hS.gap_fol _ _ _ hg hb)) hlt h5
  rw [h3] at hn
  have hfs : funStart p.flat (pre ++ hp).length = pre.length := by
    rw [e, List.length_append]
    refine funStart_located (k := x.2) (by rw [← hC.1]; exact hh) hl ?_
    intro hk0
    have := hjn hk0
    rw [hC.2.2] at this; exact this
  have : x.1.hdr = y := by
    rw [hf']
    cases y with
    | mk nm rng =>
      simp only at hr hn
      cases hn
      rw [hr, hfs]
      simp [Nat.add_assoc]
  rw [this]; exact hy

/-- every reported header is the header of a function node -/
theorem fun_header_sound {p : Prog Tok} (hw : p.wfCore = true) (hb : parenBal p.flat 0 = true)
    (hc : p.canonWith C false = true) (hna : noAssignedArrow p.flat = true) {hs : List Header}
    (h : extractHeaders L p.flat = .ok hs) : ∀ hd ∈ hs, hd ∈ p.fns.map (·.hdr) := by
  intro hd hhd
  have hhp : (⟨fExpr, fo⟩ : HeaderPat) ∈ L.pats := by rw [hpats]; exact List.mem_cons_self ..
  have h1 := extract_eq_first hL hpats hprev hna h
  obtain ⟨_, hfol, hname⟩ := sound_fExpr hL hhp h1 hd hhd
  -- the name token and the syntactic header that starts there
  obtain ⟨n, hsyn, hnm⟩ : ∃ n, SynHeader p.flat n hd.rng.e ∧ p.flat[n]? = some hd.name := by
    rcases hname with ⟨hs', hn'⟩ | ⟨hs', hn'⟩
    · exact ⟨_, hs', hn'⟩
    · exact ⟨_, hs', hn'⟩
  have hmem : (⟨hd.name, ⟨n, hd.rng.e⟩⟩ : Header) ∈ synHdrsG fol C.exempt false p.flat 0 := by
    refine mem_synHdrsG_of_synHeader hsyn ((hfo _ _).1 hfol) hnm ?_
    rcases Nat.eq_zero_or_pos n with h0 | hpos
    · exact .inl h0
    · right
      have hlt := (List.getElem?_eq_some_iff.1 hnm).1
      exact ⟨p.flat[n - 1]'(by omega), by simp, by rw [hC.2.1]⟩
  rw [synHdrsG_file hS hw hb hc] at hmem
  obtain ⟨x, hx, hxe⟩ := List.mem_map.1 hmem
  have hy := fun_header_complete hL hpats hprev hS hfo hC hw hc h x hx
  -- `hd` and the header of `x` are reported and end at the same token
  have hend : x.1.hdr.rng.e = hd.rng.e := by
    have := congrArg (fun h : Header => h.rng.e) hxe
    simpa [nameHdr] using this
  obtain ⟨hpw, hne⟩ := getHeaders_spec (shipped_headerPatOK L hL _ hhp) h1
  have : x.1.hdr = hd := eq_of_same_end hpw (fun a ha => (hne a ha).1) hy hhd hend
  rw [← this]
  have hx1 : x.1 ∈ (fnsK p 0).map (·.1) := List.mem_map.2 ⟨x, hx, rfl⟩
  rw [fnsK_fst] at hx1
  exact List.mem_map.2 ⟨x.1, hx1, rfl⟩

/-- **Discovery through the function / method pattern**: the reported headers are the headers of
the function nodes, in source order -/
theorem fun_headers_eq {p : Prog Tok} (hw : p.wfCore = true) (ha : p.noAdj = true)
    (hb : parenBal p.flat 0 = true) (hc : p.canonWith C false = true)
    (hna : noAssignedArrow p.flat = true) {hs : List Header}
    (h : extractHeaders L p.flat = .ok hs) : hs = p.fns.map (·.hdr) := by
  have hhp : (⟨fExpr, fo⟩ : HeaderPat) ∈ L.pats := by rw [hpats]; exact List.mem_cons_self ..
  have h1 := extract_eq_first hL hpats hprev hna h
  obtain ⟨hpw, hne⟩ := getHeaders_spec (shipped_headerPatOK L hL _ hhp) h1
  have hsorted : hs.Pairwise (fun a b => a.rng.s < b.rng.s) := by
    refine (List.Pairwise.and_mem.1 hpw).imp ?_
    intro a b ⟨ha', _, hab⟩
    have := (hne a ha').1
    omega
  refine eq_of_sorted_of_mem_iff hsorted (fns_sorted_of_wf hw ha) ?_
  intro hd
  constructor
  · exact fun_header_sound hL hpats hprev hS hfo hC hw hb hc hna h hd
  · intro hm
    obtain ⟨f, hf, rfl⟩ := List.mem_map.1 hm
    have hf' : f ∈ (fnsK p 0).map (·.1) := by rw [fnsK_fst]; exact hf
    obtain ⟨x, hx, rfl⟩ := List.mem_map.1 hf'
    exact fun_header_complete hL hpats hprev hS hfo hC hw hc h x hx

end funpat

/-! ## the two instances -/

theorem js_shipped : Gen.javascript ∈ Gen.all.map (·.2) := by simp [Gen.all]
theorem ts_shipped : Gen.typescript ∈ Gen.all.map (·.2) := by simp [Gen.all]

/-- **Discovery for the canonical fragment of JavaScript without arrow functions** -/
theorem js_headers_eq {p : Prog Tok} (hw : p.wfCore = true) (ha : p.noAdj = true)
    (hc : p.CanonJs = true) {hs : List Header}
    (h : extractHeaders Gen.javascript p.flat = .ok hs) : hs = p.fns.map (·.hdr) := by
  simp only [Prog.CanonJs, Bool.and_eq_true] at hc
  exact fun_headers_eq js_shipped js_pats rfl cfgJs_sound
    (fun toks e => (followsAt_brace toks e).trans (folC_iff toks e).symm) ⟨rfl, rfl, rfl⟩
    hw ha hc.1.1 hc.1.2 hc.2 h

/-- **Discovery for the canonical fragment of TypeScript without arrow functions** -/
theorem ts_headers_eq {p : Prog Tok} (hw : p.wfCore = true) (ha : p.noAdj = true)
    (hc : p.CanonTs = true) {hs : List Header}
    (h : extractHeaders Gen.typescript p.flat = .ok hs) : hs = p.fns.map (·.hdr) := by
  simp only [Prog.CanonTs, Bool.and_eq_true] at hc
  exact fun_headers_eq ts_shipped ts_pats rfl cfgTs_sound
    (fun toks e => (followsAt_ts toks e).trans (folTs_iff toks e).symm) ⟨rfl, rfl, rfl⟩
    hw ha hc.1.1 hc.1.2 hc.2 h

end CL
