import CodeLimit.Lemmas.ScanBoundsPipeline
/-!
# Consequences of position order (`PosOrdered`, property C16)

When the code tokens are listed in strictly increasing `(line, column)` order
* sorting by position is sorting by index, so brace blocks are listed in start order;
* `tokens.index(t)` returns the index of `t` itself; Python blocks are non-empty ranges listed in
  start order (for ordered headers);
* scopes are reported in header-start order.
-/
namespace CL

/-! ## position order -/

theorem PosOrdered.before {toks : List Tok} (hp : PosOrdered toks) {i j : Nat} {a b : Tok}
    (hij : i < j) (ha : toks[i]? = some a) (hb : toks[j]? = some b) : a.before b := by
  obtain ⟨hi, rfl⟩ := List.getElem?_eq_some_iff.1 ha
  obtain ⟨hj, rfl⟩ := List.getElem?_eq_some_iff.1 hb
  exact List.pairwise_iff_getElem.1 hp i j hi hj hij

theorem PosOrdered.idx_le {toks : List Tok} (hp : PosOrdered toks) {i j : Nat} {a b : Tok}
    (ha : toks[i]? = some a) (hb : toks[j]? = some b)
    (h : keyLe (a.line, a.col) (b.line, b.col) = true) : i ≤ j := by
  rcases Nat.lt_or_ge j i with hji | hij
  · have := hp.before hji hb ha
    simp only [keyLe, Bool.or_eq_true, decide_eq_true_eq, Bool.and_eq_true, beq_iff_eq] at h
    unfold Tok.before at this
    omega
  · exact hij

theorem PosOrdered.line_le {toks : List Tok} (hp : PosOrdered toks) {i j : Nat} {a b : Tok}
    (hij : i ≤ j) (ha : toks[i]? = some a) (hb : toks[j]? = some b) : a.line ≤ b.line := by
  rcases Nat.lt_or_ge i j with h | h
  · have := hp.before h ha hb
    unfold Tok.before at this; omega
  · have : i = j := by omega
    subst this
    rw [ha] at hb; cases hb; exact Nat.le_refl _

theorem PosOrdered.idx_eq {toks : List Tok} (hp : PosOrdered toks) {i j : Nat} {a b : Tok}
    (ha : toks[i]? = some a) (hb : toks[j]? = some b) (h1 : a.line = b.line) (h2 : a.col = b.col) :
    i = j := by
  have h3 := hp.idx_le ha hb (by simp [keyLe, h1, h2])
  have h4 := hp.idx_le hb ha (by simp [keyLe, h1, h2])
  omega

theorem KeyLeAt.idx_le {γ : Type} {toks : List Tok} {start : γ → Nat} (hp : PosOrdered toks)
    {a b : γ} (h : KeyLeAt toks start a b) : start a ≤ start b := by
  obtain ⟨ka, kb, hka, hkb, hle⟩ := h
  obtain ⟨ta, hta, rfl⟩ := posKey_eq_ok hka
  obtain ⟨tb, htb, rfl⟩ := posKey_eq_ok hkb
  exact hp.idx_le hta htb hle

/-- brace blocks are listed in start order -/
theorem getBlocks_sorted {toks : List Tok} (hp : PosOrdered toks) {bs : List Range}
    (h : getBlocks toks = .ok bs) : bs.Pairwise (fun a b => a.s ≤ b.s) :=
  (getBlocks_spec h).2.imp (fun hk => hk.idx_le hp)

/-! ## `tokens.index` on distinct positions -/

theorem tokIndex_eq {toks : List Tok} (hp : PosOrdered toks) {a : Nat} {t : Tok}
    (h : toks[a]? = some t) : tokIndex toks t = .ok a := by
  unfold tokIndex
  have ha : a < toks.length := (List.getElem?_eq_some_iff.1 h).1
  have hta : toks[a] = t := (List.getElem?_eq_some_iff.1 h).2
  cases hf : toks.findIdx? (fun u => u.line == t.line && u.col == t.col && u.ty == t.ty && u.val == t.val) with
  | none =>
    rw [List.findIdx?_eq_none_iff] at hf
    have := hf toks[a] (List.getElem_mem ha)
    simp [hta] at this
  | some i =>
    obtain ⟨hi, hpi, _⟩ := List.findIdx?_eq_some_iff_getElem.1 hf
    simp only [Bool.and_eq_true, beq_iff_eq] at hpi
    have := hp.idx_eq (List.getElem?_eq_getElem hi) h hpi.1.1.1 hpi.1.1.2
    rw [this]

/-! ## the block-line loop: where it stops -/

theorem blockLineIndices_split {toks : List Tok} (hl hi : Nat) :
    ∀ (R : List (List Nat × Nat)) (acc res : List Nat),
    blockLineIndices toks hl hi R acc = .ok res →
    ∃ R1 R2, R = R1 ++ R2 ∧
      (∀ p ∈ R1, ∃ t, lineHead toks p.1 = .ok t ∧ hl < t.line) ∧
      (∀ p, R2.head? = some p → ∃ t, lineHead toks p.1 = .ok t ∧ t.line ≤ hl) ∧
      (∀ x ∈ res, x ∈ acc ∨ x ∈ R1.map (·.2)) ∧
      (R1 = [] → res = acc) ∧
      (R1 ≠ [] → res ≠ [] → res.getLast? = R1.getLast?.map (·.2))
  | [], acc, res, h => by
    simp only [blockLineIndices, Except.ok.injEq] at h
    subst h
    exact ⟨[], [], rfl, by simp, by simp, fun x hx => .inl hx, fun _ => rfl, fun h => absurd rfl h⟩
  | (l, li) :: rest, acc, res, h => by
    unfold blockLineIndices at h
    split at h
    · cases h
    · next t ht =>
      split at h
      · next hle =>
        simp only [Except.ok.injEq] at h
        subst h
        refine ⟨[], (l, li) :: rest, rfl, by simp, ?_, fun x hx => .inl hx, fun _ => rfl,
          fun h => absurd rfl h⟩
        intro p hp
        simp only [List.head?_cons, Option.some.injEq] at hp
        subst hp
        exact ⟨t, ht, hle⟩
      · next hgt =>
        have hgt' : hl < t.line := by omega
        -- both remaining branches continue with some accumulator `acc'`
        have key : ∀ acc', (∀ x ∈ acc', x ∈ acc ∨ x = li) → (acc' ≠ [] → acc'.getLast? = some li) →
            blockLineIndices toks hl hi rest acc' = .ok res →
            ∃ R1 R2, (l, li) :: rest = R1 ++ R2 ∧
              (∀ p ∈ R1, ∃ t, lineHead toks p.1 = .ok t ∧ hl < t.line) ∧
              (∀ p, R2.head? = some p → ∃ t, lineHead toks p.1 = .ok t ∧ t.line ≤ hl) ∧
              (∀ x ∈ res, x ∈ acc ∨ x ∈ R1.map (·.2)) ∧
              (R1 = [] → res = acc) ∧
              (R1 ≠ [] → res ≠ [] → res.getLast? = R1.getLast?.map (·.2)) := by
          intro acc' hacc' hlast h'
          obtain ⟨R1, R2, hR, h1, h2, h3, h4, h5⟩ := blockLineIndices_split hl hi rest acc' res h'
          refine ⟨(l, li) :: R1, R2, by simp [hR], ?_, h2, ?_, by simp, ?_⟩
          · intro p hp
            rcases List.mem_cons.1 hp with rfl | hp
            · exact ⟨t, ht, hgt'⟩
            · exact h1 p hp
          · intro x hx
            rcases h3 x hx with hx | hx
            · rcases hacc' x hx with hx | hx
              · exact .inl hx
              · right; simp [hx]
            · right; simp only [List.map_cons, List.mem_cons]; exact .inr hx
          · intro _ hres
            by_cases hR1 : R1 = []
            · subst hR1
              have := h4 rfl
              subst this
              simp [hlast hres]
            · rw [h5 hR1 hres]
              cases R1 with
              | nil => exact absurd rfl hR1
              | cons q qs => simp [List.getLast?_cons_cons]
        split at h
        · exact key (acc ++ [li]) (by simp) (by simp) h
        · exact key [] (by simp) (by simp) h

/-! ## Python blocks under position order -/

/-- where a Python block starts: at the head `a` of line `j`, the first line below the line of
the token after the header; the block is a non-empty range -/
def PyStart (toks : List Tok) (h : Header) (blk : Range) : Prop :=
  ∃ (j : Nat) (l : List Nat) (ta after : Tok),
    (tokenLines toks)[j]? = some l ∧ l.head? = some blk.s ∧ toks[blk.s]? = some ta ∧
    toks[h.rng.e]? = some after ∧ after.line < ta.line ∧ blk.s < blk.e ∧ blk.e ≤ toks.length ∧
    (j = 0 ∨ ∃ l' a' ta', (tokenLines toks)[j - 1]? = some l' ∧ l'.head? = some a' ∧
      toks[a']? = some ta' ∧ ta'.line ≤ after.line)

theorem lineHead_eq_ok {toks : List Tok} {l : List Nat} {t : Tok} (h : lineHead toks l = .ok t) :
    ∃ a, l.head? = some a ∧ toks[a]? = some t := by
  cases l with
  | nil => cases h
  | cons a as => exact ⟨a, rfl, getE_ok_inv h⟩

/-- the cross relation between lines: every index of an earlier line is `≤` every index of a
later line, and the head of a line is `≤` its members -/
theorem lines_cross {lines : List (List Nat)} (hm : lines.flatten.Pairwise (· ≤ ·))
    {j j' : Nat} {l l' : List Nat} (hj : lines[j]? = some l) (hj' : lines[j']? = some l')
    (hjj : j < j') : ∀ x ∈ l, ∀ y ∈ l', x ≤ y := by
  have h2 := (List.pairwise_flatten.1 hm).2
  obtain ⟨hlt, rfl⟩ := List.getElem?_eq_some_iff.1 hj
  obtain ⟨hlt', rfl⟩ := List.getElem?_eq_some_iff.1 hj'
  exact List.pairwise_iff_getElem.1 h2 j j' hlt hlt' hjj

theorem line_head_le {lines : List (List Nat)} (hm : lines.flatten.Pairwise (· ≤ ·))
    {l : List Nat} (hl : l ∈ lines) {a : Nat} (ha : l.head? = some a) : ∀ y ∈ l, a ≤ y := by
  have h1 := (List.pairwise_flatten.1 hm).1 l hl
  cases l with
  | nil => cases ha
  | cons x xs =>
    simp only [List.head?_cons, Option.some.injEq] at ha
    subst ha
    intro y hy
    rcases List.mem_cons.1 hy with rfl | hy
    · exact Nat.le_refl _
    · exact (List.pairwise_cons.1 h1).1 y hy

theorem lines_head_mono {lines : List (List Nat)} (hm : lines.flatten.Pairwise (· ≤ ·))
    {j j' : Nat} {l l' : List Nat} {a a' : Nat} (hj : lines[j]? = some l) (hj' : lines[j']? = some l')
    (ha : l.head? = some a) (ha' : l'.head? = some a') (hjj : j ≤ j') : a ≤ a' := by
  rcases Nat.lt_or_ge j j' with h | h
  · exact lines_cross hm hj hj' h a (List.mem_of_mem_head? ha) a' (List.mem_of_mem_head? ha')
  · have : j = j' := by omega
    subst this
    rw [hj] at hj'; cases hj'
    rw [ha] at ha'; cases ha'
    exact Nat.le_refl _

/-- the reversed enumeration split at some point: the parts are described by indices -/
theorem zipIdx_reverse_split {α : Type} {lines : List α} {R1 R2 : List (α × Nat)}
    (h : lines.zipIdx.reverse = R1 ++ R2) :
    (∀ p ∈ R1, lines[p.2]? = some p.1 ∧ R2.length ≤ p.2) ∧
    (∀ p, R1.getLast? = some p → p.2 = R2.length) ∧
    (∀ p, R2.head? = some p → lines[p.2]? = some p.1 ∧ p.2 + 1 = R2.length) := by
  have hz : lines.zipIdx = R2.reverse ++ R1.reverse := by
    have := congrArg List.reverse h
    simpa using this
  have hget : ∀ (k : Nat) (p : α × Nat), lines.zipIdx[k]? = some p → p.2 = k ∧ lines[k]? = some p.1 := by
    intro k p hk
    obtain ⟨hlt, rfl⟩ := List.getElem?_eq_some_iff.1 hk
    simp only [List.length_zipIdx] at hlt
    simp [List.getElem_zipIdx]
  refine ⟨?_, ?_, ?_⟩
  · intro p hp
    obtain ⟨k, hk⟩ := List.mem_iff_getElem?.1 (List.mem_reverse.2 hp)
    have hk' : lines.zipIdx[R2.length + k]? = some p := by
      rw [hz, List.getElem?_append_right (by simp)]
      simpa using hk
    obtain ⟨h1, h2⟩ := hget _ _ hk'
    rw [h1]; exact ⟨h2, by omega⟩
  · intro p hp
    have hk' : lines.zipIdx[R2.length + 0]? = some p := by
      rw [hz, List.getElem?_append_right (by simp)]
      simp only [List.length_reverse, Nat.add_zero, Nat.sub_self]
      rw [← List.head?_eq_getElem?, List.head?_reverse]
      exact hp
    exact (hget _ _ hk').1
  · intro p hp
    cases R2 with
    | nil => cases hp
    | cons q qs =>
      simp only [List.head?_cons, Option.some.injEq] at hp
      subst hp
      have hk' : lines.zipIdx[qs.length]? = some q := by
        rw [hz]
        simp only [List.reverse_cons, List.append_assoc, List.singleton_append]
        rw [List.getElem?_append_right (by simp)]
        simp
      obtain ⟨h1, h2⟩ := hget _ _ hk'
      rw [h1]; exact ⟨h2, by simp⟩

/-- with distinct, ordered positions a block returned by `pyBlockOf` starts at the head of the
first line below the header's last line -/
theorem PyBlockFrom.start {toks : List Tok} (hp : PosOrdered toks) {h : Header} {blk : Range}
    (hb : PyBlockFrom toks (tokenLines toks) h blk) : PyStart toks h blk := by
  obtain ⟨after, c, idxs, a, b, ta, tb, s, e, hafter, _, hidx, hli, ha, hb', hta, htb, hs, _, he, _,
    rfl⟩ := hb
  have hinv := tokenLines_inv toks
  -- `tokens.index` is the identity here
  rw [tokIndex_eq hp hta] at hs
  rw [tokIndex_eq hp htb] at he
  cases hs; cases he
  -- the selected token indices are non-empty, so some line was selected
  have hne : idxs ≠ [] := by
    rintro rfl
    simp at ha
  obtain ⟨R1, R2, hR, h1, h2, h3, h4, h5⟩ := blockLineIndices_split _ _ _ _ _ hidx
  have hR1 : R1 ≠ [] := fun h0 => hne (h4 h0)
  obtain ⟨hz1, hz2, hz3⟩ := zipIdx_reverse_split hR
  obtain ⟨⟨l, j⟩, hlast⟩ : ∃ p, R1.getLast? = some p := by
    cases hl : R1.getLast? with
    | none => exact absurd (List.getLast?_eq_none_iff.1 hl) hR1
    | some p => exact ⟨p, rfl⟩
  have hjmem := List.mem_of_mem_getLast? hlast
  have hjR2 : j = R2.length := hz2 _ hlast
  have hlj : (tokenLines toks)[j]? = some l := (hz1 _ hjmem).1
  have hidxlast : idxs.getLast? = some j := by rw [h5 hR1 hne, hlast]; rfl
  -- every selected line index is at least `j`
  have hge : ∀ li ∈ idxs, j ≤ li := by
    intro li hmem
    rcases h3 li hmem with h | h
    · cases h
    · obtain ⟨p, hp', rfl⟩ := List.mem_map.1 h
      have := (hz1 p hp').2
      omega
  -- the head of the selection is the head of line `j`
  have hlne : l ≠ [] := hinv.ne l (List.mem_of_getElem? hlj)
  have hhead : l.head? = some a := by
    have hrev : idxs.reverse.head? = some j := by rw [List.head?_reverse]; exact hidxlast
    cases hr : idxs.reverse with
    | nil => rw [hr] at hrev; cases hrev
    | cons x xs =>
      rw [hr] at hrev ha
      simp only [List.head?_cons, Option.some.injEq] at hrev
      subst hrev
      simp only [List.flatMap_cons, hlj, Option.getD_some] at ha
      cases l with
      | nil => exact absurd rfl hlne
      | cons y ys => simpa using ha
  -- the head token of line `j` lies below the header's last line
  obtain ⟨t, ht, hlt⟩ := h1 _ hjmem
  obtain ⟨a0, ha0, hta0⟩ := lineHead_eq_ok ht
  simp only at ha0
  rw [hhead] at ha0; cases ha0
  rw [hta] at hta0; cases hta0
  -- the last selected index is not before the head
  have hab : a ≤ b := by
    obtain ⟨li, hli', hbl⟩ := List.mem_flatMap.1 (List.mem_of_mem_getLast? hb')
    have hli'' := List.mem_reverse.1 hli'
    have hlt' := hli li hli''
    rw [List.getElem?_eq_getElem hlt'] at hbl
    simp only [Option.getD_some] at hbl
    rcases Nat.lt_or_ge j li with hjl | hjl
    · exact lines_cross hinv.mono hlj (List.getElem?_eq_getElem hlt') hjl a
        (List.mem_of_mem_head? hhead) b hbl
    · have : li = j := by have := hge li hli''; omega
      subst this
      have : (tokenLines toks)[li] = l := by
        have := List.getElem?_eq_getElem hlt'
        rw [hlj] at this; cases this; rfl
      rw [this] at hbl
      exact line_head_le hinv.mono (List.mem_of_getElem? hlj) hhead b hbl
  have hblt : b < toks.length := (List.getElem?_eq_some_iff.1 htb).1
  refine ⟨j, l, ta, after, hlj, hhead, hta, hafter, hlt, by simp only; omega, by simp only; omega, ?_⟩
  -- the line before `j`, if any, stopped the loop
  cases hR2 : R2 with
  | nil => left; rw [hjR2, hR2]; rfl
  | cons q qs =>
    right
    have hq : R2.head? = some q := by rw [hR2]; rfl
    obtain ⟨t', ht', hle'⟩ := h2 q hq
    obtain ⟨a', ha', hta'⟩ := lineHead_eq_ok ht'
    have := hz3 q hq
    refine ⟨q.1, a', t', ?_, ha', hta', hle'⟩
    have hq1 : q.2 = j - 1 := by omega
    rw [← hq1]; exact this.1

/-- block starts are monotone in the position of the token after the header -/
theorem PyStart.mono {toks : List Tok} (hp : PosOrdered toks) {h1 h2 : Header} {b1 b2 : Range}
    (hs1 : PyStart toks h1 b1) (hs2 : PyStart toks h2 b2) (hle : h1.rng.e ≤ h2.rng.e) :
    b1.s ≤ b2.s := by
  obtain ⟨j1, l1, ta1, after1, hl1, hh1, hta1, haf1, hlt1, _, _, hprev1⟩ := hs1
  obtain ⟨j2, l2, ta2, after2, hl2, hh2, hta2, haf2, hlt2, _, _, _⟩ := hs2
  have hm := (tokenLines_inv toks).mono
  have hafter : after1.line ≤ after2.line := hp.line_le hle haf1 haf2
  rcases Nat.lt_or_ge j2 j1 with hj | hj
  · exfalso
    rcases hprev1 with h0 | ⟨l', a', ta', hl', hh', hta', hle'⟩
    · omega
    · have hidx : b2.s ≤ a' := lines_head_mono hm hl2 hl' hh2 hh' (by omega)
      have := hp.line_le hidx hta2 hta'
      omega
  · exact lines_head_mono hm hl1 hl2 hh1 hh2 hj

theorem List.Forall₂'.pairwise {α β : Type} {F : α → β → Prop} {Ra : α → α → Prop}
    {Rb : β → β → Prop} (hR : ∀ a a' b b', Ra a a' → F a b → F a' b' → Rb b b') :
    ∀ {l1 : List α} {l2 : List β}, List.Forall₂' F l1 l2 → l1.Pairwise Ra → l2.Pairwise Rb := by
  intro l1 l2 h
  induction h with
  | nil => intro _; exact List.Pairwise.nil
  | cons hab hrest ih =>
    intro hp
    obtain ⟨hp1, hp2⟩ := List.pairwise_cons.1 hp
    refine List.pairwise_cons.2 ⟨?_, ih hp2⟩
    intro b' hb'
    obtain ⟨a', ha', hf'⟩ := hrest.mem_right hb'
    exact hR _ _ _ _ (hp1 a' ha') hab hf'

/-- Python blocks of ordered headers are non-empty ranges listed in start order -/
theorem pyBlocks_sorted {toks : List Tok} (hp : PosOrdered toks) {hs : List Header}
    (hwf : ∀ h ∈ hs, h.rng.s < h.rng.e) (hord : hs.Pairwise (fun a b => a.rng.e ≤ b.rng.s))
    {rs : List Range} (h : pyBlocks toks hs = .ok rs) :
    rs.Pairwise (fun a b => a.s ≤ b.s) ∧ ∀ b ∈ rs, BlockWF toks.length b := by
  obtain ⟨rs', hrs', hs', hsub, hf⟩ := pyBlocks_from toks hs hwf
  rw [h] at hrs'; cases hrs'
  constructor
  · refine List.Forall₂'.pairwise (Ra := fun a b : Header => a.rng.e ≤ b.rng.e) ?_ hf ?_
    · intro a a' b b' hle hb hb'
      exact (hb.start hp).mono hp (hb'.start hp) hle
    · refine (List.Pairwise.and_mem.1 (hord.sublist hsub)).imp ?_
      intro a b ⟨_, hb, hab⟩
      have := hwf b (hsub.subset hb)
      omega
  · intro b hb
    obtain ⟨hd, _, hfrom⟩ := hf.mem_right hb
    obtain ⟨_, _, _, _, _, _, _, _, _, h1, h2, _⟩ := hfrom.start hp
    exact ⟨h1, h2⟩

/-- Python blocks on position-ordered tokens are non-empty ranges inside the tokens -/
theorem pyBlocks_wf {toks : List Tok} (hp : PosOrdered toks) {hs : List Header}
    (hwf : ∀ h ∈ hs, h.rng.s < h.rng.e) {rs : List Range} (h : pyBlocks toks hs = .ok rs) :
    ∀ b ∈ rs, BlockWF toks.length b := by
  obtain ⟨rs', hrs', hs', _, hf⟩ := pyBlocks_from toks hs hwf
  rw [h] at hrs'; cases hrs'
  intro b hb
  obtain ⟨hd, _, hfrom⟩ := hf.mem_right hb
  obtain ⟨_, _, _, _, _, _, _, _, _, h1, h2, _⟩ := hfrom.start hp
  exact ⟨h1, h2⟩

/-! ## scopes under position order -/

/-- every scope ends no earlier than some block that starts at or after the header end -/
theorem buildScopes0_good {toks : List Tok} {hs : List Header} {bs : List Range} {sc : List Scope}
    (hwf : ∀ h ∈ hs, HeaderWF toks h) (hbwf : ∀ b ∈ bs, b.s ≤ b.e)
    (h : buildScopes0 toks hs bs = .ok sc) :
    ∀ s ∈ sc, s.hdr ∈ hs ∧ ∃ b ∈ bs, s.hdr.rng.e ≤ b.s ∧ b.e ≤ s.blk.e := by
  have hlt : ∀ h ∈ hs, h.rng.s < toks.length := fun h hh => by
    have := hwf h hh; unfold HeaderWF at this; omega
  obtain ⟨rh, r, hrh, hr, hsub, hsel⟩ := buildScopes0_spec (blocks := bs) hlt
  rw [h] at hr; cases hr
  intro s hs'
  have hmem : s.hdr ∈ hs := by
    have : s.hdr ∈ rh.reverse := hsub.subset (List.mem_map.2 ⟨s, hs', rfl⟩)
    exact (sortDesc_perm_sorted hrh).1.mem_iff.1 (List.mem_reverse.1 this)
  obtain ⟨bl, hbl, hss⟩ := hsel s hs'
  obtain ⟨b, hb, h1, h2⟩ := hss.good (fun b hb => hbwf b (hbl.subset hb))
  exact ⟨hmem, b, hbl.subset hb, h1, h2⟩

/-- scopes come out in header-start order; strictly when header starts are distinct -/
theorem buildScopes0_order {toks : List Tok} (hp : PosOrdered toks) {hs : List Header}
    {bs : List Range} {sc : List Scope} (hwf : ∀ h ∈ hs, h.rng.s < toks.length)
    (h : buildScopes0 toks hs bs = .ok sc) :
    sc.Pairwise (fun a b => a.hdr.rng.s ≤ b.hdr.rng.s) ∧
    ((hs.map (·.rng.s)).Nodup → sc.Pairwise (fun a b => a.hdr.rng.s < b.hdr.rng.s)) := by
  obtain ⟨rh, r, hrh, hr, hsub, _⟩ := buildScopes0_spec (blocks := bs) hwf
  rw [h] at hr; cases hr
  obtain ⟨hperm, hsorted⟩ := sortDesc_perm_sorted hrh
  have h1 : (sc.map (·.hdr)).Pairwise (fun a b => a.rng.s ≤ b.rng.s) := by
    refine List.Pairwise.sublist hsub ?_
    rw [List.pairwise_reverse]
    exact hsorted.imp (fun hk => KeyLeAt.idx_le (start := fun h : Header => h.rng.s) hp hk)
  have h1' : sc.Pairwise (fun a b => a.hdr.rng.s ≤ b.hdr.rng.s) := by
    rwa [List.pairwise_map] at h1
  refine ⟨h1', fun hnd => ?_⟩
  have hnd' : ((sc.map (·.hdr)).map (·.rng.s)).Nodup := by
    have h2 : (rh.reverse.map (·.rng.s)).Nodup := by
      rw [List.map_reverse]
      exact (List.reverse_perm _).nodup_iff.2 ((hperm.map _).nodup_iff.2 hnd)
    exact List.Pairwise.sublist (hsub.map _) h2
  rw [List.map_map, List.Nodup, List.pairwise_map] at hnd'
  exact (h1'.and hnd').imp (fun ⟨hle, hne⟩ => by
    simp only [Function.comp_apply, ne_eq] at hne
    omega)

theorem map_pair_fst (l : List Scope) :
    (l.map (fun s => (s, ([] : List Range)))).map (·.1) = l := by
  induction l with
  | nil => rfl
  | cons a l ih => simp only [List.map_cons, ih]

theorem reportScopes_sublist (L : Language) (fl : List Scope) :
    ((reportScopes L fl).map (·.1)).Sublist fl := by
  unfold reportScopes
  split
  · exact (withChildren_fst fl (foldParents fl 0 [])).symm ▸ List.Sublist.refl fl
  · rw [map_pair_fst]
    exact filterNested_sub fl none

end CL
