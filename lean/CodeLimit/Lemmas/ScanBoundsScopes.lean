import CodeLimit.Lemmas.ScanBoundsPyBlocks
/-!
# Index bounds, part 3: scopes (`_build_scopes_from_headers_and_blocks`)

* `minList` / `maxList` on non-empty lists;
* `scopeBlockIndices` returns valid block indices, so the selected blocks are a non-empty
  sublist of the blocks whenever the index list is non-empty: `buildScopesLoop` never raises;
* every scope's block range is `[min s, max e]` of the blocks selected for its header
  (`ScopeSel`); some selected block starts at or after the header end (`ScopeSel.good`).
-/
namespace CL

/-! ## `min` / `max` of a list -/

theorem foldlMin_le (xs : List Nat) (x : Nat) : xs.foldl min x ≤ x ∧ ∀ y ∈ xs, xs.foldl min x ≤ y := by
  induction xs generalizing x with
  | nil => simp
  | cons a as ih =>
    simp only [List.foldl_cons]
    obtain ⟨h1, h2⟩ := ih (min x a)
    refine ⟨by omega, fun y hy => ?_⟩
    rcases List.mem_cons.1 hy with rfl | hy
    · omega
    · exact h2 y hy

theorem foldlMax_ge (xs : List Nat) (x : Nat) : x ≤ xs.foldl max x ∧ ∀ y ∈ xs, y ≤ xs.foldl max x := by
  induction xs generalizing x with
  | nil => simp
  | cons a as ih =>
    simp only [List.foldl_cons]
    obtain ⟨h1, h2⟩ := ih (max x a)
    refine ⟨by omega, fun y hy => ?_⟩
    rcases List.mem_cons.1 hy with rfl | hy
    · omega
    · exact h2 y hy

theorem foldlMax_mem (xs : List Nat) (x : Nat) : xs.foldl max x = x ∨ xs.foldl max x ∈ xs := by
  induction xs generalizing x with
  | nil => simp
  | cons a as ih =>
    simp only [List.foldl_cons]
    rcases ih (max x a) with h | h
    · rw [h]
      by_cases hxa : x ≤ a
      · right; rw [Nat.max_eq_right hxa]; exact List.mem_cons_self
      · left; exact Nat.max_eq_left (by omega)
    · right; exact List.mem_cons_of_mem _ h

theorem foldlMin_mem (xs : List Nat) (x : Nat) : xs.foldl min x = x ∨ xs.foldl min x ∈ xs := by
  induction xs generalizing x with
  | nil => simp
  | cons a as ih =>
    simp only [List.foldl_cons]
    rcases ih (min x a) with h | h
    · rw [h]
      by_cases hxa : x ≤ a
      · left; exact Nat.min_eq_left hxa
      · right; rw [Nat.min_eq_right (by omega)]; exact List.mem_cons_self
    · right; exact List.mem_cons_of_mem _ h

theorem minList_ok {xs : List Nat} (h : xs ≠ []) :
    ∃ m, minList xs = .ok m ∧ m ∈ xs ∧ ∀ y ∈ xs, m ≤ y := by
  cases xs with
  | nil => exact absurd rfl h
  | cons x xs =>
    refine ⟨_, rfl, ?_, ?_⟩
    · rcases foldlMin_mem xs x with h | h
      · rw [h]; exact List.mem_cons_self
      · exact List.mem_cons_of_mem _ h
    · intro y hy
      rcases List.mem_cons.1 hy with rfl | hy
      · exact (foldlMin_le xs _).1
      · exact (foldlMin_le xs x).2 y hy

theorem maxList_ok {xs : List Nat} (h : xs ≠ []) :
    ∃ m, maxList xs = .ok m ∧ m ∈ xs ∧ ∀ y ∈ xs, y ≤ m := by
  cases xs with
  | nil => exact absurd rfl h
  | cons x xs =>
    refine ⟨_, rfl, ?_, ?_⟩
    · rcases foldlMax_mem xs x with h | h
      · rw [h]; exact List.mem_cons_self
      · exact List.mem_cons_of_mem _ h
    · intro y hy
      rcases List.mem_cons.1 hy with rfl | hy
      · exact (foldlMax_ge xs _).1
      · exact (foldlMax_ge xs x).2 y hy

theorem minList_spec {xs : List Nat} {m : Nat} (h : minList xs = .ok m) : m ∈ xs ∧ ∀ y ∈ xs, m ≤ y := by
  cases xs with
  | nil => cases h
  | cons x xs =>
    obtain ⟨m', h1, h2, h3⟩ := minList_ok (xs := x :: xs) (by simp)
    rw [h] at h1; cases h1; exact ⟨h2, h3⟩

theorem maxList_spec {xs : List Nat} {m : Nat} (h : maxList xs = .ok m) : m ∈ xs ∧ ∀ y ∈ xs, y ≤ m := by
  cases xs with
  | nil => cases h
  | cons x xs =>
    obtain ⟨m', h1, h2, h3⟩ := maxList_ok (xs := x :: xs) (by simp)
    rw [h] at h1; cases h1; exact ⟨h2, h3⟩

/-! ## `zipIdx` helpers, `delete_indices` -/

theorem zipIdx_filter_fst {α : Type} (Q : α → Bool) : ∀ (l : List α) (k : Nat),
    ((l.zipIdx k).filter (fun p => Q p.1)).map (·.1) = l.filter Q
  | [], _ => rfl
  | x :: xs, k => by
    simp only [List.zipIdx_cons, List.filter_cons]
    by_cases hq : Q x = true
    · simp [hq, zipIdx_filter_fst Q xs (k + 1)]
    · simp [hq, zipIdx_filter_fst Q xs (k + 1)]

theorem zipIdx_filterMap_sublist {α : Type} (f : α × Nat → Option α)
    (hf : ∀ p y, f p = some y → y = p.1) : ∀ (l : List α) (k : Nat),
    ((l.zipIdx k).filterMap f).Sublist l
  | [], _ => by simp
  | x :: xs, k => by
    simp only [List.zipIdx_cons, List.filterMap_cons]
    have ih := zipIdx_filterMap_sublist f hf xs (k + 1)
    cases hfx : f (x, k) with
    | none => exact ih.trans (List.sublist_cons_self _ _)
    | some y =>
      have := hf _ _ hfx
      subst this
      exact ih.cons_cons _

theorem deleteIndices_sublist {α : Type} (l : List α) (idxs : List Nat) :
    (deleteIndices l idxs).Sublist l := by
  unfold deleteIndices
  apply zipIdx_filterMap_sublist
  intro p y h
  obtain ⟨x, i⟩ := p
  simp only at h
  split at h
  · cases h
  · cases h; rfl

/-! ## `_get_nearest_block` -/

theorem nearestBlock_spec (h : Range) : ∀ (rev : List Range) (res : Option Range) (body : Range),
    (∀ r, res = some r → h.e ≤ r.s) →
    nearestBlock h rev res = some body →
    (h.e ≤ body.s ∧ (body ∈ rev ∨ res = some body)) ∨
    (res = none ∧ body.contains h = true ∧ ∃ r1 r2, rev = r1 ++ body :: r2 ∧ ∀ b ∈ r1, h.s ≤ b.s)
  | [], res, body, hres, hnb => by
    simp only [nearestBlock] at hnb
    exact .inl ⟨hres body hnb, .inr hnb⟩
  | b :: rest, res, body, hres, hnb => by
    unfold nearestBlock at hnb
    split at hnb
    · next hc =>
      cases res with
      | none =>
        simp only [Option.some.injEq] at hnb
        subst hnb
        exact .inr ⟨rfl, hc, [], rest, rfl, by simp⟩
      | some r =>
        simp only [Option.some.injEq] at hnb
        subst hnb
        exact .inl ⟨hres _ rfl, .inr rfl⟩
    · split at hnb
      · next hge =>
        rcases nearestBlock_spec h rest (some b) body
          (by intro r hr; cases hr; exact hge) hnb with ⟨h1, h2⟩ | ⟨h1, _⟩
        · refine .inl ⟨h1, .inl ?_⟩
          rcases h2 with h2 | h2
          · exact List.mem_cons_of_mem _ h2
          · cases h2; exact List.mem_cons_self
        · cases h1
      · split at hnb
        · exact .inl ⟨hres body hnb, .inr hnb⟩
        · next hlt =>
          rcases nearestBlock_spec h rest res body hres hnb with ⟨h1, h2⟩ | ⟨h1, h2, r1, r2, h3, h4⟩
          · refine .inl ⟨h1, ?_⟩
            rcases h2 with h2 | h2
            · exact .inl (List.mem_cons_of_mem _ h2)
            · exact .inr h2
          · refine .inr ⟨h1, h2, b :: r1, r2, by simp [h3], ?_⟩
            intro x hx
            rcases List.mem_cons.1 hx with rfl | hx
            · simp only [Range.lt, decide_eq_true_eq] at hlt; omega
            · exact h4 x hx

/-! ## the blocks selected for a header -/

/-- the blocks `_find_scope_blocks_indices` selects -/
def selBlocks (h : Range) (blocks : List Range) : List Range :=
  match nearestBlock h blocks.reverse none with
  | none => []
  | some body =>
    if body.contains h then blocks.filter (fun b => body.contains b && decide (b.s ≥ h.e))
    else blocks.filter (fun b => body.overlaps b && !b.lt body)

theorem filterMap_getElem?_snd (blocks : List Range) : ∀ (l : List (Range × Nat)),
    (∀ p ∈ l, blocks[p.2]? = some p.1) →
    (l.map (·.2)).filterMap (fun i => blocks[i]?) = l.map (·.1)
  | [], _ => rfl
  | p :: l, h => by
    simp only [List.map_cons, List.filterMap_cons, h p List.mem_cons_self]
    rw [filterMap_getElem?_snd blocks l (fun q hq => h q (List.mem_cons_of_mem _ hq))]

theorem filterMap_zipIdx_filter_snd (blocks : List Range) (P : Range × Nat → Bool) :
    ((blocks.zipIdx.filter P).map (·.2)).filterMap (fun i => blocks[i]?) =
      (blocks.zipIdx.filter P).map (·.1) := by
  apply filterMap_getElem?_snd
  intro p hp
  have := List.mem_zipIdx (List.mem_filter.1 hp).1
  simp only [Nat.sub_zero] at this
  rw [List.getElem?_eq_getElem (by omega), this.2.2]

theorem scopeBlockIndices_sel (h : Range) (blocks : List Range) :
    (scopeBlockIndices h blocks).filterMap (fun i => blocks[i]?) = selBlocks h blocks ∧
    (scopeBlockIndices h blocks).length = (selBlocks h blocks).length := by
  cases hnb : nearestBlock h blocks.reverse none with
  | none => simp [scopeBlockIndices, selBlocks, hnb]
  | some body =>
    by_cases hc : body.contains h = true
    · have h1 := filterMap_zipIdx_filter_snd blocks
        (fun p => body.contains p.1 && decide (p.1.s ≥ h.e))
      have h2 := zipIdx_filter_fst (fun b => body.contains b && decide (b.s ≥ h.e)) blocks 0
      simp only [scopeBlockIndices, selBlocks, hnb, hc, if_true]
      constructor
      · exact h1.trans h2
      · rw [← h2]; simp
    · have h1 := filterMap_zipIdx_filter_snd blocks (fun p => body.overlaps p.1 && !p.1.lt body)
      have h2 := zipIdx_filter_fst (fun b => body.overlaps b && !b.lt body) blocks 0
      simp only [scopeBlockIndices, selBlocks, hnb, hc, Bool.false_eq_true, if_false]
      constructor
      · exact h1.trans h2
      · rw [← h2]; simp

theorem selBlocks_subset (h : Range) (blocks : List Range) : ∀ b ∈ selBlocks h blocks, b ∈ blocks := by
  intro b hb
  unfold selBlocks at hb
  split at hb
  · cases hb
  · split at hb <;> exact (List.mem_filter.1 hb).1

theorem Range.overlaps_self (b : Range) (h : b.s ≤ b.e) : b.overlaps b = true := by
  simp [Range.overlaps, h]

/-- some selected block starts at or after the header END: either the nearest block follows the
header and is selected itself, or (enclosing block) only blocks starting at or after the header
end are selected -/
theorem selBlocks_good {h : Range} {blocks : List Range}
    (hwf : ∀ b ∈ blocks, b.s ≤ b.e) (hne : selBlocks h blocks ≠ []) :
    ∃ b ∈ selBlocks h blocks, h.e ≤ b.s := by
  unfold selBlocks at hne ⊢
  split at hne
  · exact absurd rfl hne
  · next body hbody =>
    by_cases hc : body.contains h = true
    · simp only [hc, if_true] at hne ⊢
      obtain ⟨b, hb⟩ := List.exists_mem_of_ne_nil _ hne
      refine ⟨b, hb, ?_⟩
      have := (List.mem_filter.1 hb).2
      simp only [Bool.and_eq_true, decide_eq_true_eq] at this
      exact this.2
    · rcases nearestBlock_spec h blocks.reverse none body (by simp) hbody with
        ⟨h1, h2⟩ | ⟨_, hc', _⟩
      · have hmem : body ∈ blocks := by
          rcases h2 with h2 | h2
          · exact List.mem_reverse.1 h2
          · cases h2
        simp only [hc, Bool.false_eq_true, if_false]
        refine ⟨body, List.mem_filter.2 ⟨hmem, ?_⟩, h1⟩
        simp [Range.overlaps_self body (hwf body hmem), Range.lt]
      · exact absurd hc' hc

/-! ## the scope loop -/

/-- `sc`'s block range spans the blocks selected for its header among `bl` -/
def ScopeSel (sc : Scope) (bl : List Range) : Prop :=
  selBlocks sc.hdr.rng bl ≠ [] ∧
  minList ((selBlocks sc.hdr.rng bl).map (·.s)) = .ok sc.blk.s ∧
  maxList ((selBlocks sc.hdr.rng bl).map (·.e)) = .ok sc.blk.e

theorem buildScopesLoop_spec : ∀ (hs : List Header) (blocks : List Range),
    ∃ r, buildScopesLoop hs blocks = .ok r ∧ (r.map (·.hdr)).Sublist hs ∧
      ∀ sc ∈ r, ∃ bl, bl.Sublist blocks ∧ ScopeSel sc bl
  | [], _ => ⟨[], rfl, by simp, by simp⟩
  | h :: hs, blocks => by
    obtain ⟨hsel, hlen⟩ := scopeBlockIndices_sel h.rng blocks
    unfold buildScopesLoop
    by_cases hemp : (scopeBlockIndices h.rng blocks).isEmpty = true
    · obtain ⟨r, hr, hsub, hsc⟩ := buildScopesLoop_spec hs blocks
      exact ⟨r, by simp [hemp, hr], hsub.trans (List.sublist_cons_self _ _), hsc⟩
    · have hne : selBlocks h.rng blocks ≠ [] := by
        intro h0
        rw [h0] at hlen
        exact hemp (by simpa [List.isEmpty_iff_length_eq_zero] using hlen)
      obtain ⟨r, hr, hsub, hsc⟩ :=
        buildScopesLoop_spec hs (deleteIndices blocks (scopeBlockIndices h.rng blocks))
      obtain ⟨s, hs1, _, _⟩ := minList_ok (xs := (selBlocks h.rng blocks).map (·.s)) (by simpa using hne)
      obtain ⟨e, he1, _, _⟩ := maxList_ok (xs := (selBlocks h.rng blocks).map (·.e)) (by simpa using hne)
      refine ⟨⟨h, ⟨s, e⟩⟩ :: r, ?_, ?_, ?_⟩
      · simp only [hemp, Bool.false_eq_true, if_false, hsel, hs1, he1, hr]
      · simpa using hsub.cons_cons h
      · intro sc hmem
        rcases List.mem_cons.1 hmem with rfl | hmem
        · exact ⟨blocks, List.Sublist.refl _, hne, hs1, he1⟩
        · obtain ⟨bl, hbl, hss⟩ := hsc sc hmem
          exact ⟨bl, hbl.trans (deleteIndices_sublist _ _), hss⟩

theorem ScopeSel.e_mem {sc : Scope} {bl : List Range} (h : ScopeSel sc bl) :
    (∃ b ∈ bl, sc.blk.e = b.e) ∧ ∀ b ∈ selBlocks sc.hdr.rng bl, b.e ≤ sc.blk.e := by
  obtain ⟨_, _, h3⟩ := h
  obtain ⟨hm, hle⟩ := maxList_spec h3
  constructor
  · obtain ⟨b, hb, hbe⟩ := List.mem_map.1 hm
    exact ⟨b, selBlocks_subset _ _ b hb, hbe.symm⟩
  · intro b hb
    exact hle _ (List.mem_map.2 ⟨b, hb, rfl⟩)

/-- the scope's end is a block end: positive and inside the token list -/
theorem ScopeSel.ok {n : Nat} {sc : Scope} {bl : List Range} (h : ScopeSel sc bl)
    (hbl : ∀ b ∈ bl, BlockOK n b) : 0 < sc.blk.e ∧ sc.blk.e ≤ n := by
  obtain ⟨b, hb, he⟩ := h.e_mem.1
  rw [he]; exact hbl b hb

/-- some block that starts at or after the header end ends no later than the scope -/
theorem ScopeSel.good {sc : Scope} {bl : List Range} (h : ScopeSel sc bl)
    (hwf : ∀ b ∈ bl, b.s ≤ b.e) :
    ∃ b ∈ bl, sc.hdr.rng.e ≤ b.s ∧ b.e ≤ sc.blk.e := by
  obtain ⟨b, hb, hbs⟩ := selBlocks_good hwf h.1
  exact ⟨b, selBlocks_subset _ _ b hb, hbs, h.e_mem.2 b hb⟩

/-! ## `buildScopes0` -/

theorem buildScopes0_spec {toks : List Tok} {hs : List Header} {blocks : List Range}
    (hwf : ∀ h ∈ hs, h.rng.s < toks.length) :
    ∃ rh r, sortDesc toks (fun h : Header => h.rng.s) hs = .ok rh ∧
      buildScopes0 toks hs blocks = .ok r ∧
      (r.map (·.hdr)).Sublist rh.reverse ∧
      ∀ sc ∈ r, ∃ bl, bl.Sublist blocks ∧ ScopeSel sc bl := by
  obtain ⟨rh, hrh⟩ := sortDesc_ok (toks := toks) (start := fun h : Header => h.rng.s) hs hwf
  obtain ⟨r, hr, hsub, hsc⟩ := buildScopesLoop_spec rh blocks
  refine ⟨rh, r.reverse, hrh, by simp [buildScopes0, hrh, hr], ?_, ?_⟩
  · rw [List.map_reverse]; exact hsub.reverse
  · intro sc hmem; exact hsc sc (List.mem_reverse.1 hmem)

end CL
