import CodeLimit.Lemmas.Invisible
import CodeLimit.Lemmas.HeadersWF
import CodeLimit.Lemmas.ScanBoundsScopes
import CodeLimit.Lemmas.ScanBoundsBlocks
/-!
# The suppression marker only matters on lines that carry a name token

`_filter_nocl_scopes` drops a scope when a marker comment starts on the line of the header's NAME
token.  For the shipped languages a header's name is a `Name` token of the code (C15), so the set
of marker lines matters only where a name token of the code begins: a comment-only line may carry
the marker without any effect.
-/
namespace CL

/-- the lines on which a suppression comment begins -/
def noclLineNumbers (all : List Tok) : List Nat := (noclTokens all).map (·.line)

/-- the header of every scope `build_scopes` creates is one of the headers it was given -/
theorem buildScopes0_hdr_mem {toks : List Tok} {hs : List Header} {bs : List Range} {sc : List Scope}
    (hwf : ∀ h ∈ hs, h.rng.s < toks.length) (h : buildScopes0 toks hs bs = .ok sc) :
    ∀ s ∈ sc, s.hdr ∈ hs := by
  obtain ⟨rh, r, hrh, hr, hsub, _⟩ := buildScopes0_spec (blocks := bs) hwf
  rw [h] at hr; cases hr
  intro s hs'
  have : s.hdr ∈ rh.reverse := hsub.subset (List.mem_map.2 ⟨s, hs', rfl⟩)
  exact (sortDesc_perm_sorted hrh).1.mem_iff.1 (List.mem_reverse.1 this)

theorem filterNocl_congr_on (scs : List Scope) (nocl nocl' : List Tok)
    (h : ∀ s ∈ scs, (s.hdr.name.line ∈ nocl.map (·.line) ↔ s.hdr.name.line ∈ nocl'.map (·.line))) :
    filterNocl scs nocl = filterNocl scs nocl' := by
  unfold filterNocl
  apply List.filter_congr
  intro s hs
  congr 1
  rw [Bool.eq_iff_iff]
  simp only [List.contains_iff_mem]
  exact h s hs

/-- `build_scopes` depends on the token list only through its code tokens and the marker lines
AMONG THE LINES ON WHICH A NAME TOKEN OF THE CODE BEGINS (shipped languages) -/
theorem buildScopes_congr_names (L : Language) (hL : L ∈ Gen.all.map (·.2)) (all all' : List Tok)
    (h1 : filterTokens false all = filterTokens false all')
    (h2 : ∀ l, (∃ t ∈ filterTokens false all, t.isName = true ∧ t.line = l) →
      (l ∈ noclLineNumbers all ↔ l ∈ noclLineNumbers all')) :
    buildScopes L all = buildScopes L all' := by
  unfold buildScopes
  rw [← h1]
  simp only [bind, Except.bind]
  cases hh : extractHeaders L (filterTokens false all) with
  | error e => rfl
  | ok hs =>
    simp only []
    cases hb : extractBlocks L (filterTokens false all) hs with
    | error e => rfl
    | ok bs =>
      simp only []
      cases hsc : buildScopes0 (filterTokens false all) hs bs with
      | error e => rfl
      | ok sc =>
        simp only []
        have hwf := extractHeaders_wf L hL _ hs hh
        have hlt : ∀ h ∈ hs, h.rng.s < (filterTokens false all).length := fun h hm => by
          have := hwf h hm; unfold HeaderWF at this; omega
        have hmem := buildScopes0_hdr_mem hlt hsc
        have : filterNocl sc (noclTokens all) = filterNocl sc (noclTokens all') := by
          apply filterNocl_congr_on
          intro s hs'
          obtain ⟨_, _, hname, i, _, _, hi⟩ := hwf s.hdr (hmem s hs')
          exact h2 _ ⟨s.hdr.name, List.mem_of_getElem? hi, hname, rfl⟩
        rw [this]

theorem scanFile_congr_names (L : Language) (hL : L ∈ Gen.all.map (·.2)) (all all' : List Tok)
    (h1 : filterTokens false all = filterTokens false all')
    (h2 : ∀ l, (∃ t ∈ filterTokens false all, t.isName = true ∧ t.line = l) →
      (l ∈ noclLineNumbers all ↔ l ∈ noclLineNumbers all')) :
    scanFile L all = scanFile L all' := by
  unfold scanFile
  rw [buildScopes_congr_names L hL all all' h1 h2, h1]

/-! ## from a measurement back to its scope: positions -/

/-- what `measure` returns: the name of the header, the position of the first token of the header,
the end of the last token of the block, and `count_lines` of the scope -/
theorem measure_inv {code : List Tok} {s : Scope} {ch : List Range} {m : Measurement}
    (h : measure code s ch = .ok m) :
    ∃ first last, code[s.hdr.rng.s]? = some first ∧ code[s.blk.e - 1]? = some last ∧ 0 < s.blk.e ∧
      m.name = s.hdr.name.val ∧ (m.sl, m.sc) = (first.line, first.col) ∧ (m.el, m.ec) = last.endPos ∧
      countLines code s ch = .ok m.len := by
  have hlen := measure_len h
  unfold measure at h
  simp only [bind, Except.bind] at h
  rcases hc : countLines code s ch with e | len
  · simp [hc] at h
  · simp only [hc] at h
    rcases hf : getE code s.hdr.rng.s with e | first
    · simp [hf] at h
    · simp only [hf] at h
      by_cases hz : s.blk.e = 0
      · simp [hz, throw, throwThe, MonadExceptOf.throw] at h
      · simp only [hz, ↓reduceIte] at h
        rcases hl : getE code (s.blk.e - 1) with e | last
        · simp [hl] at h
        · simp only [hl, pure, Except.pure, Except.ok.injEq] at h
          refine ⟨first, last, getE_ok_inv hf, getE_ok_inv hl, by omega, ?_, ?_, ?_, by rw [← hc]; exact hlen⟩
          · rw [← h]
          · rw [← h]
          · rw [← h]
            simp only [Tok.endPos]

/-! ## removing tokens that are not code -/

theorem filterTokens_filter_noncode (all : List Tok) (keep : Tok → Bool)
    (h : ∀ t ∈ all, keep t = false → ¬ IsCode t) :
    filterTokens false (all.filter keep) = filterTokens false all := by
  unfold filterTokens
  rw [List.filter_filter]
  apply List.filter_congr
  intro t ht
  cases hk : keep t with
  | true => simp
  | false =>
    have := h t ht hk
    unfold IsCode at this
    by_cases hw : t.isWhitespace = true
    · simp [hw]
    · by_cases hc : t.isComment = true
      · simp [hw, hc]
      · exact absurd ⟨by simpa using hw, by simpa using hc⟩ this

/-- **removing whitespace and comments - marker comments included, as long as no name token of the
code begins on the line of a removed marker comment - does not change the analysis** (shipped
languages) -/
theorem scanFile_filter_noncode (L : Language) (hL : L ∈ Gen.all.map (·.2)) (all : List Tok) (keep : Tok → Bool)
    (h1 : ∀ t ∈ all, keep t = false → t.isWhitespace = true ∨ t.isComment = true)
    (h2 : ∀ t ∈ all, keep t = false → t.isComment = true → isNoclText t.val = true →
      ∀ u ∈ all, IsCode u → u.isName = true → u.line ≠ t.line) :
    scanFile L (all.filter keep) = scanFile L all := by
  have hcode : filterTokens false (all.filter keep) = filterTokens false all :=
    filterTokens_filter_noncode all keep (fun t ht hk hc => by
      rcases h1 t ht hk with hw | hw
      · rw [hc.1] at hw; cases hw
      · rw [hc.2] at hw; cases hw)
  refine (scanFile_congr_names L hL all (all.filter keep) hcode.symm ?_).symm
  rintro l ⟨u, hu, hname, rfl⟩
  obtain ⟨hua, huc⟩ := mem_filterTokens_false.1 hu
  simp only [noclLineNumbers, noclTokens, List.mem_map, List.mem_filter, Bool.and_eq_true]
  constructor
  · rintro ⟨t, ⟨hta, htc, htn⟩, hline⟩
    refine ⟨t, ⟨⟨hta, ?_⟩, htc, htn⟩, hline⟩
    cases hk : keep t with
    | true => rfl
    | false => exact absurd hline.symm (h2 t hta hk htc htn u hua huc hname)
  · rintro ⟨t, ⟨⟨hta, _⟩, htc, htn⟩, hline⟩
    exact ⟨t, ⟨hta, htc, htn⟩, hline⟩

end CL
