import CodeLimit.Spec.Json
import CodeLimit.Lemmas.CodebasePath
/-!
# `GoodStr` (Python strings that survive `json.loads(json.dumps(s))`) is closed under the string
operations the pipeline applies to file names and source text: slicing, and joining with an
ordinary character in between.
-/
namespace CL.Json

theorem noPair_tail {c : Nat} {s : Str} (h : NoSurrogatePair (c :: s)) : NoSurrogatePair s := by
  cases s with
  | nil => trivial
  | cons b t => exact h.2

theorem noPair_append_left : ∀ {a b : Str}, NoSurrogatePair (a ++ b) → NoSurrogatePair a
  | [], _, _ => trivial
  | [_], _, _ => trivial
  | x :: y :: t, b, h => by
    have h' : NoSurrogatePair (x :: y :: (t ++ b)) := h
    exact ⟨h'.1, noPair_append_left (a := y :: t) h'.2⟩

theorem noPair_append_right : ∀ {a b : Str}, NoSurrogatePair (a ++ b) → NoSurrogatePair b
  | [], _, h => h
  | _ :: t, _, h => noPair_append_right (a := t) (noPair_tail h)

theorem GoodStr.append_left {a b : Str} (h : GoodStr (a ++ b)) : GoodStr a :=
  ⟨fun c hc => h.1 c (List.mem_append_left _ hc), noPair_append_left h.2⟩

theorem GoodStr.append_right {a b : Str} (h : GoodStr (a ++ b)) : GoodStr b :=
  ⟨fun c hc => h.1 c (List.mem_append_right _ hc), noPair_append_right h.2⟩

theorem GoodStr.take {s : Str} (h : GoodStr s) (n : Nat) : GoodStr (s.take n) := by
  have := List.take_append_drop n s
  rw [← this] at h
  exact h.append_left

theorem GoodStr.drop {s : Str} (h : GoodStr s) (n : Nat) : GoodStr (s.drop n) := by
  have := List.take_append_drop n s
  rw [← this] at h
  exact h.append_right

theorem GoodStr.of_prefix {a s : Str} (h : GoodStr s) (hp : a <+: s) : GoodStr a := by
  obtain ⟨t, rfl⟩ := hp
  exact h.append_left

theorem GoodStr.of_suffix {a s : Str} (h : GoodStr s) (hp : a <:+ s) : GoodStr a := by
  obtain ⟨t, rfl⟩ := hp
  exact h.append_right

theorem goodStr_nil : GoodStr [] := ⟨by simp [PyStr], trivial⟩

/-- joining at a character that is not a low surrogate, after a string, keeps the property -/
theorem noPair_append_cons : ∀ {a : Str} {c : Nat} {b : Str}, NoSurrogatePair a → isLow c = false →
    NoSurrogatePair (c :: b) → NoSurrogatePair (a ++ c :: b)
  | [], _, _, _, _, hb => hb
  | [x], c, b, _, hc, hb => ⟨by simp [hc], hb⟩
  | x :: y :: t, c, b, ha, hc, hb => ⟨ha.1, noPair_append_cons (a := y :: t) ha.2 hc hb⟩

theorem noPair_cons {c : Nat} {b : Str} (hc : isHigh c = false) (hb : NoSurrogatePair b) :
    NoSurrogatePair (c :: b) := by
  cases b with
  | nil => trivial
  | cons x t => exact ⟨by simp [hc], hb⟩

/-- `a + "/" + b` (any separator that is not a surrogate) -/
theorem GoodStr.join {a b : Str} (c : Nat) (hc : c < 55296) (ha : GoodStr a) (hb : GoodStr b) :
    GoodStr (a ++ c :: b) := by
  have h1 : isLow c = false := by simp [isLow]; omega
  have h2 : isHigh c = false := by simp [isHigh]; omega
  refine ⟨?_, noPair_append_cons ha.2 h1 (noPair_cons h2 hb.2)⟩
  intro x hx
  rcases List.mem_append.1 hx with hx | hx
  · exact ha.1 x hx
  · rcases List.mem_cons.1 hx with rfl | hx
    · omega
    · exact hb.1 x hx

theorem GoodStr.snoc {a : Str} (c : Nat) (hc : c < 55296) (ha : GoodStr a) : GoodStr (a ++ [c]) :=
  GoodStr.join c hc ha goodStr_nil

end CL.Json

namespace CL.Codebase

/-- `get_basename(p)` is the part of `p` after the last `/` -/
theorem getBasename_suffix (p : Str) : getBasename p <:+ p := by
  rcases last_slash p with h | ⟨q, b, rfl, hb⟩
  · rw [(parent_base_noslash h).2]
    exact List.suffix_refl _
  · rw [(parent_base_slash q hb).2]
    exact ⟨q ++ [sl], by simp⟩

end CL.Codebase
