import CodeLimit.Lemmas.PipelineWalk
import CodeLimit.Lemmas.Cache
import CodeLimit.Props.C03
import CodeLimit.Props.C07
import CodeLimit.Props.C09
import CodeLimit.Props.C11
/-!
# The rows of `Pipeline.scan` and the entries of `Sel.scanPath`

`Pipeline.scan` runs the cache model; `Sel.scanPath` is the model of `scan_path` without a cache.
Here: a scan without usable cache IS `scanPath` (entry by entry, through the adapters); analysing
never raises (C03), so every row is a value; the keys are admissible for C07, so the codebase is
built.
-/
namespace CL.Pipeline

open CL CL.Sel

/-! ## analysing never raises -/

theorem lang_mem_all {i : Nat} {x : String × Language} (h : Gen.all[i]? = some x) :
    x.2 ∈ Gen.all.map (·.2) :=
  List.mem_map.2 ⟨x, List.mem_of_getElem? h, rfl⟩

/-- **C03 for the instantiated oracle**: `lex` + `scan_file` return a list of measurements for
every lexer number, every text and every lexer output -/
theorem analyzeText_total (E : Env) (lang : Nat) (text : Str) : ∃ ms, analyzeText E lang text = .ok ms := by
  unfold analyzeText
  cases h : Gen.all[lang]? with
  | none => exact ⟨[], rfl⟩
  | some x =>
    obtain ⟨r, hr⟩ := C03.analyze_total x.2 (lang_mem_all h) text (E.lexOf lang text)
    exact ⟨r.1, by simp [hr]⟩

/-- what the instantiated oracle returns, in terms of `_analyze_file` of `Model/Scopes.lean` -/
theorem analyzeText_eq {E : Env} {lang : Nat} {x : String × Language} (h : Gen.all[lang]? = some x)
    (text : Str) {ms : List Measurement} :
    analyzeText E lang text = .ok ms ↔
      CL.analyze x.2 text (E.lexOf lang text) = .ok (ms, (ms.map (·.len)).foldl (· + ·) 0) := by
  unfold analyzeText
  simp only [h]
  cases hr : CL.analyze x.2 text (E.lexOf lang text) with
  | error e => simp
  | ok r =>
    obtain ⟨ms', n⟩ := r
    have hn : n = (ms'.map (·.len)).foldl (· + ·) 0 := by
      unfold CL.analyze at hr
      split at hr
      · cases hr
      · cases hr; rfl
    subst hn
    constructor
    · intro h'; cases h'; rfl
    · intro h'; cases h'; rfl

theorem analysisOf_total (E : Env) (pats : List Gi.Pat) (x : List Str × Nat × Str) :
    ∃ ms, (oracles E pats).analyze x.2.1 ((oracles E pats).decode x.2.2) = .ok ms :=
  analyzeText_total E _ _

/-! ## one row -/

/-- the report entry of a `SourceFileEntry` of the selection model -/
def fileOfSel (e : Sel.FileEntry) : Str × Json.FileData := (e.path, fileData e.checksum (rowOfSel e))

/-- the facts about an item of the selection that the adapters need -/
def GoodItem (E : Env) (x : List Str × Nat × Str) : Prop :=
  x.1 ≠ [] ∧ (∀ y ∈ x.1, goodName y = true) ∧ langOf E (baseName x.1) = some x.2.1

theorem goodItem_of_mem {E : Env} {pats : List Gi.Pat} {ch : List Node} (hwf : wfDir ch = true)
    {x : List Str × Nat × Str} (hx : x ∈ selection (oracles E pats) ch) : GoodItem E x := by
  obtain ⟨p, lang, c⟩ := x
  have hs := mem_selection.1 hx
  exact ⟨hs.1.ne_nil, hs.1.goodNames hwf, hs.2.2.2⟩

/-- `Cache.Params.analyze` on an item of the selection is `_analyze_file` of the selection model,
seen through `rowOfSel` -/
theorem analyzeRow_item (E : Env) (pats : List Gi.Pat) {x : List Str × Nat × Str} (hx : GoodItem E x) :
    analyzeRow E (keyOf x) x.2.2 =
      match analysisOf (oracles E pats) x with
      | .error e => .error e
      | .ok e => .ok (rowOfSel e) := by
  obtain ⟨hne, hg, hl⟩ := hx
  have hb := getBasename_joinPath hne (fun y hy => goodName_noslash (hg y hy))
  simp only [analyzeRow, keyOf, hb, hl, analysisOf]
  rfl

/-- the rows of a scan without cache, from the selection -/
def freshRow (E : Env) (x : List Str × Nat × Str) : CacheRow :=
  (keyOf x, E.checksum x.2.2, analyzeRow E (keyOf x) x.2.2)

theorem entriesOf_freshRows (E : Env) (pats : List Gi.Pat) :
    ∀ sel : List (List Str × Nat × Str), (∀ x ∈ sel, GoodItem E x) →
      entriesOf (sel.map (freshRow E)) =
        match (runSel (oracles E pats) sel).2 with
        | .ok es => .ok (es.map fileOfSel)
        | .error e => .error e
  | [], _ => rfl
  | x :: r, h => by
    have ih := entriesOf_freshRows E pats r (fun y hy => h y (List.mem_cons_of_mem _ hy))
    have hrow := analyzeRow_item E pats (h x (by simp))
    simp only [List.map_cons, freshRow, hrow, runSel, analysisOf, analyzeFile]
    rcases ha : (oracles E pats).analyze x.2.1 ((oracles E pats).decode x.2.2) with e | ms
    · simp [entriesOf]
    · simp only [entriesOf]
      have ih' : entriesOf (r.map (freshRow E)) = _ := ih
      rw [ih']
      rcases hr : (runSel (oracles E pats) r).2 with e | es
      · simp
      · simp [fileOfSel, entryOf, keyOf, oracles]

/-! ## a scan without usable cache is `scan_path` -/

theorem fresh_rows (E : Env) (pats : List Gi.Pat) {ch : List Node} (hwf : wfDir ch = true)
    (prev : Option Str) :
    Cache.fresh (cacheParams E) (cacheState pats ch prev) =
      (selection (oracles E pats) ch).map (freshRow E) := by
  have hw := walk_eq_selection E pats hwf prev
  simp only [Cache.fresh, Cache.report, Cache.scanLog, Cache.readCachedReport, List.map_map]
  have : Cache.walk (cacheParams E) { cacheState pats ch prev with cache := .missing } =
      Cache.walk (cacheParams E) (cacheState pats ch prev) := rfl
  rw [this, hw, List.map_map]
  rfl

/-- the result of `scan_path` seen through the adapters -/
def selResult (E : Env) (pats : List Gi.Pat) (root : Node) : Except Err (List (Str × Json.FileData)) :=
  match (scanPath (oracles E pats) root).result with
  | .ok files => .ok (files.map (fun kv => fileOfSel kv.2))
  | .error e => .error e

/-- **a from-scratch scan IS `scan_path`**: the entries `scan_command` hands to the report when
there is no cache file are the entries of `Sel.scanPath` under the instantiated oracles -/
theorem entries_fresh_eq_scanPath (E : Env) (pats : List Gi.Pat) (rn : Str) {ch : List Node}
    (hwf : wfDir ch = true) :
    entriesOf (Cache.fresh (cacheParams E) (cacheState pats ch none)) = selResult E pats (.dir rn ch) := by
  rw [fresh_rows E pats hwf, entriesOf_freshRows E pats _ (fun x hx => goodItem_of_mem hwf hx)]
  simp only [selResult, scanPath_eq _ rn ch hwf]
  rcases (runSel (oracles E pats) (selection (oracles E pats) ch)).2 with e | es
  · rfl
  · simp [asDict, List.map_map, Function.comp_def]

/-! ## every row of a scan is a value -/

theorem rows_readCache_ok {prev : Option Str} {v : Option Str} {es : List CacheRow}
    (h : readCache prev = .doc v es) : ∀ r ∈ es, ∃ row, r.2.2 = .ok row := by
  unfold readCache at h
  split at h
  · cases h
  · split at h
    · cases h
    · split at h
      · cases h
      · split at h
        · cases h
        · cases h
          intro r hr
          simp only [rowsOfFiles, List.mem_map] at hr
          obtain ⟨kv, _, rfl⟩ := hr
          exact ⟨_, rfl⟩

theorem analyzeRow_total (E : Env) (key content : Str) : ∃ row, analyzeRow E key content = .ok row := by
  unfold analyzeRow
  cases langOf E (Codebase.getBasename key) with
  | none => exact ⟨_, rfl⟩
  | some lang =>
    obtain ⟨ms, hms⟩ := analyzeText_total E lang (E.decode content)
    have : analyzeFile (oracles E []) key (E.checksum content) lang content =
        .ok ⟨key, E.checksum content, lang, (ms.map (·.len)).foldl (· + ·) 0, ms⟩ := by
      simp only [analyzeFile, oracles, hms]
    simp only [this]
    exact ⟨_, rfl⟩

/-- whatever the cache file holds, every row of a scan carries an entry: reused rows come from a
document, analysed rows from an analysis that never raises -/
theorem scanRows_ok (E : Env) (pats : List Gi.Pat) (root : Node) (prev : Option Str) :
    ∀ r ∈ scanRows E pats root prev, ∃ row, r.2.2 = .ok row := by
  intro r hr
  simp only [scanRows, Cache.scan, Cache.report, Cache.scanLog, List.map_map, List.mem_map,
    Function.comp] at hr
  obtain ⟨f, _, rfl⟩ := hr
  by_cases h : (Cache.scanFile (cacheParams E)
      (Cache.readCachedReport (cacheParams E) (cacheState pats root.children prev).cache) f).2 = .reused
  · obtain ⟨es, e, hes, hl, hrow⟩ := (Cache.scanFile_reused_iff (cacheParams E)).1 h
    have hd := (Cache.readCachedReport_eq_some (cacheParams E)).1 hes
    have hm := Cache.lookupLast_mem hl
    obtain ⟨row, hrow'⟩ := rows_readCache_ok (prev := prev) hd _ hm
    exact ⟨row, by rw [hrow]; exact hrow'⟩
  · rw [Cache.scanFile_analysed_row (cacheParams E) h]
    exact analyzeRow_total E _ _

theorem entriesOf_ok : ∀ rows : List CacheRow, (∀ r ∈ rows, ∃ row, r.2.2 = .ok row) →
    ∃ files, entriesOf rows = .ok files ∧
      files.map (·.1) = rows.map (·.1) ∧
      ∀ kv ∈ files, ∃ r ∈ rows, ∃ row, r.2.2 = .ok row ∧ kv = (r.1, fileData r.2.1 row)
  | [], _ => ⟨[], rfl, rfl, by simp⟩
  | (k, h, e) :: rest, hall => by
    obtain ⟨row, hrow⟩ := hall (k, h, e) (by simp)
    simp only at hrow
    subst hrow
    obtain ⟨fs, h1, h2, h3⟩ := entriesOf_ok rest (fun r hr => hall r (List.mem_cons_of_mem _ hr))
    refine ⟨(k, fileData h row) :: fs, by simp [entriesOf, h1], by simp [h2], ?_⟩
    intro kv hkv
    rcases List.mem_cons.1 hkv with rfl | hkv
    · exact ⟨(k, h, .ok row), by simp, row, rfl, rfl⟩
    · obtain ⟨r, hr, row', h4, h5⟩ := h3 kv hkv
      exact ⟨r, List.mem_cons_of_mem _ hr, row', h4, h5⟩

/-! ## the keys are admissible: the codebase is built (C07) -/

theorem key_admissible {p : List Str} (hne : p ≠ []) (hg : ∀ y ∈ p, goodName y = true)
    (hv : Visible p) : Codebase.admissible (joinPath p) = true := by
  rw [Codebase.admissible_iff]
  intro hpre
  cases p with
  | nil => exact hne rfl
  | cons c r =>
    have hc := goodName_iff.1 (hg c (by simp))
    have hh : isHidden c = false := hv c (by simp)
    rw [joinPath_cons] at hpre
    cases c with
    | nil => exact hc.1 rfl
    | cons a t =>
      obtain ⟨u, hu⟩ := hpre
      simp only [Codebase.rootKey, Codebase.dot, Codebase.sl, List.cons_append, List.cons.injEq] at hu
      obtain ⟨rfl, _⟩ := hu
      simp [isHidden] at hh

theorem walk_keys (E : Env) (pats : List Gi.Pat) {ch : List Node} (hwf : wfDir ch = true) (prev : Option Str) :
    (scanRows E pats (.dir [] ch) prev).map (·.1) = (selection (oracles E pats) ch).map keyOf := by
  have h := (C09.analysed_reused_partition (cacheParams E) (cacheState pats ch prev)).2.1
  simp only [scanRows, Cache.scan, Node.children]
  rw [h, walk_eq_selection E pats hwf prev, List.map_map]
  rfl

theorem selection_key_admissible {E : Env} {pats : List Gi.Pat} {ch : List Node} (hwf : wfDir ch = true)
    {x : List Str × Nat × Str} (hx : x ∈ selection (oracles E pats) ch) :
    Codebase.admissible (keyOf x) = true := by
  obtain ⟨p, lang, c⟩ := x
  have hs := mem_selection.1 hx
  exact key_admissible hs.1.ne_nil (hs.1.goodNames hwf) hs.2.1

end CL.Pipeline
