import CodeLimit.Lemmas.Render
import Batteries.Data.List.Basic
/-!
# Lemmas for C18 (findings rows): decimal formatting is injective, the model rows satisfy the
# row specifications of `Spec/Render.lean`, the row specifications pin the row down
-/
namespace CL.Render

open CL.Gen.Logic

/-! ## `fmtD` is injective -/

theorem natDigits_injective : Function.Injective natDigits := by
  intro a b h
  unfold natDigits at h
  have h' := (List.map_inj_right (fun x y hxy => Char.toNat_inj.1 hxy)).1 h
  have := congrArg (fun l => Nat.ofDigitChars 10 l 0) h'
  simpa using this

/-- every code point of a decimal rendering is a digit `0`..`9` -/
theorem natDigits_digit (n : Nat) (c : Nat) (hc : c ∈ natDigits n) : 48 ≤ c ∧ c ≤ 57 := by
  unfold natDigits at hc
  obtain ⟨ch, hch, rfl⟩ := List.mem_map.1 hc
  have := Nat.isDigit_of_mem_toDigits (by decide : 0 < 10) (by decide : 10 ≤ 10) hch
  simp only [Char.isDigit, Bool.and_eq_true, decide_eq_true_eq] at this
  have h1 : (48 : UInt32).toNat ≤ ch.val.toNat := UInt32.le_iff_toNat_le.1 this.1
  have h2 : ch.val.toNat ≤ (57 : UInt32).toNat := UInt32.le_iff_toNat_le.1 this.2
  exact ⟨h1, h2⟩

theorem natDigits_ne_nil (n : Nat) : natDigits n ≠ [] := by
  unfold natDigits
  simp [Nat.toDigits_ne_nil]

theorem natDigits_ne_minus (n : Nat) (l : Str) : natDigits n ≠ 45 :: l := by
  intro h
  have := natDigits_digit n 45 (by rw [h]; simp)
  omega

/-- `str(i)` determines `i` -/
theorem fmtD_injective : Function.Injective fmtD := by
  intro a b h
  cases a with
  | ofNat n =>
    cases b with
    | ofNat m => simp only [fmtD] at h; rw [natDigits_injective h]
    | negSucc m => simp only [fmtD] at h; exact absurd h (natDigits_ne_minus _ _)
  | negSucc n =>
    cases b with
    | ofNat m => simp only [fmtD] at h; exact absurd h.symm (natDigits_ne_minus _ _)
    | negSucc m =>
      simp only [fmtD, List.cons.injEq, true_and] at h
      have := natDigits_injective h
      have : n = m := by omega
      rw [this]

theorem fmtD_inj {a b : Int} : fmtD a = fmtD b ↔ a = b :=
  ⟨fun h => fmtD_injective h, fun h => by rw [h]⟩

/-! ## the marks -/

theorem textMark_eq_emoji (v : Int) : textMark v = str (emoji v) := by
  unfold textMark emoji
  split
  · rfl
  · split <;> rfl

theorem markdownMark_eq (v : Int) :
    markdownMark v = if md_cross_without_repository v then str "❌" else str "⚠" := rfl

theorem markdownMark_eq_repo (v : Int) :
    markdownMark v = if md_cross_with_repository v then str "❌" else str "⚠" := rfl

/-! ## a list with given cells -/

theorem list6_of_cells {α : Type} (r : List α) (a b c d e f : α) (hl : r.length = 6)
    (h0 : r[0]? = some a) (h1 : r[1]? = some b) (h2 : r[2]? = some c) (h3 : r[3]? = some d)
    (h4 : r[4]? = some e) (h5 : r[5]? = some f) : r = [a, b, c, d, e, f] := by
  match r, hl with
  | [x0, x1, x2, x3, x4, x5], _ =>
    simp only [List.getElem?_cons_zero, List.getElem?_cons_succ, Option.some.injEq] at h0 h1 h2 h3 h4 h5
    subst h0 h1 h2 h3 h4 h5; rfl

theorem list7_of_cells {α : Type} (r : List α) (a b c d e f g : α) (hl : r.length = 7)
    (h0 : r[0]? = some a) (h1 : r[1]? = some b) (h2 : r[2]? = some c) (h3 : r[3]? = some d)
    (h4 : r[4]? = some e) (h5 : r[5]? = some f) (h6 : r[6]? = some g) : r = [a, b, c, d, e, f, g] := by
  match r, hl with
  | [x0, x1, x2, x3, x4, x5, x6], _ =>
    simp only [List.getElem?_cons_zero, List.getElem?_cons_succ, Option.some.injEq] at h0 h1 h2 h3 h4 h5 h6
    subst h0 h1 h2 h3 h4 h5 h6; rfl

/-! ## the row specifications as equations -/

/-- the specification of a text row has exactly one solution -/
theorem rowShowsText_iff (row : List Str) (u : RUnit) :
    RowShowsText row u ↔
      row = [u.file, fmtD u.m.line, fmtD u.m.col, fmtD u.m.value, textMark u.m.value, u.m.name] := by
  constructor
  · intro h; exact list6_of_cells row _ _ _ _ _ _ h.cells h.file h.line h.column h.length h.mark h.name
  · intro h; subst h; exact ⟨rfl, rfl, rfl, rfl, rfl, rfl, rfl⟩

theorem rowShowsMarkdown_iff (row : List Str) (u : RUnit) :
    RowShowsMarkdown row u ↔
      row = [u.file, fmtD u.m.line, fmtD u.m.col, fmtD u.m.value, markdownMark u.m.value, u.m.name] := by
  constructor
  · intro h; exact list6_of_cells row _ _ _ _ _ _ h.cells h.file h.line h.column h.length h.mark h.name
  · intro h; subst h; exact ⟨rfl, rfl, rfl, rfl, rfl, rfl, rfl⟩

theorem rowShowsMarkdownRepo_iff (row : List Str) (u : RUnit) :
    RowShowsMarkdownRepo row u ↔
      row = [markdownMark u.m.value, u.m.name, u.file, fmtD u.m.line, fmtD u.m.endLine, fmtD u.m.value, u.file] := by
  constructor
  · intro h
    exact list7_of_cells row _ _ _ _ _ _ _ h.cells h.mark h.name h.linkFile h.linkLine h.linkEndLine h.length h.file
  · intro h; subst h; exact ⟨rfl, rfl, rfl, rfl, rfl, rfl, rfl, rfl⟩

/-! ## the model rows meet the specifications -/

theorem rowText_shows (u : RUnit) : RowShowsText (rowText u) u :=
  (rowShowsText_iff _ u).2 (by simp only [rowText, textMark_eq_emoji])

theorem rowMarkdown_shows (u : RUnit) : RowShowsMarkdown (rowMarkdown u) u :=
  (rowShowsMarkdown_iff _ u).2 (by simp only [rowMarkdown, markdownMark_eq])

theorem rowMarkdownRepo_shows (u : RUnit) : RowShowsMarkdownRepo (rowMarkdownRepo u) u :=
  (rowShowsMarkdownRepo_iff _ u).2 (by simp only [rowMarkdownRepo, markdownMark_eq_repo])

theorem forall₂_map_left {α β : Type} (R : β → α → Prop) (f : α → β) (h : ∀ a, R (f a) a) (l : List α) :
    List.Forall₂ R (l.map f) l := by
  induction l with
  | nil => exact List.Forall₂.nil
  | cons a l ih => exact List.Forall₂.cons (h a) ih

/-- `Forall₂` against a specification that has one solution per unit is `map` -/
theorem forall₂_iff_map {α β : Type} (R : β → α → Prop) (f : α → β) (h : ∀ b a, R b a ↔ b = f a)
    (rows : List β) (l : List α) : List.Forall₂ R rows l ↔ rows = l.map f := by
  constructor
  · intro hr
    induction hr with
    | nil => rfl
    | cons hab _ ih => rw [List.map_cons, ← ih, (h _ _).1 hab]
  · intro e; subst e; exact forall₂_map_left R f (fun a => (h _ a).2 rfl) l

end CL.Render
