import CodeLimit.Lemmas.LayoutScopes
import CodeLimit.Lemmas.LayoutCount
/-!
# Stage A4: from scopes with children to measurements, and the whole of `scan_file`
-/
namespace CL

/-- once the length is known, the measurement of a function of the layout is the expected one -/
theorem measure_layout {code : List Tok} {fns : List Fn} {blocks : List Range}
    (L : LayoutCore code fns blocks) {f : Fn} (hf : f ∈ fns) {ch : List Range} {len : Nat}
    (hc : countLines code f.toScope ch = .ok len) :
    ∃ m, measure code f.toScope ch = .ok m ∧ expectedWith code f len = some m := by
  have hb := L.fn_bounds hf
  have hi1 : f.hdr.rng.s < code.length := by omega
  have hi2 : f.body.e - 1 < code.length := by omega
  have hne : ¬ f.body.e = 0 := by omega
  have h1 : getE code f.hdr.rng.s = .ok code[f.hdr.rng.s] := by
    unfold getE; rw [List.getElem?_eq_getElem hi1]
  have h2 : getE code (f.body.e - 1) = .ok code[f.body.e - 1] := by
    unfold getE; rw [List.getElem?_eq_getElem hi2]
  refine ⟨⟨f.hdr.name.val, code[f.hdr.rng.s].line, code[f.hdr.rng.s].col,
    (Tok.endPos_L code[f.body.e - 1]).1, (Tok.endPos_L code[f.body.e - 1]).2, len⟩, ?_, ?_⟩
  · unfold measure
    simp only [Fn.toScope, bind, Except.bind, pure, Except.pure] at hc ⊢
    rw [hc]
    simp only [h1, h2, hne, if_false]
    unfold Tok.endPos_L
    by_cases hz : (lastLineInfo code[f.body.e - 1].val).1 = 0 <;> simp [hz]
  · unfold expectedWith
    rw [if_neg hne, List.getElem?_eq_getElem hi1, List.getElem?_eq_getElem hi2]

theorem measureAll_layout {code : List Tok} {fns : List Fn} {blocks : List Range}
    (L : LayoutCore code fns blocks) :
    ∀ (l : List Fn), (∀ f ∈ l, f ∈ fns) →
      ∃ ms, measureAll code (l.map (fun f => (f.toScope, childRanges fns f))) = .ok ms ∧
        ms.map some = l.map (expected code fns)
  | [], _ => ⟨[], rfl, rfl⟩
  | f :: l, h => by
    obtain ⟨ms, h1, h2⟩ := measureAll_layout L l (fun g hg => h g (List.mem_cons_of_mem _ hg))
    obtain ⟨m, h3, h4⟩ := measure_layout L (h f List.mem_cons_self)
      (countLines_layout L (h f List.mem_cons_self))
    refine ⟨m :: ms, ?_, ?_⟩
    · simp only [List.map_cons, measureAll, h1, h3]
    · simp only [List.map_cons, h2, expected, h4]

theorem measureAll_layout_flat {code : List Tok} {fns : List Fn} {blocks : List Range}
    (L : LayoutCore code fns blocks) :
    ∀ (l : List Fn), (∀ f ∈ l, f ∈ fns) →
      ∃ ms, measureAll code (l.map (fun f => (f.toScope, []))) = .ok ms ∧
        ms.map some = l.map (expectedFlat code)
  | [], _ => ⟨[], rfl, rfl⟩
  | f :: l, h => by
    obtain ⟨ms, h1, h2⟩ := measureAll_layout_flat L l (fun g hg => h g (List.mem_cons_of_mem _ hg))
    obtain ⟨m, h3, h4⟩ := measure_layout L (h f List.mem_cons_self)
      (countLines_layout_flat L (h f List.mem_cons_self))
    refine ⟨m :: ms, ?_, ?_⟩
    · simp only [List.map_cons, measureAll, h1, h3]
    · simp only [List.map_cons, h2, expectedFlat, h4]

/-- the scopes found in a canonical layout, before suppression -/
theorem rawScopes_layout {L : Language} {code : List Tok} {fns : List Fn} {blocks : List Range}
    (hpy : L.python = false) {hs : List Header} (hh : extractHeaders L code = .ok hs)
    (hperm : hs.Perm (fns.map (·.hdr)))
    (hb : getBlocks code = .ok blocks) (hL : Layout code fns blocks) :
    rawScopes L code = .ok (fns.map Fn.toScope) := by
  unfold rawScopes
  rw [hh]
  simp only [bind, Except.bind]
  unfold extractBlocks
  rw [hpy]
  simp only [Bool.false_eq_true, if_false, hb]
  exact buildScopes0_layout hL hperm

theorem filterNocl_layout {all : List Tok} {fns : List Fn}
    (hm : ∀ f ∈ fns, ¬ Marked all f.hdr.name.line) :
    filterNocl (fns.map Fn.toScope) (noclTokens all) = fns.map Fn.toScope := by
  rw [filterNocl_eq_filter, List.filter_eq_self]
  intro s hs
  obtain ⟨f, hf, rfl⟩ := List.mem_map.mp hs
  exact decide_eq_true (hm f hf)

end CL
