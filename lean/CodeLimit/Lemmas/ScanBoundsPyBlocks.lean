import CodeLimit.Lemmas.ScanBoundsBlocks
import CodeLimit.Spec.Scan
/-!
# Index bounds, part 2: Python blocks (`Python.extract_blocks`)

* `tokenLines`: every line is a non-empty list of valid token indices, and the concatenation
  of the lines is weakly increasing (an index is appended twice after a line continuation);
* `pyBlockOf` / `pyBlocks` never raise when the headers are well-formed;
* every Python block satisfies `0 < e ≤ toks.length`.
-/
namespace CL

/-- two lists related element by element (core has no `Forall₂`) -/
inductive List.Forall₂' {α β : Type} (R : α → β → Prop) : List α → List β → Prop
  | nil : List.Forall₂' R [] []
  | cons {a b l1 l2} : R a b → List.Forall₂' R l1 l2 → List.Forall₂' R (a :: l1) (b :: l2)

theorem List.Forall₂'.mem_right {α β : Type} {R : α → β → Prop} {l1 : List α} {l2 : List β}
    (h : List.Forall₂' R l1 l2) {b : β} (hb : b ∈ l2) : ∃ a, a ∈ l1 ∧ R a b := by
  induction h with
  | nil => cases hb
  | cons hab _ ih =>
    rcases List.mem_cons.1 hb with rfl | hb
    · exact ⟨_, List.mem_cons_self, hab⟩
    · obtain ⟨a, ha, hr⟩ := ih hb
      exact ⟨a, List.mem_cons_of_mem _ ha, hr⟩

theorem List.Forall₂'.append {α β : Type} {R : α → β → Prop} {l1 l1' : List α} {l2 l2' : List β}
    (h : List.Forall₂' R l1 l2) (h' : List.Forall₂' R l1' l2') :
    List.Forall₂' R (l1 ++ l1') (l2 ++ l2') := by
  induction h with
  | nil => exact h'
  | cons hab _ ih => exact .cons hab ih

theorem List.Forall₂'.reverse {α β : Type} {R : α → β → Prop} {l1 : List α} {l2 : List β}
    (h : List.Forall₂' R l1 l2) : List.Forall₂' R l1.reverse l2.reverse := by
  induction h with
  | nil => exact .nil
  | cons hab _ ih =>
    simp only [List.reverse_cons]
    exact ih.append (.cons hab .nil)

/-! ## `_get_token_lines` -/

/-- the lines a state of the `_get_token_lines` loop stands for -/
def stLines (st : LineSt) : List (List Nat) :=
  (if st.cur.isEmpty then st.done else st.cur.reverse :: st.done).reverse

theorem stLines_step (st : LineSt) (i : Nat) (t : Tok) (hne : ∀ l ∈ stLines st, l ≠ []) :
    (∀ l ∈ stLines (tokenLinesStep st i t), l ≠ []) ∧
    ∃ k, (stLines (tokenLinesStep st i t)).flatten =
      (stLines st).flatten ++ List.replicate (k + 1) i := by
  obtain ⟨done, cur, cont, ln⟩ := st
  cases cur with
  | nil =>
    simp only [stLines, List.isEmpty_nil, if_true] at hne
    refine ⟨?_, 0, ?_⟩
    · intro l hl
      simp only [tokenLinesStep, stLines, List.isEmpty_nil, if_true, List.isEmpty_cons,
        Bool.false_eq_true, if_false, List.reverse_cons, List.reverse_nil, List.nil_append,
        List.mem_append, List.mem_singleton] at hl
      rcases hl with hl | rfl
      · exact hne l hl
      · simp
    · simp [tokenLinesStep, stLines]
  | cons c cs =>
    have hdone : ∀ l ∈ done.reverse, l ≠ [] := by
      intro l hl
      apply hne l
      simp only [stLines, List.isEmpty_cons, Bool.false_eq_true, if_false, List.reverse_cons,
        List.mem_append]
      exact Or.inl hl
    cases cont with
    | true =>
      refine ⟨?_, 1, ?_⟩
      · intro l hl
        simp only [tokenLinesStep, stLines, List.isEmpty_cons, Bool.false_eq_true, if_false,
          if_true, beq_self_eq_true, List.reverse_cons, List.mem_append, List.mem_singleton] at hl
        rcases hl with hl | rfl
        · exact hdone l hl
        · simp
      · simp [tokenLinesStep, stLines, List.replicate]
    | false =>
      by_cases hline : (t.line == ln) = true
      · refine ⟨?_, 0, ?_⟩
        · intro l hl
          simp only [tokenLinesStep, stLines, List.isEmpty_cons, Bool.false_eq_true, if_false,
            hline, if_true, List.reverse_cons, List.mem_append, List.mem_singleton] at hl
          rcases hl with hl | rfl
          · exact hdone l hl
          · simp
        · simp [tokenLinesStep, stLines, hline]
      · refine ⟨?_, 0, ?_⟩
        · intro l hl
          simp only [tokenLinesStep, stLines, List.isEmpty_cons, Bool.false_eq_true, if_false,
            hline, List.reverse_cons, List.mem_append, List.mem_singleton, List.reverse_nil,
            List.nil_append] at hl
          rcases hl with (hl | rfl) | rfl
          · exact hdone l hl
          · simp
          · simp
        · simp [tokenLinesStep, stLines, hline]

/-- invariants of the lines built from the token indices `< i` -/
structure LinesInv (i : Nat) (ls : List (List Nat)) : Prop where
  ne : ∀ l ∈ ls, l ≠ []
  lt : ∀ x ∈ ls.flatten, x < i
  mono : ls.flatten.Pairwise (· ≤ ·)

theorem LinesInv.step {i : Nat} {st : LineSt} (t : Tok) (h : LinesInv i (stLines st)) :
    LinesInv (i + 1) (stLines (tokenLinesStep st i t)) := by
  obtain ⟨hne, k, hk⟩ := stLines_step st i t h.ne
  refine ⟨hne, ?_, ?_⟩
  · intro x hx
    rw [hk] at hx
    rcases List.mem_append.1 hx with hx | hx
    · have := h.lt x hx; omega
    · have := (List.mem_replicate.1 hx).2; omega
  · rw [hk, List.pairwise_append]
    refine ⟨h.mono, ?_, ?_⟩
    · rw [List.pairwise_replicate]; right; exact Nat.le_refl _
    · intro a ha b hb
      have := h.lt a ha
      have := (List.mem_replicate.1 hb).2
      omega

theorem tokenLines_foldl : ∀ (ts : List Tok) (k : Nat) (st : LineSt), LinesInv k (stLines st) →
    LinesInv (k + ts.length)
      (stLines ((ts.zipIdx k).foldl (fun st (p : Tok × Nat) => tokenLinesStep st p.2 p.1) st))
  | [], k, st, h => by simpa using h
  | t :: ts, k, st, h => by
    have := tokenLines_foldl ts (k + 1) _ (h.step t)
    simp only [List.zipIdx_cons, List.foldl_cons, List.length_cons]
    rw [show k + (ts.length + 1) = k + 1 + ts.length by omega]
    exact this

theorem tokenLines_inv (toks : List Tok) : LinesInv toks.length (tokenLines toks) := by
  have h0 : LinesInv 0 (stLines ⟨[], [], false, 0⟩) := by
    refine ⟨?_, ?_, ?_⟩ <;> simp [stLines]
  have := tokenLines_foldl toks 0 _ h0
  simpa [tokenLines, stLines] using this

theorem tokenLines_ne (toks : List Tok) : ∀ l ∈ tokenLines toks, l ≠ [] := (tokenLines_inv toks).ne

theorem tokenLines_lt (toks : List Tok) : ∀ l ∈ tokenLines toks, ∀ x ∈ l, x < toks.length :=
  fun l hl x hx => (tokenLines_inv toks).lt x (List.mem_flatten.2 ⟨l, hl, hx⟩)

/-! ## `lineHead`, `_get_line_indentation`, the block-line loop -/

/-- a list of lines whose members are non-empty lists of valid indices -/
def LinesOK (n : Nat) (lines : List (List Nat)) : Prop :=
  ∀ l ∈ lines, l ≠ [] ∧ ∀ x ∈ l, x < n

theorem tokenLines_ok (toks : List Tok) : LinesOK toks.length (tokenLines toks) :=
  fun l hl => ⟨tokenLines_ne toks l hl, tokenLines_lt toks l hl⟩

theorem lineHead_ok {toks : List Tok} {l : List Nat} (hne : l ≠ []) (hlt : ∀ x ∈ l, x < toks.length) :
    ∃ a t, l.head? = some a ∧ toks[a]? = some t ∧ lineHead toks l = .ok t := by
  cases l with
  | nil => exact absurd rfl hne
  | cons a as =>
    have ha := hlt a List.mem_cons_self
    exact ⟨a, toks[a], rfl, List.getElem?_eq_getElem ha, by simp [lineHead, getE_ok ha]⟩

theorem lineIndentation_ok {toks : List Tok} {lines : List (List Nat)} (hl : LinesOK toks.length lines)
    {i : Nat} (hi : i < toks.length) : ∃ c, lineIndentation toks lines i = .ok c := by
  unfold lineIndentation
  split
  · next l hfind =>
    have hmem := List.mem_of_find?_eq_some hfind
    obtain ⟨a, t, _, _, ht⟩ := lineHead_ok (hl l hmem).1 (hl l hmem).2
    exact ⟨t.col, by simp [ht, bind, Except.bind, pure, Except.pure]⟩
  · exact ⟨toks[i].col, by simp [getE_ok hi, bind, Except.bind, pure, Except.pure]⟩

theorem blockLineIndices_ok {toks : List Tok} (hl hi : Nat) :
    ∀ (R : List (List Nat × Nat)) (acc : List Nat),
    (∀ p ∈ R, p.1 ≠ [] ∧ ∀ x ∈ p.1, x < toks.length) →
    ∃ res, blockLineIndices toks hl hi R acc = .ok res ∧ res.Sublist (acc ++ R.map (·.2))
  | [], acc, _ => ⟨acc, rfl, by simp⟩
  | (l, li) :: rest, acc, h => by
    have hp := h (l, li) List.mem_cons_self
    obtain ⟨a, t, _, _, ht⟩ := lineHead_ok hp.1 hp.2
    have hrest : ∀ p ∈ rest, p.1 ≠ [] ∧ ∀ x ∈ p.1, x < toks.length :=
      fun p hp => h p (List.mem_cons_of_mem _ hp)
    unfold blockLineIndices
    simp only [ht]
    split
    · exact ⟨acc, rfl, by simp⟩
    · split
      · obtain ⟨res, hres, hsub⟩ := blockLineIndices_ok hl hi rest (acc ++ [li]) hrest
        exact ⟨res, hres, by simpa using hsub⟩
      · obtain ⟨res, hres, hsub⟩ := blockLineIndices_ok hl hi rest [] hrest
        refine ⟨res, hres, ?_⟩
        simp only [List.nil_append] at hsub
        simp only [List.map_cons]
        exact hsub.trans ((List.sublist_cons_self _ _).trans (List.sublist_append_right _ _))

/-! ## `tokens.index` -/

theorem tokIndex_ok {toks : List Tok} {a : Nat} {t : Tok} (h : toks[a]? = some t) :
    ∃ i, tokIndex toks t = .ok i ∧ i ≤ a := by
  unfold tokIndex
  have ha : a < toks.length := (List.getElem?_eq_some_iff.1 h).1
  have hta : toks[a] = t := (List.getElem?_eq_some_iff.1 h).2
  cases hf : toks.findIdx? (fun u => u.line == t.line && u.col == t.col && u.ty == t.ty && u.val == t.val) with
  | none =>
    rw [List.findIdx?_eq_none_iff] at hf
    have := hf toks[a] (List.getElem_mem ha)
    simp [hta] at this
  | some i =>
    refine ⟨i, rfl, ?_⟩
    obtain ⟨_, _, hmin⟩ := List.findIdx?_eq_some_iff_getElem.1 hf
    by_cases hle : i ≤ a
    · exact hle
    · exact absurd (by simp [hta]) (hmin a (by omega))

/-! ## `pyBlockOf`, `pyBlocks` -/

/-- how a block returned by `pyBlockOf` was computed -/
def PyBlockFrom (toks : List Tok) (lines : List (List Nat)) (h : Header) (blk : Range) : Prop :=
  ∃ (after : Tok) (c : Nat) (idxs : List Nat) (a b : Nat) (ta tb : Tok) (s e : Nat),
    toks[h.rng.e]? = some after ∧
    lineIndentation toks lines h.rng.s = .ok c ∧
    blockLineIndices toks after.line c lines.zipIdx.reverse [] = .ok idxs ∧
    (∀ li ∈ idxs, li < lines.length) ∧
    (idxs.reverse.flatMap (fun li => (lines[li]?).getD [])).head? = some a ∧
    (idxs.reverse.flatMap (fun li => (lines[li]?).getD [])).getLast? = some b ∧
    toks[a]? = some ta ∧ toks[b]? = some tb ∧
    tokIndex toks ta = .ok s ∧ s ≤ a ∧ tokIndex toks tb = .ok e ∧ e ≤ b ∧ blk = ⟨s, e + 1⟩

theorem PyBlockFrom.ok {toks : List Tok} {lines : List (List Nat)} {h : Header} {blk : Range}
    (hb : PyBlockFrom toks lines h blk) : BlockOK toks.length blk := by
  obtain ⟨_, _, _, _, b, _, tb, s, e, _, _, _, _, _, _, _, hb', _, _, _, he, rfl⟩ := hb
  have := (List.getElem?_eq_some_iff.1 hb').1
  exact ⟨by simp, by simp only; omega⟩

/-- what `pyBlockOf` returns for a well-formed header -/
theorem pyBlockOf_ok {toks : List Tok} {lines : List (List Nat)} (hl : LinesOK toks.length lines)
    {h : Header} (hs : h.rng.s < h.rng.e) :
    ∃ o, pyBlockOf toks lines h = .ok o ∧ ∀ b, o = some b → PyBlockFrom toks lines h b := by
  unfold pyBlockOf
  by_cases hend : h.rng.e ≥ toks.length
  · exact ⟨none, by simp [hend, pure, Except.pure], by simp⟩
  · have he : h.rng.e < toks.length := by omega
    have hs' : h.rng.s < toks.length := by omega
    obtain ⟨c, hc⟩ := lineIndentation_ok hl hs'
    have hR : ∀ p ∈ lines.zipIdx.reverse, p.1 ≠ [] ∧ ∀ x ∈ p.1, x < toks.length := by
      intro p hp
      have := List.mem_zipIdx (List.mem_reverse.1 hp)
      have hmem : p.1 ∈ lines := by rw [this.2.2]; exact List.getElem_mem _
      exact hl _ hmem
    obtain ⟨idxs, hidx, hsub⟩ := blockLineIndices_ok (toks := toks) toks[h.rng.e].line c _ [] hR
    simp only [hend, if_false, getE_ok he, getE_ok hs', hc, hidx, bind, Except.bind, pure,
      Except.pure]
    by_cases hemp : idxs.isEmpty = true
    · exact ⟨none, by simp [hemp], by simp⟩
    · simp only [hemp, Bool.false_eq_true, if_false]
      -- every selected line index is valid
      have hli : ∀ li ∈ idxs, li < lines.length := by
        intro li hmem
        have := hsub.subset hmem
        simp only [List.nil_append, List.mem_map, List.mem_reverse] at this
        obtain ⟨p, hp, rfl⟩ := this
        have := List.mem_zipIdx hp
        omega
      -- the selected token indices
      have hvalid : ∀ x ∈ idxs.reverse.flatMap (fun li => (lines[li]?).getD []), x < toks.length := by
        intro x hx
        obtain ⟨li, hli', hx⟩ := List.mem_flatMap.1 hx
        have hlt := hli li (List.mem_reverse.1 hli')
        rw [List.getElem?_eq_getElem hlt] at hx
        exact (hl _ (List.getElem_mem hlt)).2 x hx
      have hne : idxs.reverse.flatMap (fun li => (lines[li]?).getD []) ≠ [] := by
        cases hidxs : idxs.reverse with
        | nil => simp [List.reverse_eq_nil_iff] at hidxs; simp [hidxs] at hemp
        | cons li rest =>
          have hlt := hli li (List.mem_reverse.1 (by rw [hidxs]; exact List.mem_cons_self))
          have := (hl _ (List.getElem_mem hlt)).1
          simp only [List.flatMap_cons, List.getElem?_eq_getElem hlt, Option.getD_some, ne_eq,
            List.append_eq_nil_iff, not_and]
          intro h1; exact absurd h1 this
      generalize hsc : idxs.reverse.flatMap (fun li => (lines[li]?).getD []) = sc at hvalid hne
      obtain ⟨a, ha⟩ : ∃ a, sc.head? = some a := by
        cases sc with
        | nil => exact absurd rfl hne
        | cons a _ => exact ⟨a, rfl⟩
      obtain ⟨b, hb⟩ : ∃ b, sc.getLast? = some b := by
        cases h' : sc.getLast? with
        | none => exact absurd (List.getLast?_eq_none_iff.1 h') hne
        | some b => exact ⟨b, rfl⟩
      have hav := hvalid a (List.mem_of_mem_head? ha)
      have hbv := hvalid b (List.mem_of_mem_getLast? hb)
      obtain ⟨s, hs1, hs2⟩ := tokIndex_ok (List.getElem?_eq_getElem hav)
      obtain ⟨e, he1, he2⟩ := tokIndex_ok (List.getElem?_eq_getElem hbv)
      refine ⟨some ⟨s, e + 1⟩, ?_, ?_⟩
      · simp [ha, hb, getE_ok hav, getE_ok hbv, hs1, he1]
      · intro blk hblk
        cases hblk
        exact ⟨toks[h.rng.e], c, idxs, a, b, toks[a], toks[b], s, e, List.getElem?_eq_getElem he,
          hc, hidx, hli, hsc ▸ ha, hsc ▸ hb, List.getElem?_eq_getElem hav, List.getElem?_eq_getElem hbv,
          hs1, hs2, he1, he2, rfl⟩

theorem pyBlocksRev_ok {toks : List Tok} {lines : List (List Nat)} (hl : LinesOK toks.length lines) :
    ∀ (hs : List Header), (∀ h ∈ hs, h.rng.s < h.rng.e) →
    ∃ rs, pyBlocksRev toks lines hs = .ok rs ∧
      ∃ hs', hs'.Sublist hs ∧ List.Forall₂' (PyBlockFrom toks lines) hs' rs
  | [], _ => ⟨[], rfl, [], .slnil, .nil⟩
  | h :: hs, hwf => by
    obtain ⟨o, ho, hob⟩ := pyBlockOf_ok hl (hwf h List.mem_cons_self)
    obtain ⟨rs, hrs, hs', hsub, hf⟩ := pyBlocksRev_ok hl hs (fun x hx => hwf x (List.mem_cons_of_mem _ hx))
    cases o with
    | none => exact ⟨rs, by simp [pyBlocksRev, ho, hrs], hs', hsub.trans (List.sublist_cons_self _ _), hf⟩
    | some r =>
      exact ⟨r :: rs, by simp [pyBlocksRev, ho, hrs], h :: hs', hsub.cons_cons h, .cons (hob _ rfl) hf⟩

theorem pyBlocks_from (toks : List Tok) (hs : List Header) (hwf : ∀ h ∈ hs, h.rng.s < h.rng.e) :
    ∃ rs, pyBlocks toks hs = .ok rs ∧
      ∃ hs', hs'.Sublist hs ∧ List.Forall₂' (PyBlockFrom toks (tokenLines toks)) hs' rs := by
  obtain ⟨rs, hrs, hs', hsub, hf⟩ := pyBlocksRev_ok (tokenLines_ok toks) hs.reverse
    (fun h hh => hwf h (List.mem_reverse.1 hh))
  refine ⟨rs.reverse, by simp [pyBlocks, hrs], hs'.reverse, ?_, hf.reverse⟩
  simpa using hsub.reverse

theorem pyBlocks_ok (toks : List Tok) (hs : List Header) (hwf : ∀ h ∈ hs, h.rng.s < h.rng.e) :
    ∃ rs, pyBlocks toks hs = .ok rs ∧ ∀ b ∈ rs, BlockOK toks.length b := by
  obtain ⟨rs, hrs, hs', _, hf⟩ := pyBlocks_from toks hs hwf
  exact ⟨rs, hrs, fun b hb => by obtain ⟨h, _, hh⟩ := hf.mem_right hb; exact hh.ok⟩

end CL
