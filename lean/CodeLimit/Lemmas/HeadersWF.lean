import CodeLimit.Props.C15
/-!
Header facts used by the scan-bounds lemmas (C03/C05), now taken from the C15 proofs.
-/
namespace CL

/-- a header returned by `extractHeaders` on `toks` -/
def HeaderWF (toks : List Tok) (h : Header) : Prop :=
  h.rng.s < h.rng.e ∧ h.rng.e ≤ toks.length ∧ h.name.isName = true ∧
    ∃ i, h.rng.s ≤ i ∧ i < h.rng.e ∧ toks[i]? = some h.name

theorem extractHeaders_total (L : Language) (hL : L ∈ Gen.all.map (·.2)) (toks : List Tok) :
    ∃ hs, extractHeaders L toks = .ok hs := C15.extractHeaders_total L hL toks

theorem extractHeaders_wf (L : Language) (hL : L ∈ Gen.all.map (·.2)) (toks : List Tok)
    (hs : List Header) (h : extractHeaders L toks = .ok hs) : ∀ hd ∈ hs, HeaderWF toks hd :=
  C15.extractHeaders_wf L hL toks hs h

end CL
