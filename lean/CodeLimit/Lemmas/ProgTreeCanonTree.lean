import CodeLimit.Lemmas.ProgTreeCanonList
import CodeLimit.Lemmas.ProgTreeBasic
/-!
# Canonical forests: the syntactic headers of the token sequence are the headers of the function nodes

Generic in the language-specific tests `C : CanonCfg` of `Prog.canonWith`, tied to a token-level
follow-up test `fol` by `CfgSound C fol`.  For a forest `p` with `wfCore` and `canonWith C` whose
sibling list has balanced parentheses:

* `drop_groupsLen_prog` - the tree-level pass `Prog.afterRun` follows the token-level pass
  `Syn.groupsLen` on `p.flat ++ k`;
* `synHdrsG_prog` - the syntactic headers of `p.flat ++ k` that pass `fol` and do not follow an
  exempting token are exactly the headers of the function nodes, in source order;
* `fn_located` - every function node's header is a canonical header in the context of `p.flat`.
-/
namespace CL
open CL.Syn

theorem Tok.noBrace_iff {t : Tok} :
    t.noBrace = true ↔ t.isSymbol [123] = false ∧ t.isSymbol [125] = false := by
  simp [Tok.noBrace]

/-- the tokens that follow a sibling list inside a brace group, a function body or at the end of
the file: nothing, or a closing brace first -/
def KOK (k : List Tok) : Prop := ∀ t ∈ k.head?, t.isSymbol [125] = true

theorem KOK.nil : KOK [] := by intro t h; cases h

theorem KOK.cons {t : Tok} {k : List Tok} (h : t.isSymbol [125] = true) : KOK (t :: k) := by
  intro u hu
  simp only [List.head?_cons, Option.mem_def, Option.some.injEq] at hu
  subst hu; exact h

theorem KOK.noOpenHead {k : List Tok} (h : KOK k) : NoOpenHead k :=
  fun t ht => (rbrace_facts (h t ht)).1

/-- what the language-specific tests of `C` have to do with the token-level follow-up test `fol` -/
structure CfgSound (C : CanonCfg) (fol : List Tok → Bool) : Prop where
  /-- accepted headers are canonical headers from the name token on; the tokens in front of the name
  are no Name tokens, no parentheses and not exempting -/
  hdr : ∀ h k, C.hdrOK h k = true → headerOK (h.drop k) = true ∧
    ∀ t ∈ h.take k, t.isName = false ∧ t.noParen = true ∧ C.exempt t = false
  /-- accepted gaps contain no parentheses -/
  gap_noParen : ∀ g, C.gapOK g = true → ∀ t ∈ g, t.noParen = true
  /-- an accepted gap followed by the opening brace passes the follow-up test -/
  gap_fol : ∀ g op Y, C.gapOK g = true → op.isSymbol [123] = true → fol (g ++ op :: Y) = true
  /-- if the token sequence of canonical siblings `q` (followed by `k`) passes the follow-up test,
  the tree-level test says so -/
  fol_sound : ∀ (q : Prog Tok) (ex : Bool) (k : List Tok), q.wfCore = true →
    q.canonWith C ex = true → KOK k → fol (q.flat ++ k) = true → C.follows q = true
  /-- punctuation tokens (in particular braces) are not exempting -/
  exempt_punct : ∀ t : Tok, t.kind = 3 → C.exempt t = false
  /-- punctuation tokens (in particular braces) are not joining -/
  joins_punct : ∀ t : Tok, t.kind = 3 → C.joins t = false

/-- the token sequence after the stop of the pass `groupsLen l r` -/
def RestAt (l : List Tok) (r : Nat) : List Tok := l.drop (groupsLen l r)

theorem restAt_step {t : Tok} {l : List Tok} {r r' : Nat}
    (h : groupsLen (t :: l) r = groupsLen l r' + 1) : RestAt (t :: l) r = RestAt l r' := by
  unfold RestAt
  rw [h, List.drop_succ_cons]

theorem restAt_zero {l : List Tok} {r : Nat} (h : groupsLen l r = 0) : RestAt l r = l := by
  unfold RestAt
  rw [h]; rfl

theorem restAt_skip {x l : List Tok} {r : Nat}
    (h : groupsLen (x ++ l) (r + 1) = x.length + groupsLen l (r + 1)) :
    RestAt (x ++ l) (r + 1) = RestAt l (r + 1) := by
  unfold RestAt
  rw [h, ← List.drop_drop, List.drop_left' rfl]

theorem parenBal_tail {t : Tok} {X : List Tok} {D : Nat} (h : parenBal (t :: X) D = true) :
    ∃ D', parenBal X D' = true := by
  cases ho : isOpen t
  · cases hc : isClose t
    · rw [parenBal_other _ _ ho hc] at h; exact ⟨D, h⟩
    · cases D with
      | zero => rw [parenBal_close_zero _ ho hc] at h; cases h
      | succ D' => rw [parenBal_close _ _ ho hc] at h; exact ⟨D', h⟩
  · rw [parenBal_open _ _ ho] at h; exact ⟨D + 1, h⟩

/-! ## headers and gaps are transparent -/

theorem headerShape_cases {h : List Tok} (hh : headerShape h = true) :
    ∃ n o g, h = n :: o :: g ∧ n.isName = true ∧ isOpen n = false ∧ isClose n = false ∧
      isOpen o = true ∧ groupsOnly g 1 = true := by
  match h, hh with
  | n :: o :: g, hh =>
    simp only [headerShape, Bool.and_eq_true] at hh
    obtain ⟨⟨hn, ho⟩, hg⟩ := hh
    exact ⟨n, o, g, rfl, hn, isName_not_isOpen hn, isName_not_isClose hn, ho, hg⟩

theorem headerOK_shape {h : List Tok} (hh : headerOK h = true) : headerShape h = true := by
  simp only [headerOK, Bool.and_eq_true] at hh; exact hh.1

theorem groupsLen_header {h : List Tok} (hh : headerShape h = true) (Y : List Tok) (r : Nat) :
    groupsLen (h ++ Y) (r + 1) = h.length + groupsLen Y (r + 1) := by
  obtain ⟨n, o, g, rfl, _, hno, hnc, ho, hg⟩ := headerShape_cases hh
  rw [List.cons_append, List.cons_append, groupsLen_other _ _ hno hnc, groupsLen_open _ _ ho,
    groupsLen_parenBal Y r (parenBal_of_groupsOnly hg)]
  simp only [List.length_cons]; omega

theorem parenBal_header {h : List Tok} (hh : headerShape h = true) (Y : List Tok) (D : Nat) :
    parenBal (h ++ Y) D = parenBal Y D := by
  obtain ⟨n, o, g, rfl, _, hno, hnc, ho, hg⟩ := headerShape_cases hh
  rw [List.cons_append, List.cons_append, parenBal_other _ _ hno hnc, parenBal_open _ _ ho,
    parenBal_append Y D (parenBal_of_groupsOnly hg)]

theorem parenBal_noParen : ∀ (g : List Tok), (∀ t ∈ g, t.noParen = true) → parenBal g 0 = true
  | [], _ => rfl
  | t :: ts, h => by
    obtain ⟨h1, h2⟩ := noParen_iff.1 (h t (by simp))
    rw [parenBal_other _ _ h1 h2]
    exact parenBal_noParen ts (fun x hx => h x (List.mem_cons_of_mem _ hx))

/-- the header tokens `h` with name index `k` are transparent for the pass: no parentheses in front
of the name, the header shape from the name on -/
def hdrTrans (h : List Tok) (k : Nat) : Bool := (h.take k).all Tok.noParen && headerShape (h.drop k)

theorem hdrTrans_parts {h : List Tok} {k : Nat} (hh : hdrTrans h k = true) :
    (∀ t ∈ h.take k, t.noParen = true) ∧ headerShape (h.drop k) = true := by
  simpa [hdrTrans] using hh

theorem groupsLen_hdrTrans {h : List Tok} {k : Nat} (hh : hdrTrans h k = true) (Y : List Tok)
    (r : Nat) : groupsLen (h ++ Y) (r + 1) = h.length + groupsLen Y (r + 1) := by
  obtain ⟨h1, h2⟩ := hdrTrans_parts hh
  have e : h ++ Y = h.take k ++ (h.drop k ++ Y) := by
    rw [← List.append_assoc, List.take_append_drop]
  have := groupsLen_parenBal (h.drop k ++ Y) r (parenBal_noParen _ h1)
  rw [Nat.add_zero] at this
  rw [e, this, groupsLen_header h2]
  have hl : (h.take k).length + (h.drop k).length = h.length := by
    rw [← List.length_append, List.take_append_drop]
  omega

theorem parenBal_hdrTrans {h : List Tok} {k : Nat} (hh : hdrTrans h k = true) (Y : List Tok)
    (D : Nat) : parenBal (h ++ Y) D = parenBal Y D := by
  obtain ⟨h1, h2⟩ := hdrTrans_parts hh
  have e : h ++ Y = h.take k ++ (h.drop k ++ Y) := by
    rw [← List.append_assoc, List.take_append_drop]
  have := parenBal_append (h.drop k ++ Y) D (parenBal_noParen _ h1)
  rw [Nat.add_zero] at this
  rw [e, this, parenBal_header h2]

/-- the first header token does not have the text `(` -/
theorem hdrTrans_head {h : List Tok} {k : Nat} (hh : hdrTrans h k = true) :
    ∃ t r, h = t :: r ∧ isOpen t = false := by
  obtain ⟨h1, h2⟩ := hdrTrans_parts hh
  obtain ⟨n, o, g, hd, _, hno, _⟩ := headerShape_cases h2
  cases k with
  | zero =>
    rw [List.drop_zero] at hd
    exact ⟨n, o :: g, hd, hno⟩
  | succ k' =>
    cases h with
    | nil => simp at hd
    | cons t r =>
      exact ⟨t, r, rfl, (noParen_iff.1 (h1 t (by simp))).1⟩

/-! ## the structural part of `canonWith` that the pass needs -/

/-- the items of the sibling list are transparent for the pass: brace groups and bodies are
balanced, headers have the header shape, gaps contain no parentheses -/
def Prog.parensOK : Prog Tok → Bool
  | .nil => true
  | .leaf _ rest => parensOK rest
  | .group _ _ items rest => parenBal items.flat 0 && parensOK rest
  | .fn hdr k gap _ _ body rest =>
    hdrTrans hdr.flat k && gap.all Tok.noParen && parenBal body.flat 0 && parensOK rest

theorem wfCore_fn {hdr : Prog Tok} {k : Nat} {gap : List Tok} {op cl : Tok} {body rest : Prog Tok}
    (h : (Prog.fn hdr k gap op cl body rest).wfCore = true) :
    op.isSymbol [123] = true ∧ cl.isSymbol [125] = true ∧ body.wfCore = true ∧
      rest.wfCore = true := by
  simp only [Prog.wfCore, Bool.and_eq_true] at h
  exact ⟨h.1.1.1.2, h.1.1.2, h.1.2, h.2⟩

theorem canonWith_fn {C : CanonCfg} {ex : Bool} {hdr : Prog Tok} {k : Nat} {gap : List Tok}
    {op cl : Tok} {body rest : Prog Tok}
    (h : (Prog.fn hdr k gap op cl body rest).canonWith C ex = true) :
    ex = false ∧ C.hdrOK hdr.flat k = true ∧ C.gapOK gap = true ∧
      parenBal body.flat 0 = true ∧ body.canonWith C false = true ∧
      rest.canonWith C false = true := by
  simp only [Prog.canonWith, Bool.and_eq_true, Bool.not_eq_true'] at h
  exact ⟨h.1.1.1.1.1, h.1.1.1.1.2, h.1.1.1.2, h.1.1.2, h.1.2, h.2⟩

theorem hdrTrans_of_sound {C : CanonCfg} {fol : List Tok → Bool} (hS : CfgSound C fol)
    {h : List Tok} {k : Nat} (hh : C.hdrOK h k = true) : hdrTrans h k = true := by
  obtain ⟨h1, h2⟩ := hS.hdr h k hh
  simp only [hdrTrans, Bool.and_eq_true, List.all_eq_true]
  exact ⟨fun t ht => (h2 t ht).2.1, headerOK_shape h1⟩

section generic
variable {C : CanonCfg} {fol : List Tok → Bool}

theorem parensOK_of_canon (hS : CfgSound C fol) : ∀ (p : Prog Tok) (ex : Bool),
    p.canonWith C ex = true → p.parensOK = true
  | .nil, _, _ => rfl
  | .leaf t rest, ex, h => by
    simp only [Prog.canonWith, Bool.and_eq_true] at h
    exact parensOK_of_canon hS rest _ h.2
  | .group op cl items rest, ex, h => by
    simp only [Prog.canonWith, Bool.and_eq_true] at h
    simp only [Prog.parensOK, Bool.and_eq_true]
    exact ⟨h.1.1, parensOK_of_canon hS rest _ h.2⟩
  | .fn hdr k gap op cl body rest, ex, h => by
    obtain ⟨_, hH, hG, hb, _, hr⟩ := canonWith_fn h
    simp only [Prog.parensOK, Bool.and_eq_true, List.all_eq_true]
    exact ⟨⟨⟨hdrTrans_of_sound hS hH, hS.gap_noParen _ hG⟩, hb⟩,
      parensOK_of_canon hS rest _ hr⟩

end generic

theorem flat_group_append (op cl : Tok) (items rest : Prog Tok) (k : List Tok) :
    (Prog.group op cl items rest).flat ++ k = op :: (items.flat ++ cl :: (rest.flat ++ k)) := by
  simp [Prog.flat]

theorem flat_fn_append (hdr : Prog Tok) (j : Nat) (gap : List Tok) (op cl : Tok)
    (body rest : Prog Tok) (k : List Tok) :
    (Prog.fn hdr j gap op cl body rest).flat ++ k
      = hdr.flat ++ (gap ++ op :: (body.flat ++ cl :: (rest.flat ++ k))) := by
  simp [Prog.flat]

/-- the balance of the siblings after a brace group -/
theorem parenBal_group_rest {op cl : Tok} {items rest : Prog Tok} {D : Nat}
    (hop : op.isSymbol [123] = true) (hcl : cl.isSymbol [125] = true)
    (hi : parenBal items.flat 0 = true)
    (h : parenBal (Prog.group op cl items rest).flat D = true) : parenBal rest.flat D = true := by
  obtain ⟨ho1, ho2, _⟩ := lbrace_facts hop
  obtain ⟨hc1, hc2, _⟩ := rbrace_facts hcl
  rw [Prog.flat, parenBal_other _ _ ho1 ho2, ← Nat.add_zero D, parenBal_append _ D hi,
    parenBal_other _ _ hc1 hc2] at h
  exact h

/-- the balance of the siblings after a function -/
theorem parenBal_fn_rest {hdr : Prog Tok} {j : Nat} {gap : List Tok} {op cl : Tok}
    {body rest : Prog Tok} {D : Nat}
    (hh : hdrTrans hdr.flat j = true) (hg : ∀ t ∈ gap, t.noParen = true)
    (hop : op.isSymbol [123] = true) (hcl : cl.isSymbol [125] = true)
    (hb : parenBal body.flat 0 = true)
    (h : parenBal (Prog.fn hdr j gap op cl body rest).flat D = true) :
    parenBal rest.flat D = true := by
  obtain ⟨ho1, ho2, _⟩ := lbrace_facts hop
  obtain ⟨hc1, hc2, _⟩ := rbrace_facts hcl
  rw [Prog.flat, parenBal_hdrTrans hh, ← Nat.add_zero D, parenBal_append _ D (parenBal_noParen _ hg),
    parenBal_other _ _ ho1 ho2, ← Nat.add_zero D, parenBal_append _ D hb,
    parenBal_other _ _ hc1 hc2] at h
  exact h

/-! ## the tree-level pass follows the token-level pass -/

/-- Let the siblings `p` (well-formed, items transparent, balanced from depth `D ≥ r`) be followed
by tokens `k` that do not start with `(`.  The tokens that remain where the pass `groupsLen` from
depth `r` over `p.flat ++ k` stops are the tokens of the siblings `p.afterRun r`, followed by
`k`. -/
theorem drop_groupsLen_prog : ∀ (p : Prog Tok) (k : List Tok) (r D : Nat),
    p.wfCore = true → p.parensOK = true → parenBal p.flat D = true → r ≤ D →
    NoOpenHead k → RestAt (p.flat ++ k) r = (p.afterRun r).flat ++ k := by
  intro p
  induction p with
  | nil =>
    intro k r D _ _ hb hr hk1
    simp only [Prog.flat, parenBal, beq_iff_eq] at hb
    have hr0 : r = 0 := by omega
    subst hr0
    rw [Prog.flat, List.nil_append, restAt_zero (groupsLen_noOpenHead hk1)]
    rfl
  | leaf t rest ih =>
    intro k r D hw hc hb hr hk1
    simp only [Prog.wfCore, Bool.and_eq_true] at hw
    simp only [Prog.parensOK] at hc
    rw [Prog.flat, List.cons_append]
    rw [Prog.flat] at hb
    rcases groupsLen_cases t (rest.flat ++ k) r with ⟨ho, e⟩ | ⟨ho, hr0, e⟩ | ⟨ho, hcl, r', hr', e⟩ |
        ⟨ho, hcl, r', hr', e⟩
    · rw [parenBal_open _ _ ho] at hb
      rw [restAt_step e, ih k (r + 1) (D + 1) hw.2 hc hb (by omega) hk1]
      simp only [Prog.afterRun, ho, if_true]
    · subst hr0
      rw [restAt_zero e]
      simp only [Prog.afterRun, ho, Bool.false_eq_true, if_false, Prog.flat, List.cons_append]
    · subst hr'
      obtain ⟨D', rfl⟩ : ∃ D', D = D' + 1 := ⟨D - 1, by omega⟩
      rw [parenBal_close _ _ ho hcl] at hb
      rw [restAt_step e, ih k r' D' hw.2 hc hb (by omega) hk1]
      simp only [Prog.afterRun, ho, hcl, if_true, Bool.false_eq_true, if_false]
    · subst hr'
      rw [parenBal_other _ _ ho hcl] at hb
      rw [restAt_step e, ih k (r' + 1) D hw.2 hc hb hr hk1]
      simp only [Prog.afterRun, ho, hcl, Bool.false_eq_true, if_false]
  | group op cl items rest _ ih =>
    intro k r D hw hc hb hr hk1
    simp only [Prog.wfCore, Bool.and_eq_true] at hw
    simp only [Prog.parensOK, Bool.and_eq_true] at hc
    obtain ⟨⟨⟨hop, hcl⟩, _⟩, hwr⟩ := hw
    obtain ⟨hbi, hcr⟩ := hc
    obtain ⟨ho1, ho2, _⟩ := lbrace_facts hop
    obtain ⟨hc1, hc2, _⟩ := rbrace_facts hcl
    cases r with
    | zero =>
      rw [flat_group_append, restAt_zero (groupsLen_zero _ ho1)]
      simp [Prog.afterRun, Prog.flat]
    | succ r' =>
      have hbr := parenBal_group_rest hop hcl hbi hb
      rw [flat_group_append, restAt_step (groupsLen_other _ r' ho1 ho2),
        restAt_skip (by
          have := groupsLen_parenBal (cl :: (rest.flat ++ k)) r' hbi
          simpa using this),
        restAt_step (groupsLen_other _ r' hc1 hc2), ih k (r' + 1) D hwr hcr hbr hr hk1]
      simp only [Prog.afterRun]
  | fn hdr j gap op cl body rest _ _ ih =>
    intro k r D hw hc hb hr hk1
    obtain ⟨hop, hcl, _, hwr⟩ := wfCore_fn hw
    simp only [Prog.parensOK, Bool.and_eq_true, List.all_eq_true] at hc
    obtain ⟨⟨⟨hsh, hgp⟩, hbb⟩, hcr⟩ := hc
    obtain ⟨ho1, ho2, _⟩ := lbrace_facts hop
    obtain ⟨hc1, hc2, _⟩ := rbrace_facts hcl
    cases r with
    | zero =>
      obtain ⟨n, g, hflat, hno⟩ := hdrTrans_head hsh
      rw [flat_fn_append]
      have : groupsLen (hdr.flat ++ (gap ++ op :: (body.flat ++ cl :: (rest.flat ++ k)))) 0 = 0 := by
        rw [hflat, List.cons_append]; exact groupsLen_zero _ hno
      rw [restAt_zero this]
      simp [Prog.afterRun, Prog.flat]
    | succ r' =>
      have hbr := parenBal_fn_rest hsh hgp hop hcl hbb hb
      rw [flat_fn_append, restAt_skip (groupsLen_hdrTrans hsh _ r'),
        restAt_skip (by
          have := groupsLen_parenBal (op :: (body.flat ++ cl :: (rest.flat ++ k))) r'
            (parenBal_noParen _ hgp)
          simpa using this),
        restAt_step (groupsLen_other _ r' ho1 ho2),
        restAt_skip (by
          have := groupsLen_parenBal (cl :: (rest.flat ++ k)) r' hbb
          simpa using this),
        restAt_step (groupsLen_other _ r' hc1 hc2), ih k (r' + 1) D hwr hcr hbr hr hk1]
      simp only [Prog.afterRun]

/-! ## the siblings that remain after a run are well-formed and canonical -/

theorem wfCore_afterRun : ∀ (p : Prog Tok) (r : Nat), p.wfCore = true →
    (p.afterRun r).wfCore = true
  | .nil, _, _ => rfl
  | .leaf t rest, r, h => by
    have h2 : rest.wfCore = true := by
      simp only [Prog.wfCore, Bool.and_eq_true] at h; exact h.2
    simp only [Prog.afterRun]
    split
    · exact wfCore_afterRun rest _ h2
    · cases r with
      | zero => exact h
      | succ r' =>
        simp only
        split
        · exact wfCore_afterRun rest _ h2
        · exact wfCore_afterRun rest _ h2
  | .group op cl items rest, r, h => by
    cases r with
    | zero => exact h
    | succ r' =>
      simp only [Prog.wfCore, Bool.and_eq_true] at h
      exact wfCore_afterRun rest _ h.2
  | .fn hdr k gap op cl body rest, r, h => by
    cases r with
    | zero => exact h
    | succ r' => exact wfCore_afterRun rest _ (wfCore_fn h).2.2.2

theorem canonWith_afterRun {C : CanonCfg} : ∀ (p : Prog Tok) (ex : Bool) (r : Nat),
    p.canonWith C ex = true → ∃ ex', (p.afterRun r).canonWith C ex' = true
  | .nil, _, _, _ => ⟨false, rfl⟩
  | .leaf t rest, ex, r, h => by
    have h2 : rest.canonWith C (C.exempt t) = true := by
      simp only [Prog.canonWith, Bool.and_eq_true] at h; exact h.2
    simp only [Prog.afterRun]
    split
    · exact canonWith_afterRun rest _ _ h2
    · cases r with
      | zero => exact ⟨ex, h⟩
      | succ r' =>
        simp only
        split
        · exact canonWith_afterRun rest _ _ h2
        · exact canonWith_afterRun rest _ _ h2
  | .group op cl items rest, ex, r, h => by
    cases r with
    | zero => exact ⟨ex, h⟩
    | succ r' =>
      simp only [Prog.canonWith, Bool.and_eq_true] at h
      exact canonWith_afterRun rest _ _ h.2
  | .fn hdr k gap op cl body rest, ex, r, h => by
    cases r with
    | zero => exact ⟨ex, h⟩
    | succ r' => exact canonWith_afterRun rest _ _ (canonWith_fn h).2.2.2.2.2

/-- the parts of `canonWith` at a token -/
theorem canonWith_leaf {C : CanonCfg} {ex : Bool} {t : Tok} {rest : Prog Tok}
    (h : (Prog.leaf t rest).canonWith C ex = true) :
    (t.isName && !ex && rest.falseHeaderAfter C) = false ∧
      (C.joins t && rest.startsWithFn) = false ∧ rest.canonWith C (C.exempt t) = true := by
  simp only [Prog.canonWith, Bool.and_eq_true, Bool.not_eq_true'] at h
  exact ⟨h.1.1, h.1.2, h.2⟩

/-! ## the functions of a forest with their name indices -/

/-- the functions of a forest (as `fnsOf`), each with the index of its name token in its header -/
def fnsK : Prog Tok → Nat → List (Fn × Nat)
  | .nil, _ => []
  | .leaf _ rest, i => fnsK rest (i + 1)
  | .group _ _ items rest, i => fnsK items (i + 1) ++ fnsK rest (i + items.size + 2)
  | .fn hdr k gap _ _ body rest, i =>
    (⟨⟨hdr.flat.getD k default, ⟨i, i + hdr.size⟩⟩,
      ⟨i + hdr.size + gap.length, i + hdr.size + gap.length + body.size + 2⟩⟩, k)
    :: (fnsK body (i + hdr.size + gap.length + 1)
        ++ fnsK rest (i + hdr.size + gap.length + body.size + 2))

theorem fnsK_fst : ∀ (p : Prog Tok) (i : Nat), (fnsK p i).map (·.1) = fnsOf p i
  | .nil, _ => rfl
  | .leaf _ rest, i => fnsK_fst rest (i + 1)
  | .group _ _ items rest, i => by
    simp only [fnsK, fnsOf, List.map_append, fnsK_fst items, fnsK_fst rest]
  | .fn hdr k gap _ _ body rest, i => by
    simp only [fnsK, fnsOf, List.map_cons, List.map_append, fnsK_fst body, fnsK_fst rest]

/-- the header of a function as the matcher sees it from the name token: name, and the token range
from the name to the end of the header -/
def nameHdr (x : Fn × Nat) : Header := ⟨x.1.hdr.name, ⟨x.1.hdr.rng.s + x.2, x.1.hdr.rng.e⟩⟩

theorem headD_drop (l : List Tok) (k : Nat) : (l.drop k).headD default = l.getD k default := by
  rw [List.headD_eq_head?_getD, List.head?_drop, List.getD_eq_getElem?_getD]

section generic
variable {C : CanonCfg} {fol : List Tok → Bool}

/-! ## no false header at a Name token outside the headers -/

/-- in a canonical sibling list, a Name token that is a `leaf` is not the start of a syntactic
header that passes the follow-up test (unless it follows an exempting token) -/
theorem leaf_no_header (hS : CfgSound C fol) {t : Tok} {rest : Prog Tok} {k : List Tok}
    {pb : Bool} {D : Nat}
    (hw : (Prog.leaf t rest).wfCore = true) (hc : (Prog.leaf t rest).canonWith C pb = true)
    (hb : parenBal (Prog.leaf t rest).flat D = true) (hk : KOK k) :
    (t.isName && !pb && hdrFollowsG fol (rest.flat ++ k)) = false := by
  cases hn : t.isName
  · rfl
  · cases pb
    · simp only [Bool.not_false, Bool.and_self, Bool.true_and]
      simp only [Prog.wfCore, Bool.and_eq_true] at hw
      obtain ⟨hc1, _, hc3⟩ := canonWith_leaf hc
      simp only [hn, Bool.not_false, Bool.true_and] at hc1
      obtain ⟨D1, hb1⟩ := parenBal_tail (by simpa only [Prog.flat] using hb)
      cases hf : hdrFollowsG fol (rest.flat ++ k)
      · rfl
      · exfalso
        cases rest with
        | nil =>
          rw [Prog.flat, List.nil_append, hdrFollowsG_noOpenHead hk.noOpenHead] at hf; cases hf
        | leaf o rest' =>
          rw [Prog.flat, List.cons_append] at hf
          simp only [hdrFollowsG, List.head?_cons, Option.any_some, Bool.and_eq_true] at hf
          obtain ⟨ho, hstop⟩ := hf
          simp only [Prog.wfCore, Bool.and_eq_true] at hw
          obtain ⟨_, _, hc33⟩ := canonWith_leaf hc3
          rw [Prog.flat, parenBal_open _ _ ho] at hb1
          have hstop' : fol (RestAt (o :: (rest'.flat ++ k)) 0) = true := hstop
          rw [restAt_step (groupsLen_open _ 0 ho),
            drop_groupsLen_prog rest' k 1 (D1 + 1) hw.2.2 (parensOK_of_canon hS _ _ hc33) hb1
              (by omega) hk.noOpenHead] at hstop'
          obtain ⟨ex', hc'⟩ := canonWith_afterRun rest' _ 1 hc33
          have := hS.fol_sound _ ex' k (wfCore_afterRun rest' 1 hw.2.2) hc' hk hstop'
          have hfa : (Prog.leaf o rest').falseHeaderAfter C = true := by
            simp only [Prog.falseHeaderAfter, ho, this, Bool.and_self]
          rw [hfa] at hc1; cases hc1
        | group op cl items rest' =>
          simp only [Prog.wfCore, Bool.and_eq_true] at hw
          rw [flat_group_append] at hf
          simp [hdrFollowsG, (lbrace_facts hw.2.1.1.1).1] at hf
        | fn hdr j gap op cl body rest' =>
          obtain ⟨_, hH, _⟩ := canonWith_fn hc3
          obtain ⟨n, g, hflat, hno⟩ := hdrTrans_head (hdrTrans_of_sound hS hH)
          rw [flat_fn_append, hflat] at hf
          simp [hdrFollowsG, hno] at hf
    · simp

/-! ## the syntactic headers of a canonical forest -/

/-- **The syntactic headers `Name ( … )+` of the token sequence of a canonical forest that pass the
follow-up test and do not follow an exempting token are exactly the headers of its function
nodes** (each from its name token on: `nameHdr`), in source order.  `k` = the tokens that follow the
sibling list (nothing, or a closing brace first); `pb` = the token in front of the sibling list is
exempting. -/
theorem synHdrsG_prog (hS : CfgSound C fol) : ∀ (p : Prog Tok) (k : List Tok) (pb : Bool)
    (i D : Nat), p.wfCore = true → p.canonWith C pb = true → parenBal p.flat D = true → KOK k →
    synHdrsG fol C.exempt pb (p.flat ++ k) i
      = (fnsK p i).map nameHdr
          ++ synHdrsG fol C.exempt (flagAfter C.exempt pb p.flat) k (i + p.size) := by
  intro p
  induction p with
  | nil =>
    intro k pb i D _ _ _ _
    simp [Prog.flat, fnsK, Prog.size, flagAfter]
  | leaf t rest ih =>
    intro k pb i D hw hc hb hk
    have hno := leaf_no_header hS hw hc hb hk
    simp only [Prog.wfCore, Bool.and_eq_true] at hw
    obtain ⟨_, _, hc3⟩ := canonWith_leaf hc
    obtain ⟨D1, hb1⟩ := parenBal_tail (by simpa only [Prog.flat] using hb)
    rw [Prog.flat, List.cons_append, synHdrsG_cons_false i hno,
      ih k _ (i + 1) D1 hw.2 hc3 hb1 hk, flagAfter_cons]
    simp only [fnsK, Prog.size]
    rw [show i + 1 + rest.size = i + (rest.size + 1) by omega]
  | group op cl items rest ih1 ih2 =>
    intro k pb i D hw hc hb hk
    simp only [Prog.wfCore, Bool.and_eq_true] at hw
    simp only [Prog.canonWith, Bool.and_eq_true] at hc
    obtain ⟨⟨⟨hop, hcl⟩, hwi⟩, hwr⟩ := hw
    obtain ⟨⟨hbi, hci⟩, hcr⟩ := hc
    obtain ⟨_, _, ho3⟩ := lbrace_facts hop
    obtain ⟨_, _, hc3, _⟩ := rbrace_facts hcl
    have heo : C.exempt op = false := hS.exempt_punct _ (isSymbol_iff.1 hop).1
    have hec : C.exempt cl = false := hS.exempt_punct _ (isSymbol_iff.1 hcl).1
    have hbr := parenBal_group_rest hop hcl hbi hb
    rw [flat_group_append, synHdrsG_not_name _ _ _ ho3, heo,
      ih1 (cl :: (rest.flat ++ k)) false (i + 1) 0 hwi hci hbi (KOK.cons hcl),
      synHdrsG_not_name _ _ _ hc3, hec, ih2 k false (i + 1 + items.size + 1) D hwr hcr hbr hk]
    simp only [fnsK, Prog.size, Prog.flat, List.map_append, List.append_assoc, flagAfter_cons,
      flagAfter_append, heo, hec]
    rw [show i + 1 + items.size + 1 = i + items.size + 2 by omega,
      show i + items.size + 2 + rest.size = i + (items.size + rest.size + 2) by omega]
  | fn hdr j gap op cl body rest _ ih2 ih3 =>
    intro k pb i D hw hc hb hk
    obtain ⟨hop, hcl, hwb, hwr⟩ := wfCore_fn hw
    obtain ⟨rfl, hH, hG, hbb, hcb, hcr⟩ := canonWith_fn hc
    obtain ⟨hOK, hpre⟩ := hS.hdr _ _ hH
    have htr := hdrTrans_of_sound hS hH
    have hgp := hS.gap_noParen _ hG
    obtain ⟨ho1, _, ho3⟩ := lbrace_facts hop
    obtain ⟨_, _, hc3, _⟩ := rbrace_facts hcl
    have heo : C.exempt op = false := hS.exempt_punct _ (isSymbol_iff.1 hop).1
    have hec : C.exempt cl = false := hS.exempt_punct _ (isSymbol_iff.1 hcl).1
    have hbr := parenBal_fn_rest htr hgp hop hcl hbb hb
    have hgo : ∀ t ∈ gap, isOpen t = false := fun t ht => (noParen_iff.1 (hgp t ht)).1
    have hZ : NoOpenHead (gap ++ op :: (body.flat ++ cl :: (rest.flat ++ k))) := by
      cases gap with
      | nil => exact NoOpenHead.cons ho1
      | cons g gs => exact NoOpenHead.cons (hgo g (by simp))
    -- the header tokens: `j` tokens in front of the name, then the canonical header
    have hsplit : hdr.flat = hdr.flat.take j ++ hdr.flat.drop j := (List.take_append_drop j _).symm
    have hdl : 2 ≤ (hdr.flat.drop j).length := by
      obtain ⟨n, o, g, hd, _⟩ := headerShape_cases (headerOK_shape hOK)
      rw [hd]; simp
    have hjl : (hdr.flat.take j).length = j := by
      rw [List.length_take]
      rw [List.length_drop] at hdl
      omega
    have hlen : j + (hdr.flat.drop j).length = hdr.size := by
      rw [← Prog.size_eq hdr, List.length_drop]
      rw [List.length_drop] at hdl
      omega
    have hflag : flagAfter C.exempt false (hdr.flat.take j) = false :=
      flagAfter_false_of_all _ (fun t ht => (hpre t ht).2.2)
    rw [flat_fn_append]
    conv => lhs; rw [hsplit, List.append_assoc]
    rw [synHdrsG_skipNames _ _ _ _ (fun t ht => (hpre t ht).1), hflag, hjl,
      synHdrsG_header (i + j) hOK hZ (hS.gap_fol _ _ _ hG hop),
      synHdrsG_noCall (NoOpenHead.cons ho1) gap _ _ (noCall_of_noOpen _ hgo),
      synHdrsG_not_name _ _ _ ho3, heo,
      ih2 (cl :: (rest.flat ++ k)) false _ 0 hwb hcb hbb (KOK.cons hcl),
      synHdrsG_not_name _ _ _ hc3, hec, ih3 k false _ D hwr hcr hbr hk]
    simp only [fnsK, Prog.size, Prog.flat, List.map_cons, List.map_append, List.cons_append,
      List.append_assoc, flagAfter_cons, flagAfter_append, heo, hec, nameHdr, headD_drop]
    rw [show i + j + (hdr.flat.drop j).length = i + hdr.size by omega,
      show i + hdr.size + gap.length + 1 + body.size + 1
        = i + hdr.size + gap.length + body.size + 2 by omega,
      show i + hdr.size + gap.length + body.size + 2 + rest.size
        = i + (hdr.size + gap.length + body.size + rest.size + 2) by omega]

/-- the whole file -/
theorem synHdrsG_file (hS : CfgSound C fol) {p : Prog Tok} (hw : p.wfCore = true)
    (hb : parenBal p.flat 0 = true) (hc : p.canonWith C false = true) :
    synHdrsG fol C.exempt false p.flat 0 = (fnsK p 0).map nameHdr := by
  have := synHdrsG_prog hS p [] false 0 0 hw hc hb KOK.nil
  simpa [synHdrsG] using this

/-! ## every function node's header, in context -/

/-- the header of every function node of a canonical forest stands in the token sequence as:
`hp` (the tokens in front of the name), the canonical header `h` from the name on, an accepted gap
and the symbol `{`; neither behind an exempting token nor (if the name comes first) behind a
joining token -/
theorem fn_located (hS : CfgSound C fol) : ∀ (p : Prog Tok) (pb pj : Bool) (i : Nat),
    p.wfCore = true → p.canonWith C pb = true → (pj = true → p.startsWithFn = false) →
    ∀ x ∈ fnsK p i, ∃ pre hp h gap b post, p.flat = pre ++ (hp ++ (h ++ (gap ++ b :: post))) ∧
      hp.length = x.2 ∧ C.hdrOK (hp ++ h) x.2 = true ∧ headerOK h = true ∧
      C.gapOK gap = true ∧ b.isSymbol [123] = true ∧
      flagAfter C.exempt pb (pre ++ hp) = false ∧
      (x.2 = 0 → flagAfter C.joins pj pre = false) ∧
      x.1.hdr = ⟨h.headD default, ⟨i + pre.length, i + pre.length + hp.length + h.length⟩⟩ := by
  intro p
  induction p with
  | nil => intro pb pj i _ _ _ f hf; cases hf
  | leaf t rest ih =>
    intro pb pj i hw hc _ x hx
    simp only [Prog.wfCore, Bool.and_eq_true] at hw
    obtain ⟨_, hc2, hc3⟩ := canonWith_leaf hc
    have hpj' : C.joins t = true → rest.startsWithFn = false := by
      intro hj; simpa [hj] using hc2
    obtain ⟨pre, hp, h, gap, b, post, e, hl, hh, hok, hg, hb, hfl, hjn, hf'⟩ :=
      ih _ (C.joins t) (i + 1) hw.2 hc3 hpj' x hx
    refine ⟨t :: pre, hp, h, gap, b, post, by rw [Prog.flat, e]; rfl, hl, hh, hok, hg, hb, hfl,
      hjn, ?_⟩
    rw [hf']; simp only [List.length_cons]
    rw [show i + 1 + pre.length = i + (pre.length + 1) by omega]
  | group op cl items rest ih1 ih2 =>
    intro pb pj i hw hc _ x hx
    simp only [Prog.wfCore, Bool.and_eq_true] at hw
    simp only [Prog.canonWith, Bool.and_eq_true] at hc
    have heo : C.exempt op = false := hS.exempt_punct _ (isSymbol_iff.1 hw.1.1.1).1
    have hec : C.exempt cl = false := hS.exempt_punct _ (isSymbol_iff.1 hw.1.1.2).1
    have hjo : C.joins op = false := hS.joins_punct _ (isSymbol_iff.1 hw.1.1.1).1
    have hjc : C.joins cl = false := hS.joins_punct _ (isSymbol_iff.1 hw.1.1.2).1
    simp only [fnsK, List.mem_append] at hx
    rcases hx with hx | hx
    · obtain ⟨pre, hp, h, gap, b, post, e, hl, hh, hok, hg, hb, hfl, hjn, hf'⟩ :=
        ih1 _ false (i + 1) hw.1.2 hc.1.2 (by intro h; cases h) x hx
      refine ⟨op :: pre, hp, h, gap, b, post ++ cl :: rest.flat, by rw [Prog.flat, e]; simp, hl,
        hh, hok, hg, hb, by rw [List.cons_append, flagAfter_cons, heo]; exact hfl,
        by rw [flagAfter_cons, hjo]; exact hjn, ?_⟩
      rw [hf']; simp only [List.length_cons]
      rw [show i + 1 + pre.length = i + (pre.length + 1) by omega]
    · obtain ⟨pre, hp, h, gap, b, post, e, hl, hh, hok, hg, hb, hfl, hjn, hf'⟩ :=
        ih2 _ false _ hw.2 hc.2 (by intro h; cases h) x hx
      refine ⟨op :: (items.flat ++ cl :: pre), hp, h, gap, b, post, by rw [Prog.flat, e]; simp,
        hl, hh, hok, hg, hb,
        by rw [List.cons_append, flagAfter_cons, List.append_assoc, flagAfter_append,
             List.cons_append, flagAfter_cons, hec]; exact hfl,
        by rw [flagAfter_cons, flagAfter_append, flagAfter_cons, hjc]; exact hjn, ?_⟩
      rw [hf']; simp only [List.length_cons, List.length_append, Prog.size_eq]
      rw [show i + items.size + 2 + pre.length = i + (items.size + (pre.length + 1) + 1) by omega]
  | fn hdr j gap op cl body rest _ ih2 ih3 =>
    intro pb pj i hw hc hpj x hx
    obtain ⟨hop, hcl, hwb, hwr⟩ := wfCore_fn hw
    obtain ⟨rfl, hH, hG, _, hcb, hcr⟩ := canonWith_fn hc
    obtain ⟨hOK, hpre⟩ := hS.hdr _ _ hH
    have heo : C.exempt op = false := hS.exempt_punct _ (isSymbol_iff.1 hop).1
    have hec : C.exempt cl = false := hS.exempt_punct _ (isSymbol_iff.1 hcl).1
    have hjo : C.joins op = false := hS.joins_punct _ (isSymbol_iff.1 hop).1
    have hjc : C.joins cl = false := hS.joins_punct _ (isSymbol_iff.1 hcl).1
    simp only [fnsK, List.mem_cons, List.mem_append] at hx
    rcases hx with rfl | hx | hx
    · have hdl : 2 ≤ (hdr.flat.drop j).length := by
        obtain ⟨n, o, g, hd, _⟩ := headerShape_cases (headerOK_shape hOK)
        rw [hd]; simp
      have hjl : (hdr.flat.take j).length = j := by
        rw [List.length_take]
        rw [List.length_drop] at hdl
        omega
      have hpjf : pj = false := by
        cases pj
        · rfl
        · exact absurd (hpj rfl) (by simp [Prog.startsWithFn])
      refine ⟨[], hdr.flat.take j, hdr.flat.drop j, gap, op, body.flat ++ cl :: rest.flat,
        by
          rw [Prog.flat, List.nil_append]
          conv => lhs; rw [← List.take_append_drop j hdr.flat, List.append_assoc],
        hjl, by rw [List.take_append_drop]; exact hH, hOK, hG, hop,
        by rw [List.nil_append]; exact flagAfter_false_of_all _ (fun t ht => (hpre t ht).2.2),
        fun _ => hpjf, ?_⟩
      have hlen' : (hdr.flat.take j).length + (hdr.flat.drop j).length = hdr.size := by
        rw [← List.length_append, List.take_append_drop, Prog.size_eq]
      simp only [List.length_nil, Nat.add_zero, headD_drop]
      rw [Nat.add_assoc, hlen']
    · obtain ⟨pre, hp, h, gap', b, post, e, hl, hh, hok, hg, hb, hfl, hjn, hf'⟩ :=
        ih2 _ false _ hwb hcb (by intro h; cases h) x hx
      refine ⟨hdr.flat ++ (gap ++ op :: pre), hp, h, gap', b, post ++ cl :: rest.flat,
        by rw [Prog.flat, e]; simp, hl, hh, hok, hg, hb,
        by rw [List.append_assoc, flagAfter_append, List.append_assoc, flagAfter_append,
             List.cons_append, flagAfter_cons, heo]; exact hfl,
        by rw [flagAfter_append, flagAfter_append, flagAfter_cons, hjo]; exact hjn, ?_⟩
      rw [hf']; simp only [List.length_cons, List.length_append, Prog.size_eq]
      rw [show i + hdr.size + gap.length + 1 + pre.length
        = i + (hdr.size + (gap.length + (pre.length + 1))) by omega]
    · obtain ⟨pre, hp, h, gap', b, post, e, hl, hh, hok, hg, hb, hfl, hjn, hf'⟩ :=
        ih3 _ false _ hwr hcr (by intro h; cases h) x hx
      refine ⟨hdr.flat ++ (gap ++ op :: (body.flat ++ cl :: pre)), hp, h, gap', b, post,
        by rw [Prog.flat, e]; simp, hl, hh, hok, hg, hb,
        by rw [List.append_assoc, flagAfter_append, List.append_assoc, flagAfter_append,
             List.cons_append, flagAfter_cons, List.append_assoc, flagAfter_append,
             List.cons_append, flagAfter_cons, hec]; exact hfl,
        by rw [flagAfter_append, flagAfter_append, flagAfter_cons, flagAfter_append,
             flagAfter_cons, hjc]; exact hjn, ?_⟩
      rw [hf']; simp only [List.length_cons, List.length_append, Prog.size_eq]
      rw [show i + hdr.size + gap.length + body.size + 2 + pre.length
        = i + (hdr.size + (gap.length + (body.size + (pre.length + 1) + 1))) by omega]

/-- when every accepted header is named by its first token, `nameHdr` is the header itself -/
theorem nameHdrs_eq (hk0 : ∀ h k, C.hdrOK h k = true → k = 0) : ∀ (p : Prog Tok) (ex : Bool)
    (i : Nat), p.canonWith C ex = true → (fnsK p i).map nameHdr = (fnsOf p i).map (·.hdr)
  | .nil, _, _, _ => rfl
  | .leaf t rest, ex, i, h => nameHdrs_eq hk0 rest _ (i + 1) (canonWith_leaf h).2.2
  | .group op cl items rest, ex, i, h => by
    simp only [Prog.canonWith, Bool.and_eq_true] at h
    simp only [fnsK, fnsOf, List.map_append, nameHdrs_eq hk0 items _ _ h.1.2,
      nameHdrs_eq hk0 rest _ _ h.2]
  | .fn hdr k gap op cl body rest, ex, i, h => by
    obtain ⟨_, hH, _, _, hcb, hcr⟩ := canonWith_fn h
    have := hk0 _ _ hH
    subst this
    simp only [fnsK, fnsOf, List.map_cons, List.map_append, nameHdrs_eq hk0 body _ _ hcb,
      nameHdrs_eq hk0 rest _ _ hcr, nameHdr, Nat.add_zero]

end generic

end CL
