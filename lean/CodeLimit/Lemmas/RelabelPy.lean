import CodeLimit.Lemmas.RelabelScopes
/-!
# Relabelling, part 4: the Python block extractor
-/
namespace CL

variable {f : Nat → Nat}

/-- the line-splitting states reached on the original and on the relabelled tokens -/
def LineSt.Rel (f : Nat → Nat) (a b : LineSt) : Prop :=
  b.done = a.done ∧ b.cur = a.cur ∧ b.cont = a.cont ∧ (a.cur ≠ [] → b.lineNr = f a.lineNr)

theorem tokenLinesStep_rel (hf : StrictMonoN f) {a b : LineSt} (h : LineSt.Rel f a b) (i : Nat) (t : Tok) :
    LineSt.Rel f (tokenLinesStep a i t) (tokenLinesStep b i (t.rl f)) := by
  obtain ⟨ad, ac, acont, aln⟩ := a
  obtain ⟨bd, bc, bcont, bln⟩ := b
  obtain ⟨h1, h2, h3, h4⟩ := h
  simp only at h1 h2 h3 h4
  subst h1 h2 h3
  unfold tokenLinesStep
  cases bc with
  | nil => simp [LineSt.Rel]
  | cons c cs =>
    have h4' : bln = f aln := h4 (by simp)
    subst h4'
    cases bcont with
    | true =>
      simp only [List.isEmpty_cons, Bool.false_eq_true, ↓reduceIte, Tok.rl_line, Tok.rl_val,
        Tok.rl_isString, beq_self_eq_true]
      simp [LineSt.Rel]
    | false =>
      simp only [List.isEmpty_cons, Bool.false_eq_true, ↓reduceIte, Tok.rl_line, Tok.rl_val,
        Tok.rl_isString, hf.beq]
      by_cases hl : (t.line == aln) = true
      · simp [hl, LineSt.Rel]
      · simp [hl, LineSt.Rel]

theorem tokenLines_fold_rel (hf : StrictMonoN f) (l : List (Tok × Nat)) {a b : LineSt}
    (h : LineSt.Rel f a b) :
    LineSt.Rel f (l.foldl (fun st (p : Tok × Nat) => tokenLinesStep st p.2 p.1) a)
      ((l.map (Prod.map (Tok.rl f) id)).foldl (fun st (p : Tok × Nat) => tokenLinesStep st p.2 p.1) b) := by
  induction l generalizing a b with
  | nil => exact h
  | cons p l ih =>
    simp only [List.map_cons, List.foldl_cons]
    exact ih (tokenLinesStep_rel hf h p.2 p.1)

theorem tokenLines_relabel (hf : StrictMonoN f) (toks : List Tok) :
    tokenLines (relabel f toks) = tokenLines toks := by
  unfold tokenLines
  have h := tokenLines_fold_rel hf toks.zipIdx (a := ⟨[], [], false, 0⟩) (b := ⟨[], [], false, 0⟩)
    ⟨rfl, rfl, rfl, fun h => absurd rfl h⟩
  simp only [relabel, List.zipIdx_map]
  obtain ⟨h1, h2, -, -⟩ := h
  simp only [h1, h2]

theorem lineHead_relabel (f : Nat → Nat) (toks : List Tok) (l : List Nat) :
    lineHead (relabel f toks) l = (lineHead toks l).map (Tok.rl f) := by
  cases l with
  | nil => rfl
  | cons i _ => exact getE_relabel f toks i

theorem lineIndentation_relabel (f : Nat → Nat) (toks : List Tok) (lines : List (List Nat)) (i : Nat) :
    lineIndentation (relabel f toks) lines i = lineIndentation toks lines i := by
  unfold lineIndentation
  generalize List.find? _ lines = o
  rcases o with _ | l
  · simp only [getE_relabel, bind, Except.bind]
    rcases getE toks i with e | t <;> rfl
  · simp only [lineHead_relabel, bind, Except.bind]
    rcases lineHead toks l with e | t <;> rfl

theorem blockLineIndices_relabel (hf : StrictMonoN f) (toks : List Tok) (hl hi : Nat)
    (rev : List (List Nat × Nat)) (acc : List Nat) :
    blockLineIndices (relabel f toks) (f hl) hi rev acc = blockLineIndices toks hl hi rev acc := by
  induction rev generalizing acc with
  | nil => rfl
  | cons p rest ih =>
    obtain ⟨l, li⟩ := p
    simp only [blockLineIndices, lineHead_relabel]
    rcases lineHead toks l with e | t
    · rfl
    · simp only [Except.map_ok', Tok.rl_line, Tok.rl_col, hf.le_iff, ih]

theorem tokIndex_relabel (hf : StrictMonoN f) (toks : List Tok) (x : Tok) :
    tokIndex (relabel f toks) (x.rl f) = tokIndex toks x := by
  unfold tokIndex
  simp only [relabel, List.findIdx?_map]
  have : ((fun t : Tok => t.line == (x.rl f).line && t.col == (x.rl f).col && t.ty == (x.rl f).ty &&
      t.val == (x.rl f).val) ∘ Tok.rl f) =
      (fun t : Tok => t.line == x.line && t.col == x.col && t.ty == x.ty && t.val == x.val) := by
    funext t
    simp only [Function.comp, Tok.rl_line, Tok.rl_col, Tok.rl_ty, Tok.rl_val, hf.beq]
  rw [this]

theorem pyBlockOf_relabel (hf : StrictMonoN f) (toks : List Tok) (lines : List (List Nat)) (h : Header) :
    pyBlockOf (relabel f toks) lines (h.rl f) = pyBlockOf toks lines h := by
  unfold pyBlockOf
  simp only [relabel_length, Header.rl_rng, getE_relabel, lineIndentation_relabel, bind, Except.bind,
    pure, Except.pure]
  by_cases hlen : h.rng.e ≥ toks.length
  · simp only [hlen, ↓reduceIte]
  · simp only [hlen, ↓reduceIte]
    rcases getE toks h.rng.e with e | after
    · rfl
    · simp only [Except.map_ok']
      rcases getE toks h.rng.s with e | first
      · rfl
      · simp only [Except.map_ok']
        rcases lineIndentation toks lines h.rng.s with e | ind
        · rfl
        · simp only [Tok.rl_line, blockLineIndices_relabel hf]
          rcases blockLineIndices toks after.line ind lines.zipIdx.reverse [] with e | idxs
          · rfl
          · dsimp only
            by_cases hemp : idxs.isEmpty = true
            · simp only [hemp, ↓reduceIte]
            · simp only [hemp, Bool.false_eq_true, ↓reduceIte]
              generalize (idxs.reverse.flatMap fun li => lines[li]?.getD []) = scopeIdx
              rcases scopeIdx.head? with _ | a
              · rfl
              · rcases scopeIdx.getLast? with _ | b
                · rfl
                · dsimp only
                  rcases getE toks a with e | ta
                  · rfl
                  · rcases getE toks b with e | tb
                    · rfl
                    · simp only [Except.map_ok', tokIndex_relabel hf]

theorem pyBlocksRev_relabel (hf : StrictMonoN f) (toks : List Tok) (lines : List (List Nat))
    (hs : List Header) :
    pyBlocksRev (relabel f toks) lines (hs.map (Header.rl f)) = pyBlocksRev toks lines hs := by
  induction hs with
  | nil => rfl
  | cons h hs ih => simp only [List.map_cons, pyBlocksRev, pyBlockOf_relabel hf, ih]

theorem pyBlocks_relabel (hf : StrictMonoN f) (toks : List Tok) (hs : List Header) :
    pyBlocks (relabel f toks) (hs.map (Header.rl f)) = pyBlocks toks hs := by
  unfold pyBlocks
  rw [tokenLines_relabel hf, ← List.map_reverse, pyBlocksRev_relabel hf]

theorem extractBlocks_relabel (hf : StrictMonoN f) (L : Language) (toks : List Tok) (hs : List Header) :
    extractBlocks L (relabel f toks) (hs.map (Header.rl f)) = extractBlocks L toks hs := by
  unfold extractBlocks
  rw [pyBlocks_relabel hf, getBlocks_relabel hf]

end CL
