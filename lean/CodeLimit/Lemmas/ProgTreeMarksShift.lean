import CodeLimit.Lemmas.ProgTreeMarksSim
import CodeLimit.Lemmas.RelabelScopes
/-!
# Moving the lines of a comment-free forest (C04 on trees)

If `q'` is `q` with every line `l` moved to `φ l` (`Prog.movedTo`, `φ` strictly monotone), then

* `q'` has the same shape, kinds and texts (`sim_of_movedTo`), so all structural conditions carry over;
* dissolving corresponding functions gives corresponding forests (`movedTo_dissolve`);
* the tree reports correspond entry by entry: same names and lengths, start and end lines mapped by
  `φ` (`treeReport_movedTo`, `treeReportFlat_movedTo`).
-/
namespace CL.Marks

/-! ## pointwise related lists -/

theorem listRel_cons {α : Type} {R : α → α → Bool} {a b : α} {as bs : List α} :
    listRel R (a :: as) (b :: bs) = true ↔ R a b = true ∧ listRel R as bs = true := by
  simp only [listRel, Bool.and_eq_true]

theorem listRel_nil_left {α : Type} {R : α → α → Bool} {bs : List α}
    (h : listRel R [] bs = true) : bs = [] := by
  cases bs with
  | nil => rfl
  | cons => simp [listRel] at h

theorem listRel_append {α : Type} {R : α → α → Bool} : ∀ {a b c d : List α},
    listRel R a b = true → listRel R c d = true → listRel R (a ++ c) (b ++ d) = true
  | [], b, _, _, h1, h2 => by rw [listRel_nil_left h1]; exact h2
  | x :: a, [], _, _, h1, _ => by simp [listRel] at h1
  | x :: a, y :: b, _, _, h1, h2 => by
    rw [listRel_cons] at h1
    simp only [List.cons_append, listRel_cons]
    exact ⟨h1.1, listRel_append h1.2 h2⟩

theorem listRel_length {α : Type} {R : α → α → Bool} : ∀ {a b : List α},
    listRel R a b = true → a.length = b.length
  | [], b, h => by rw [listRel_nil_left h]
  | x :: a, [], h => by simp [listRel] at h
  | x :: a, y :: b, h => by
    rw [listRel_cons] at h
    simp only [List.length_cons, listRel_length h.2]

theorem listRel_getD {α : Type} {R : α → α → Bool} (d : α) : ∀ {a b : List α} (k : Nat),
    listRel R a b = true → k < a.length → R (a.getD k d) (b.getD k d) = true
  | [], _, _, _, hk => by cases hk
  | x :: a, [], _, h, _ => by simp [listRel] at h
  | x :: a, y :: b, 0, h, _ => (listRel_cons.mp h).1
  | x :: a, y :: b, k + 1, h, hk => by
    simp only [List.getD_cons_succ]
    exact listRel_getD d k (listRel_cons.mp h).2 (by simpa using hk)

theorem listRel_cons_left {α : Type} {R : α → α → Bool} {x : α} {a b : List α}
    (h : listRel R (x :: a) b = true) : ∃ y b', b = y :: b' ∧ R x y = true ∧ listRel R a b' = true := by
  cases b with
  | nil => simp [listRel] at h
  | cons y b' => exact ⟨y, b', rfl, (listRel_cons.mp h).1, (listRel_cons.mp h).2⟩

theorem movedBy_iff {φ : Nat → Nat} {a b : Tok} :
    Tok.movedBy φ a b = true ↔ a.kind = b.kind ∧ a.val = b.val ∧ b.line = φ a.line := by
  simp only [Tok.movedBy, Bool.and_eq_true, beq_iff_eq, and_assoc]

theorem lines_of_listRel {φ : Nat → Nat} : ∀ {a b : List Tok},
    listRel (Tok.movedBy φ) a b = true → b.map (·.line) = (a.map (·.line)).map φ
  | [], b, h => by rw [listRel_nil_left h]; rfl
  | x :: a, [], h => by simp [listRel] at h
  | x :: a, y :: b, h => by
    rw [listRel_cons] at h
    simp only [List.map_cons, lines_of_listRel h.2, (movedBy_iff.mp h.1).2.2]

theorem sameL_of_listRel {φ : Nat → Nat} : ∀ {a b : List Tok},
    listRel (Tok.movedBy φ) a b = true → SameL a b
  | [], b, h => by rw [listRel_nil_left h]; exact .nil
  | x :: a, [], h => by simp [listRel] at h
  | x :: a, y :: b, h => by
    rw [listRel_cons] at h
    exact .cons ⟨(movedBy_iff.mp h.1).1, (movedBy_iff.mp h.1).2.1⟩ (sameL_of_listRel h.2)

/-! ## forests of the same shape -/

section
variable {R : Tok → Tok → Bool}

/-- induction along two forests of the same shape -/
theorem sameUpTo_induction {motive : Prog Tok → Prog Tok → Prop}
    (nil : motive .nil .nil)
    (leaf : ∀ a b r r', R a b = true → r.sameUpTo R r' = true → motive r r' →
      motive (.leaf a r) (.leaf b r'))
    (group : ∀ op op' cl cl' i i' r r', R op op' = true → R cl cl' = true →
      i.sameUpTo R i' = true → r.sameUpTo R r' = true → motive i i' → motive r r' →
      motive (.group op cl i r) (.group op' cl' i' r'))
    (fn : ∀ h h' k g g' op op' cl cl' b b' r r', h.sameUpTo R h' = true → listRel R g g' = true →
      R op op' = true → R cl cl' = true → b.sameUpTo R b' = true → r.sameUpTo R r' = true →
      motive h h' → motive b b' → motive r r' →
      motive (.fn h k g op cl b r) (.fn h' k g' op' cl' b' r')) :
    ∀ (q q' : Prog Tok), q.sameUpTo R q' = true → motive q q'
  | .nil, .nil, _ => nil
  | .nil, .leaf .., h => by simp [Prog.sameUpTo] at h
  | .nil, .group .., h => by simp [Prog.sameUpTo] at h
  | .nil, .fn .., h => by simp [Prog.sameUpTo] at h
  | .leaf a r, .leaf b r', h => by
    simp only [Prog.sameUpTo, Bool.and_eq_true] at h
    exact leaf a b r r' h.1 h.2 (sameUpTo_induction nil leaf group fn r r' h.2)
  | .leaf .., .nil, h => by simp [Prog.sameUpTo] at h
  | .leaf .., .group .., h => by simp [Prog.sameUpTo] at h
  | .leaf .., .fn .., h => by simp [Prog.sameUpTo] at h
  | .group op cl i r, .group op' cl' i' r', h => by
    simp only [Prog.sameUpTo, Bool.and_eq_true] at h
    exact group op op' cl cl' i i' r r' h.1.1.1 h.1.1.2 h.1.2 h.2
      (sameUpTo_induction nil leaf group fn i i' h.1.2)
      (sameUpTo_induction nil leaf group fn r r' h.2)
  | .group .., .nil, h => by simp [Prog.sameUpTo] at h
  | .group .., .leaf .., h => by simp [Prog.sameUpTo] at h
  | .group .., .fn .., h => by simp [Prog.sameUpTo] at h
  | .fn hd k g op cl b r, .fn hd' k' g' op' cl' b' r', h => by
    simp only [Prog.sameUpTo, Bool.and_eq_true, beq_iff_eq] at h
    obtain ⟨⟨⟨⟨⟨⟨h1, h2⟩, h3⟩, h4⟩, h5⟩, h6⟩, h7⟩ := h
    subst h2
    exact fn hd hd' k g g' op op' cl cl' b b' r r' h1 h3 h4 h5 h6 h7
      (sameUpTo_induction nil leaf group fn hd hd' h1)
      (sameUpTo_induction nil leaf group fn b b' h6)
      (sameUpTo_induction nil leaf group fn r r' h7)
  | .fn .., .nil, h => by simp [Prog.sameUpTo] at h
  | .fn .., .leaf .., h => by simp [Prog.sameUpTo] at h
  | .fn .., .group .., h => by simp [Prog.sameUpTo] at h

theorem sameUpTo_flat {q q' : Prog Tok} (h : q.sameUpTo R q' = true) :
    listRel R q.flat q'.flat = true := by
  refine sameUpTo_induction (motive := fun q q' => listRel R q.flat q'.flat = true)
    rfl ?_ ?_ ?_ q q' h
  · intro a b r r' hab _ ih
    exact listRel_cons.mpr ⟨hab, ih⟩
  · intro op op' cl cl' i i' r r' hop hcl _ _ ih1 ih2
    exact listRel_cons.mpr ⟨hop, listRel_append ih1 (listRel_cons.mpr ⟨hcl, ih2⟩)⟩
  · intro hd hd' k g g' op op' cl cl' b b' r r' _ hg hop hcl _ _ ih1 ih2 ih3
    exact listRel_append ih1 (listRel_append hg
      (listRel_cons.mpr ⟨hop, listRel_append ih2 (listRel_cons.mpr ⟨hcl, ih3⟩)⟩))

theorem sameUpTo_own {q q' : Prog Tok} (h : q.sameUpTo R q' = true) :
    listRel R q.own q'.own = true := by
  refine sameUpTo_induction (motive := fun q q' => listRel R q.own q'.own = true)
    rfl ?_ ?_ ?_ q q' h
  · intro a b r r' hab _ ih
    exact listRel_cons.mpr ⟨hab, ih⟩
  · intro op op' cl cl' i i' r r' hop hcl _ _ ih1 ih2
    exact listRel_cons.mpr ⟨hop, listRel_append ih1 (listRel_cons.mpr ⟨hcl, ih2⟩)⟩
  · intro hd hd' k g g' op op' cl cl' b b' r r' _ _ _ _ _ _ _ _ ih3
    exact ih3

theorem sameUpTo_append {a a' b b' : Prog Tok} (ha : a.sameUpTo R a' = true)
    (hb : b.sameUpTo R b' = true) : (a.followedBy b).sameUpTo R (a'.followedBy b') = true := by
  refine sameUpTo_induction
    (motive := fun a a' => (a.followedBy b).sameUpTo R (a'.followedBy b') = true) hb ?_ ?_ ?_ a a' ha
  · intro x y r r' hxy _ ih
    simp only [Prog.followedBy, Prog.sameUpTo, Bool.and_eq_true]
    exact ⟨hxy, ih⟩
  · intro op op' cl cl' i i' r r' hop hcl hi _ _ ih2
    simp only [Prog.followedBy, Prog.sameUpTo, Bool.and_eq_true]
    exact ⟨⟨⟨hop, hcl⟩, hi⟩, ih2⟩
  · intro hd hd' k g g' op op' cl cl' bd bd' r r' h1 hg hop hcl h6 _ _ _ ih3
    simp only [Prog.followedBy, Prog.sameUpTo, Bool.and_eq_true, beq_self_eq_true]
    exact ⟨⟨⟨⟨⟨⟨h1, trivial⟩, hg⟩, hop⟩, hcl⟩, h6⟩, ih3⟩

theorem sameUpTo_toks : ∀ {g g' : List Tok} {r r' : Prog Tok}, listRel R g g' = true →
    r.sameUpTo R r' = true → (Prog.toks g r).sameUpTo R (Prog.toks g' r') = true
  | [], g', _, _, h, hr => by rw [listRel_nil_left h]; exact hr
  | x :: g, [], _, _, h, _ => by simp [listRel] at h
  | x :: g, y :: g', _, _, h, hr => by
    rw [listRel_cons] at h
    simp only [Prog.toks_cons, Prog.sameUpTo, Bool.and_eq_true]
    exact ⟨h.1, sameUpTo_toks h.2 hr⟩

theorem sameUpTo_noFn {q q' : Prog Tok} (h : q.sameUpTo R q' = true) : q.noFn = q'.noFn := by
  refine sameUpTo_induction (motive := fun q q' => q.noFn = q'.noFn) rfl ?_ ?_ ?_ q q' h
  · intro a b r r' _ _ ih; exact ih
  · intro op op' cl cl' i i' r r' _ _ _ _ ih1 ih2; simp only [Prog.noFn, ih1, ih2]
  · intros; rfl

end

theorem eq_of_listRel_beq : ∀ {a b : List Tok}, listRel (fun x y => x == y) a b = true → a = b
  | [], b, h => (listRel_nil_left h).symm
  | x :: a, [], h => by simp [listRel] at h
  | x :: a, y :: b, h => by
    rw [listRel_cons] at h
    rw [eq_of_beq h.1, eq_of_listRel_beq h.2]

/-- forests of the same shape with equal tokens are equal (a decidable test for equality of two
concrete forests) -/
theorem eq_of_sameUpTo_beq {q q' : Prog Tok}
    (h : q.sameUpTo (fun a b => a == b) q' = true) : q = q' := by
  refine sameUpTo_induction (motive := fun q q' => q = q') rfl ?_ ?_ ?_ q q' h
  · intro a b r r' hab _ ih
    rw [eq_of_beq hab, ih]
  · intro op op' cl cl' i i' r r' hop hcl _ _ ih1 ih2
    rw [eq_of_beq hop, eq_of_beq hcl, ih1, ih2]
  · intro hd hd' k g g' op op' cl cl' b b' r r' _ hg hop hcl _ _ ih1 ih2 ih3
    rw [eq_of_beq hop, eq_of_beq hcl, ih1, ih2, ih3, eq_of_listRel_beq hg]

/-- a moved forest has the same shape, kinds and texts -/
theorem sim_of_movedTo {φ : Nat → Nat} {q q' : Prog Tok} (h : q.movedTo φ q' = true) :
    Prog.Sim q q' := by
  have same : ∀ {a b : Tok}, Tok.movedBy φ a b = true → Tok.Same a b :=
    fun hab => ⟨(movedBy_iff.mp hab).1, (movedBy_iff.mp hab).2.1⟩
  refine sameUpTo_induction (motive := fun q q' => Prog.Sim q q') .nil ?_ ?_ ?_ q q' h
  · intro a b r r' hab _ ih; exact .leaf (same hab) ih
  · intro op op' cl cl' i i' r r' hop hcl _ _ ih1 ih2
    exact .group (same hop) (same hcl) ih1 ih2
  · intro hd hd' k g g' op op' cl cl' b b' r r' _ hg hop hcl _ _ ih1 ih2 ih3
    exact .fn ih1 (sameL_of_listRel hg) (same hop) (same hcl) ih2 ih3

/-! ## dissolving corresponding functions -/

theorem movedTo_dissolve {φ : Nat → Nat} {ls ls' : List Nat} {q q' : Prog Tok}
    (h : q.movedTo φ q' = true) (hw : q.wfCore = true)
    (hm : ∀ t ∈ q.nameToks, ls'.contains (φ t.line) = ls.contains t.line) :
    (q.dissolve ls).movedTo φ (q'.dissolve ls') = true := by
  unfold Prog.movedTo at h ⊢
  refine sameUpTo_induction (R := Tok.movedBy φ)
    (motive := fun q q' => q.wfCore = true →
      (∀ t ∈ q.nameToks, ls'.contains (φ t.line) = ls.contains t.line) →
      (q.dissolve ls).sameUpTo (Tok.movedBy φ) (q'.dissolve ls') = true)
    (fun _ _ => rfl) ?_ ?_ ?_ q q' h hw hm
  · intro a b r r' hab _ ih hw hm
    simp only [Prog.wfCore, Bool.and_eq_true] at hw
    simp only [Prog.dissolve, Prog.sameUpTo, Bool.and_eq_true]
    exact ⟨hab, ih hw.2 hm⟩
  · intro op op' cl cl' i i' r r' hop hcl _ _ ih1 ih2 hw hm
    simp only [Prog.wfCore, Bool.and_eq_true] at hw
    simp only [Prog.nameToks, List.mem_append] at hm
    simp only [Prog.dissolve, Prog.sameUpTo, Bool.and_eq_true]
    exact ⟨⟨⟨hop, hcl⟩, ih1 hw.1.2 (fun t ht => hm t (.inl ht))⟩,
      ih2 hw.2 (fun t ht => hm t (.inr ht))⟩
  · intro hd hd' k g g' op op' cl cl' b b' r r' h1 hg hop hcl _ _ _ ih2 ih3 hw hm
    simp only [Prog.wfCore, Bool.and_eq_true, decide_eq_true_eq] at hw
    obtain ⟨⟨⟨⟨⟨⟨⟨⟨⟨hsl, hnf⟩, hwh⟩, hk⟩, hnm⟩, hgap⟩, hop1⟩, hcl1⟩, hwb⟩, hwr⟩ := hw
    simp only [Prog.nameToks, List.mem_cons, List.mem_append] at hm
    have ihb := ih2 hwb (fun t ht => hm t (.inr (.inl ht)))
    have ihr := ih3 hwr (fun t ht => hm t (.inr (.inr ht)))
    have hname := movedBy_iff.mp
      (listRel_getD default k (sameUpTo_flat h1) (by rw [Prog.size_eq]; exact hk))
    have hc : ls'.contains (hd'.flat.getD k default).line
        = ls.contains (hd.flat.getD k default).line := by
      rw [hname.2.2]; exact hm _ (.inl rfl)
    simp only [Prog.dissolve, hc]
    split
    · apply sameUpTo_append h1
      apply sameUpTo_toks hg
      simp only [Prog.sameUpTo, Bool.and_eq_true]
      exact ⟨⟨⟨hop, hcl⟩, ihb⟩, ihr⟩
    · simp only [Prog.sameUpTo, Bool.and_eq_true, beq_self_eq_true]
      exact ⟨⟨⟨⟨⟨⟨h1, trivial⟩, hg⟩, hop⟩, hcl⟩, ihb⟩, ihr⟩

/-! ## the tree reports correspond -/

theorem forall2_append {α β : Type} {R : α → β → Prop} : ∀ {a c : List α} {b d : List β},
    Forall2 R a b → Forall2 R c d → Forall2 R (a ++ c) (b ++ d)
  | _, _, _, _, .nil, h => h
  | _, _, _, _, .cons h t, h2 => .cons h (forall2_append t h2)

theorem forall2_iff_getElem {α β : Type} {R : α → β → Prop} : ∀ {a : List α} {b : List β},
    Forall2 R a b ↔ a.length = b.length ∧
      ∀ (i : Nat) (h : i < a.length) (h' : i < b.length), R a[i] b[i]
  | [], [] => ⟨fun _ => ⟨rfl, fun i h => absurd h (Nat.not_lt_zero i)⟩, fun _ => .nil⟩
  | [], _ :: _ => ⟨fun h => (nomatch h), fun h => absurd h.1 (by simp)⟩
  | _ :: _, [] => ⟨fun h => (nomatch h), fun h => absurd h.1 (by simp)⟩
  | x :: a, y :: b => by
    constructor
    · intro h
      cases h with
      | cons hxy ht =>
        obtain ⟨hl, hi⟩ := forall2_iff_getElem.mp ht
        refine ⟨by simp only [List.length_cons, hl], fun i h h' => ?_⟩
        cases i with
        | zero => exact hxy
        | succ i => exact hi i (by simpa using h) (by simpa using h')
    · intro ⟨hl, hi⟩
      refine .cons (hi 0 (by simp) (by simp)) (forall2_iff_getElem.mpr ⟨by simpa using hl, ?_⟩)
      intro i h h'
      exact hi (i + 1) (by simpa using h) (by simpa using h')

theorem monoOn_inj {φ : Nat → Nat} {S : List Nat} (h : MonoOn φ S) {a b : Nat} (ha : a ∈ S)
    (hb : b ∈ S) (he : φ a = φ b) : a = b := by
  rcases Nat.lt_trichotomy a b with h1 | h1 | h1
  · have := h a ha b hb h1; omega
  · exact h1
  · have := h b hb a ha h1; omega

theorem eraseDups_map_injOn {f : Nat → Nat} (l : List Nat)
    (hf : ∀ a ∈ l, ∀ b ∈ l, f a = f b → a = b) :
    (l.map f).eraseDups = l.eraseDups.map f := by
  generalize hn : l.length = n
  induction n using Nat.strongRecOn generalizing l with
  | _ n ih =>
    cases l with
    | nil => rfl
    | cons a as =>
      rw [List.map_cons, List.eraseDups_cons, List.eraseDups_cons, List.map_cons, List.filter_map]
      congr 1
      have hlen : (as.filter fun b => !b == a).length < n := by
        have := List.length_filter_le (fun b => !b == a) as
        simp at hn; omega
      have hsub : ∀ x ∈ as.filter (fun b => !b == a), x ∈ a :: as :=
        fun x hx => List.mem_cons_of_mem _ (List.mem_filter.mp hx).1
      rw [← ih _ hlen _ (fun x hx y hy => hf x (hsub x hx) y (hsub y hy)) rfl]
      congr 2
      apply List.filter_congr
      intro b hb
      simp only [Function.comp]
      congr 1
      rw [Bool.eq_iff_iff]
      simp only [beq_iff_eq]
      exact ⟨fun h => hf b (List.mem_cons_of_mem _ hb) a List.mem_cons_self h, fun h => by rw [h]⟩

theorem countDistinct_map_injOn {φ : Nat → Nat} {S : List Nat} (hφ : MonoOn φ S) (l : List Nat)
    (hl : ∀ x ∈ l, x ∈ S) : countDistinct (l.map φ) = countDistinct l := by
  unfold countDistinct
  rw [eraseDups_map_injOn l (fun a ha b hb he => monoOn_inj hφ (hl a ha) (hl b hb) he), List.length_map]

theorem mem_own_flat : ∀ {p : Prog Tok} {t : Tok}, t ∈ p.own → t ∈ p.flat
  | .nil, _, h => h
  | .leaf a r, t, h => by
    simp only [Prog.own, Prog.flat, List.mem_cons] at h ⊢
    exact h.imp id mem_own_flat
  | .group op cl i r, t, h => by
    simp only [Prog.own, Prog.flat, List.mem_cons, List.mem_append] at h ⊢
    rcases h with h | h | h | h
    · exact .inl h
    · exact .inr (.inl (mem_own_flat h))
    · exact .inr (.inr (.inl h))
    · exact .inr (.inr (.inr (mem_own_flat h)))
  | .fn hd k g op cl b r, t, h => by
    simp only [Prog.own, Prog.flat, List.mem_cons, List.mem_append] at h ⊢
    exact .inr (.inr (.inr (.inr (.inr (mem_own_flat h)))))

theorem endPos_L_close {t : Tok} (h : t.isSymbol [125] = true) :
    Tok.endPos_L t = (t.line, t.col + 1) := by
  simp only [Tok.isSymbol, Bool.and_eq_true, beq_iff_eq] at h
  unfold Tok.endPos_L
  rw [h.2]
  rfl

theorem node_movedBy {φ : Nat → Nat} {S : List Nat} (hφ : MonoOn φ S) {hd hd' : Prog Tok}
    {k : Nat} {cl cl' : Tok} {ts ts' : List Tok} (hS : ∀ t ∈ ts, t.line ∈ S)
    (hf : listRel (Tok.movedBy φ) hd.flat hd'.flat = true) (hk : k < hd.flat.length)
    (hne : hd.flat ≠ []) (hcl : Tok.movedBy φ cl cl' = true) (hs : cl.isSymbol [125] = true)
    (hts : listRel (Tok.movedBy φ) ts ts' = true) :
    Measurement.movedBy φ (nodeMeasurement hd k cl ts) (nodeMeasurement hd' k cl' ts') := by
  have hname := movedBy_iff.mp (listRel_getD default k hf hk)
  have hc := movedBy_iff.mp hcl
  have hs' : cl'.isSymbol [125] = true := by
    simp only [Tok.isSymbol, Bool.and_eq_true, beq_iff_eq] at hs ⊢
    rw [← hc.1, ← hc.2.1]; exact hs
  unfold Measurement.movedBy nodeMeasurement
  refine ⟨hname.2.1.symm, ?_, ?_, ?_⟩
  · rw [lines_of_listRel hts, countDistinct_map_injOn hφ]
    intro x hx
    obtain ⟨t, ht, rfl⟩ := List.mem_map.mp hx
    exact hS t ht
  · cases hfl : hd.flat with
    | nil => exact absurd hfl hne
    | cons x xs =>
      rw [hfl] at hf
      obtain ⟨y, ys, hy, hxy, _⟩ := listRel_cons_left hf
      simp only [hy, List.headD_cons]
      exact (movedBy_iff.mp hxy).2.2
  · simp only [endPos_L_close hs, endPos_L_close hs', hc.2.2]

theorem flat_ne_nil_of_startsWithLeaf {p : Prog Tok} (h : p.startsWithLeaf = true) :
    p.flat ≠ [] := by
  cases p with
  | leaf t rest => simp [Prog.flat]
  | nil => cases h
  | group => cases h
  | fn => cases h

/-- **the tree report of a moved forest, languages with nested functions**: entry by entry the
same name and length, start and end line mapped by `φ` -/
theorem treeReport_movedTo {φ : Nat → Nat} {S : List Nat} (hφ : MonoOn φ S) {q q' : Prog Tok}
    (h : q.movedTo φ q' = true) (hw : q.wfCore = true) (hS : ∀ t ∈ q.flat, t.line ∈ S) :
    Forall2 (Measurement.movedBy φ) (treeReport q) (treeReport q') := by
  unfold Prog.movedTo at h
  refine sameUpTo_induction (R := Tok.movedBy φ)
    (motive := fun q q' => q.wfCore = true → (∀ t ∈ q.flat, t.line ∈ S) →
      Forall2 (Measurement.movedBy φ) (treeReport q) (treeReport q'))
    (fun _ _ => .nil) ?_ ?_ ?_ q q' h hw hS
  · intro a b r r' _ _ ih hw hS
    simp only [Prog.wfCore, Bool.and_eq_true] at hw
    simp only [Prog.flat, List.mem_cons] at hS
    exact ih hw.2 (fun t ht => hS t (.inr ht))
  · intro op op' cl cl' i i' r r' _ _ _ _ ih1 ih2 hw hS
    simp only [Prog.wfCore, Bool.and_eq_true] at hw
    simp only [Prog.flat, List.mem_cons, List.mem_append] at hS
    exact forall2_append (ih1 hw.1.2 (fun t ht => hS t (.inr (.inl ht))))
      (ih2 hw.2 (fun t ht => hS t (.inr (.inr (.inr ht)))))
  · intro hd hd' k g g' op op' cl cl' b b' r r' h1 hg hop hcl h6 _ _ ih2 ih3 hw hS
    simp only [Prog.wfCore, Bool.and_eq_true, decide_eq_true_eq] at hw
    obtain ⟨⟨⟨⟨⟨⟨⟨⟨⟨hsl, hnf⟩, hwh⟩, hk⟩, hnm⟩, hgap⟩, hop1⟩, hcl1⟩, hwb⟩, hwr⟩ := hw
    simp only [Prog.flat, List.mem_cons, List.mem_append] at hS
    refine .cons ?_ (forall2_append
      (ih2 hwb (fun t ht => hS t (.inr (.inr (.inr (.inl ht))))))
      (ih3 hwr (fun t ht => hS t (.inr (.inr (.inr (.inr (.inr ht))))))))
    apply node_movedBy hφ ?_ (sameUpTo_flat h1) (by rw [Prog.size_eq]; exact hk)
      (flat_ne_nil_of_startsWithLeaf hsl) hcl hcl1
    · unfold ownToks
      exact listRel_append (sameUpTo_flat h1) (listRel_append hg (listRel_cons.mpr ⟨hop,
        listRel_append (sameUpTo_own h6) (listRel_cons.mpr ⟨hcl, rfl⟩)⟩))
    · intro t ht
      simp only [ownToks, List.mem_append, List.mem_cons, List.not_mem_nil, or_false] at ht
      rcases ht with ht | ht | ht | ht | ht
      · exact hS t (.inl ht)
      · exact hS t (.inr (.inl ht))
      · exact hS t (.inr (.inr (.inl ht)))
      · exact hS t (.inr (.inr (.inr (.inl (mem_own_flat ht)))))
      · exact hS t (.inr (.inr (.inr (.inr (.inl ht)))))

/-- **the same for languages without nested functions** -/
theorem treeReportFlat_movedTo {φ : Nat → Nat} {S : List Nat} (hφ : MonoOn φ S) {q q' : Prog Tok}
    (h : q.movedTo φ q' = true) (hw : q.wfCore = true) (hS : ∀ t ∈ q.flat, t.line ∈ S) :
    Forall2 (Measurement.movedBy φ) (treeReportFlat q) (treeReportFlat q') := by
  unfold Prog.movedTo at h
  refine sameUpTo_induction (R := Tok.movedBy φ)
    (motive := fun q q' => q.wfCore = true → (∀ t ∈ q.flat, t.line ∈ S) →
      Forall2 (Measurement.movedBy φ) (treeReportFlat q) (treeReportFlat q'))
    (fun _ _ => .nil) ?_ ?_ ?_ q q' h hw hS
  · intro a b r r' _ _ ih hw hS
    simp only [Prog.wfCore, Bool.and_eq_true] at hw
    simp only [Prog.flat, List.mem_cons] at hS
    exact ih hw.2 (fun t ht => hS t (.inr ht))
  · intro op op' cl cl' i i' r r' _ _ _ _ ih1 ih2 hw hS
    simp only [Prog.wfCore, Bool.and_eq_true] at hw
    simp only [Prog.flat, List.mem_cons, List.mem_append] at hS
    exact forall2_append (ih1 hw.1.2 (fun t ht => hS t (.inr (.inl ht))))
      (ih2 hw.2 (fun t ht => hS t (.inr (.inr (.inr ht)))))
  · intro hd hd' k g g' op op' cl cl' b b' r r' h1 hg hop hcl h6 _ _ _ ih3 hw hS
    simp only [Prog.wfCore, Bool.and_eq_true, decide_eq_true_eq] at hw
    obtain ⟨⟨⟨⟨⟨⟨⟨⟨⟨hsl, hnf⟩, hwh⟩, hk⟩, hnm⟩, hgap⟩, hop1⟩, hcl1⟩, hwb⟩, hwr⟩ := hw
    simp only [Prog.flat, List.mem_cons, List.mem_append] at hS
    refine .cons ?_ (ih3 hwr (fun t ht => hS t (.inr (.inr (.inr (.inr (.inr ht)))))))
    apply node_movedBy hφ ?_ (sameUpTo_flat h1) (by rw [Prog.size_eq]; exact hk)
      (flat_ne_nil_of_startsWithLeaf hsl) hcl hcl1
    · unfold allToks
      exact listRel_append (sameUpTo_flat h1) (listRel_append hg (listRel_cons.mpr ⟨hop,
        listRel_append (sameUpTo_flat h6) (listRel_cons.mpr ⟨hcl, rfl⟩)⟩))
    · intro t ht
      simp only [allToks, List.mem_append, List.mem_cons, List.not_mem_nil, or_false] at ht
      rcases ht with ht | ht | ht | ht | ht
      · exact hS t (.inl ht)
      · exact hS t (.inr (.inl ht))
      · exact hS t (.inr (.inr (.inl ht)))
      · exact hS t (.inr (.inr (.inr (.inl ht))))
      · exact hS t (.inr (.inr (.inr (.inr (.inl ht)))))

end CL.Marks
