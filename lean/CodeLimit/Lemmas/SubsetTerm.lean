import Mathlib.Data.List.Sublists
import CodeLimit.Lemmas.SubsetSem
/-!
# Termination of the worklist subset construction: `dfaFuel` always suffices

Every state set on the stack is canonical (a sublist of `List.range N.next`), there are
`2 ^ N.next` of those, each is processed (marked) at most once and pushes at most
`N.edges.length` entries. The measure
`(2 ^ N.next - marked.length) * (N.edges.length + 1) + stack.length` decreases at every iteration.
-/
namespace CL

variable {α : Type}

theorem nodup_subset_length_le {β : Type} {l l' : List β} (hnd : l.Nodup) (hs : l ⊆ l') :
    l.length ≤ l'.length :=
  (List.subperm_of_subset hnd hs).length_le

/-- all canonical state sets -/
def univSets (N : Nfa α) : List (List Nat) := (List.range N.next).sublists

theorem univSets_length (N : Nfa α) : (univSets N).length = 2 ^ N.next := by
  simp [univSets, List.length_sublists]

theorem canon_mem_univSets (N : Nfa α) (l : List Nat) : canon N.next l ∈ univSets N := by
  unfold univSets canon
  rw [List.mem_sublists]
  exact List.filter_sublist

variable [DecidableEq α]

omit [DecidableEq α] in
theorem startSet_mem_univSets (N : Nfa α) : startSet N ∈ univSets N := canon_mem_univSets N _

theorem delta_mem_univSets (N : Nfa α) (T : List Nat) (a : α) : delta N T a ∈ univSets N :=
  canon_mem_univSets N _

/-- the letters occurring on edges -/
def edgeLabels (E : List (Edge α)) : List α :=
  E.filterMap (fun e => match e with | .sym _ a _ => some a | .eps _ _ => none)

theorem transitions_length_le (E : List (Edge α)) (T : List Nat) :
    (transitions E T).length ≤ E.length := by
  have h1 : transitions E T ⊆ edgeLabels E := by
    intro a ha
    obtain ⟨p, _, r, he⟩ := (mem_transitions E T a).1 ha
    unfold edgeLabels
    rw [List.mem_filterMap]
    exact ⟨_, he, rfl⟩
  have h2 := nodup_subset_length_le (nodup_transitions E T) h1
  have h3 : (edgeLabels E).length ≤ E.length := List.length_filterMap_le _ _
  omega

theorem dfaLoop_terminates (N : Nfa α) {ord : List α → List α} (hord : IsOrder ord)
    (fuel : Nat) :
    ∀ (st : List (DState × List Nat)) (marked : List (List Nat)) (D : Dfa α),
      marked.Nodup → (∀ T ∈ marked, T ∈ univSets N) → (∀ e ∈ st, e.2 ∈ univSets N) →
      (2 ^ N.next - marked.length) * (N.edges.length + 1) + st.length < fuel →
      ∃ D', dfaLoop N ord fuel st marked D = some D' := by
  induction fuel with
  | zero => intro st marked D _ _ _ h; omega
  | succ fuel ih =>
    intro st marked D hnd hmk hst hlt
    cases st with
    | nil => exact ⟨D, rfl⟩
    | cons e st =>
      obtain ⟨s, T⟩ := e
      have hst' : ∀ e ∈ st, e.2 ∈ univSets N := fun e he => hst e (List.mem_cons_of_mem _ he)
      have hstep : dfaLoop N ord (fuel + 1) ((s, T) :: st) marked D =
        if marked.contains T then dfaLoop N ord fuel st marked D
        else
          dfaLoop N ord fuel
            (((ord (transitions N.edges T)).map
                (fun p => (DState.set (delta N T p), delta N T p))).reverse ++ st)
            (T :: marked)
            { rows := (s, (ord (transitions N.edges T)).map
                        (fun p => (p, DState.set (delta N T p)))) :: D.rows,
              acc := if T.contains N.acc then s :: D.acc else D.acc } := rfl
      rw [hstep]
      by_cases hm : T ∈ marked
      · have hc : marked.contains T = true := by simpa using hm
        rw [hc, if_pos rfl]
        apply ih st marked D hnd hmk hst'
        simp only [List.length_cons] at hlt
        omega
      · have hc : marked.contains T = false := by simpa using hm
        rw [hc, if_neg (by simp)]
        have hT : T ∈ univSets N := hst (s, T) (by simp)
        have hnd' : (T :: marked).Nodup := List.nodup_cons.2 ⟨hm, hnd⟩
        have hmk' : ∀ T' ∈ T :: marked, T' ∈ univSets N := by
          intro T' hT'
          rcases List.mem_cons.1 hT' with rfl | hT'
          · exact hT
          · exact hmk T' hT'
        have hcard : (T :: marked).length ≤ 2 ^ N.next := by
          rw [← univSets_length N]
          exact nodup_subset_length_le hnd' hmk'
        apply ih _ _ _ hnd' hmk'
        · intro e he
          rcases List.mem_append.1 he with he | he
          · rw [List.mem_reverse, List.mem_map] at he
            obtain ⟨p, _, rfl⟩ := he
            exact delta_mem_univSets N T p
          · exact hst' e he
        · have hpush : (ord (transitions N.edges T)).length ≤ N.edges.length := by
            rw [(hord _).length_eq]
            exact transitions_length_le N.edges T
          simp only [List.length_cons, List.length_append, List.length_reverse,
            List.length_map] at hlt hcard ⊢
          have hsplit : (2 ^ N.next - marked.length) * (N.edges.length + 1)
              = (2 ^ N.next - (marked.length + 1)) * (N.edges.length + 1)
                + (N.edges.length + 1) := by
            have : 2 ^ N.next - marked.length = (2 ^ N.next - (marked.length + 1)) + 1 := by
              omega
            rw [this, Nat.succ_mul]
          rw [hsplit] at hlt
          generalize (2 ^ N.next - (marked.length + 1)) * (N.edges.length + 1) = X at hlt ⊢
          omega

/-- termination, for every NFA (well-formedness is not needed) -/
theorem nfaToDfa_terminates' (N : Nfa α) (ord : List α → List α) (hord : IsOrder ord) :
    ∃ D, nfaToDfa N ord = some D := by
  unfold nfaToDfa
  apply dfaLoop_terminates N hord
  · exact List.nodup_nil
  · intro T hT; cases hT
  · intro e he
    simp only [List.mem_singleton] at he
    subst he
    exact startSet_mem_univSets N
  · simp [dfaFuel]

/-- item 1: `dfaFuel N` always suffices -/
theorem nfaToDfa_terminates (N : Nfa α) (ord : List α → List α) (hord : IsOrder ord)
    (hN : N.WF) : ∃ D, nfaToDfa N ord = some D :=
  have _ := hN
  nfaToDfa_terminates' N ord hord

end CL
