import CodeLimit.Lemmas.Closure
import CodeLimit.Lemmas.NfaWF
/-!
# Correctness of the Thompson construction `build`/`compile` and of `nfaMatch`
-/
namespace CL

variable {α : Type}

/-! ## equations of `build` -/

theorem build_atom (a : α) (s n : Nat) : build (.atom a) s n = ⟨n, n + 1, [.sym s a n]⟩ := rfl

theorem build_cat (r1 r2 : Rx α) (s n : Nat) :
    build (.cat r1 r2) s n =
      ⟨(build r2 (build r1 s n).acc (build r1 s n).next).acc,
       (build r2 (build r1 s n).acc (build r1 s n).next).next,
       (build r1 s n).edges ++ (build r2 (build r1 s n).acc (build r1 s n).next).edges⟩ := rfl

theorem build_alt (r1 r2 : Rx α) (s n : Nat) :
    build (.alt r1 r2) s n =
      ⟨(build r2 (n + 1) (build r1 n (n + 2)).next).next,
       (build r2 (n + 1) (build r1 n (n + 2)).next).next + 1,
       [.eps s n, .eps s (n + 1),
        .eps (build r1 n (n + 2)).acc (build r2 (n + 1) (build r1 n (n + 2)).next).next,
        .eps (build r2 (n + 1) (build r1 n (n + 2)).next).acc
          (build r2 (n + 1) (build r1 n (n + 2)).next).next] ++
        ((build r1 n (n + 2)).edges ++ (build r2 (n + 1) (build r1 n (n + 2)).next).edges)⟩ := rfl

theorem build_opt (r : Rx α) (s n : Nat) :
    build (.opt r) s n =
      ⟨(build r n (n + 1)).next, (build r n (n + 1)).next + 1,
       [.eps s n, .eps s (build r n (n + 1)).next,
        .eps (build r n (n + 1)).acc (build r n (n + 1)).next] ++ (build r n (n + 1)).edges⟩ := rfl

theorem build_star (r : Rx α) (s n : Nat) :
    build (.star r) s n =
      ⟨(build r n (n + 1)).next, (build r n (n + 1)).next + 1,
       [.eps s n, .eps s (build r n (n + 1)).next, .eps (build r n (n + 1)).acc n,
        .eps (build r n (n + 1)).acc (build r n (n + 1)).next] ++ (build r n (n + 1)).edges⟩ := rfl

theorem build_plus (r : Rx α) (s n : Nat) :
    build (.plus r) s n =
      ⟨(build r n (n + 1)).next, (build r n (n + 1)).next + 1,
       [.eps s n, .eps (build r n (n + 1)).acc n,
        .eps (build r n (n + 1)).acc (build r n (n + 1)).next] ++ (build r n (n + 1)).edges⟩ := rfl

/-! ## structural invariants of fragments -/

/-- structural invariants of a fragment built at start `s` with fresh ids from `n` (`s < n`). -/
structure FragOk (s n : Nat) (f : Frag α) : Prop where
  next_gt : n < f.next
  acc_rng : n ≤ f.acc ∧ f.acc < f.next
  src_rng : ∀ e ∈ f.edges, e.src = s ∨ (n ≤ e.src ∧ e.src < f.next)
  dst_rng : ∀ e ∈ f.edges, n ≤ e.dst ∧ e.dst < f.next
  acc_out : ∀ e ∈ f.edges, e.src ≠ f.acc

theorem build_ok (r : Rx α) : ∀ s n, s < n → FragOk s n (build r s n) := by
  induction r with
  | atom a =>
    intro s n h
    refine ⟨by simp [build], by simp [build], ?_, ?_, ?_⟩ <;>
      intro e he <;> simp [build] at he <;> subst he <;> simp [Edge.src, Edge.dst, build] <;> omega
  | cat r1 r2 ih1 ih2 =>
    intro s n h
    have o1 := ih1 s n h
    have o2 := ih2 (build r1 s n).acc (build r1 s n).next o1.acc_rng.2
    refine ⟨?_, ?_, ?_, ?_, ?_⟩
    · have := o1.next_gt; have := o2.next_gt; simp [build]; omega
    · have := o1.next_gt; have := o2.acc_rng; simp [build]; omega
    · intro e he
      simp [build] at he
      rcases he with he | he
      · have := o1.src_rng e he; have := o2.next_gt; simp [build]; omega
      · have := o2.src_rng e he; have := o1.acc_rng; have := o1.next_gt; have := o2.next_gt; simp [build]; omega
    · intro e he
      simp [build] at he
      rcases he with he | he
      · have := o1.dst_rng e he; have := o2.next_gt; simp [build]; omega
      · have := o2.dst_rng e he; have := o1.next_gt; simp [build]; omega
    · intro e he
      simp [build] at he
      rcases he with he | he
      · have := o1.src_rng e he; have := o2.acc_rng; have := o1.next_gt; simp [build]; omega
      · exact o2.acc_out e he
  | alt r1 r2 ih1 ih2 =>
    intro s n h
    have o1 := ih1 n (n + 2) (by omega)
    have o2 := ih2 (n + 1) (build r1 n (n + 2)).next (by have := o1.next_gt; omega)
    have h1 := o1.next_gt; have h2 := o2.next_gt; have h3 := o1.acc_rng; have h4 := o2.acc_rng
    refine ⟨by simp [build]; omega, by simp [build]; omega, ?_, ?_, ?_⟩
    all_goals
      intro e he
      simp [build] at he
      rcases he with he | he | he | he | he | he
      all_goals first
        | (subst he; simp [Edge.src, Edge.dst, build] <;> omega)
        | (have a1 := o1.src_rng e he; have a2 := o1.dst_rng e he; have a3 := o1.acc_out e he
           simp [build]; omega)
        | (have a1 := o2.src_rng e he; have a2 := o2.dst_rng e he; have a3 := o2.acc_out e he
           simp [build]; omega)
  | opt r ih =>
    intro s n h
    have o := ih n (n + 1) (by omega)
    have h1 := o.next_gt; have h3 := o.acc_rng
    refine ⟨by simp [build]; omega, by simp [build]; omega, ?_, ?_, ?_⟩
    all_goals
      intro e he
      simp [build] at he
      rcases he with he | he | he | he
      all_goals first
        | (subst he; simp [Edge.src, Edge.dst, build] <;> omega)
        | (have a1 := o.src_rng e he; have a2 := o.dst_rng e he; have a3 := o.acc_out e he
           simp [build]; omega)
  | star r ih =>
    intro s n h
    have o := ih n (n + 1) (by omega)
    have h1 := o.next_gt; have h3 := o.acc_rng
    refine ⟨by simp [build]; omega, by simp [build]; omega, ?_, ?_, ?_⟩
    all_goals
      intro e he
      simp [build] at he
      rcases he with he | he | he | he | he
      all_goals first
        | (subst he; simp [Edge.src, Edge.dst, build] <;> omega)
        | (have a1 := o.src_rng e he; have a2 := o.dst_rng e he; have a3 := o.acc_out e he
           simp [build]; omega)
  | plus r ih =>
    intro s n h
    have o := ih n (n + 1) (by omega)
    have h1 := o.next_gt; have h3 := o.acc_rng
    refine ⟨by simp [build]; omega, by simp [build]; omega, ?_, ?_, ?_⟩
    all_goals
      intro e he
      simp [build] at he
      rcases he with he | he | he | he
      all_goals first
        | (subst he; simp [Edge.src, Edge.dst, build] <;> omega)
        | (have a1 := o.src_rng e he; have a2 := o.dst_rng e he; have a3 := o.acc_out e he
           simp [build]; omega)

theorem compile_wf (r : Rx α) (base : Nat) : (compile r base).WF := by
  have o := build_ok r base (base + 1) (by omega)
  have h1 := o.next_gt
  have h2 := o.acc_rng
  refine ⟨?_, ?_, ?_, ?_, ?_, ?_⟩
  · show base < (build r base (base + 1)).next; omega
  · exact h2.2
  · intro e he
    have := o.src_rng e he
    show e.src < (build r base (base + 1)).next; omega
  · intro e he
    exact (o.dst_rng e he).2
  · intro e he
    have := o.dst_rng e he
    show e.dst ≠ base; omega
  · intro e he
    exact o.acc_out e he

/-- all state ids of `compile r base` are `≥ base` -/
theorem compile_ge_base (r : Rx α) (base : Nat) :
    base ≤ (compile r base).start ∧ base ≤ (compile r base).acc ∧
      (∀ e ∈ (compile r base).edges, base ≤ e.src ∧ base ≤ e.dst) := by
  have o := build_ok r base (base + 1) (by omega)
  have h2 := o.acc_rng
  refine ⟨Nat.le_refl _, ?_, ?_⟩
  · show base ≤ (build r base (base + 1)).acc; omega
  · intro e he
    have := o.src_rng e he
    have := o.dst_rng e he
    omega

/-! ## counted paths -/

/-- paths with a step count -/
inductive PathN (E : List (Edge α)) : Nat → List α → Nat → Nat → Prop where
  | nil (q) : PathN E q [] q 0
  | eps {p q r w k} : Edge.eps p q ∈ E → PathN E q w r k → PathN E p w r (k + 1)
  | sym {p q r a w k} : Edge.sym p a q ∈ E → PathN E q w r k → PathN E p (a :: w) r (k + 1)

theorem PathN.toPath {E : List (Edge α)} {p w q k} : PathN E p w q k → Path E p w q := by
  intro h
  induction h with
  | nil q => exact .nil q
  | eps he _ ih => exact .eps he ih
  | sym he _ ih => exact .sym he ih

theorem Path.toPathN {E : List (Edge α)} {p w q} : Path E p w q → ∃ k, PathN E p w q k := by
  intro h
  induction h with
  | nil q => exact ⟨0, .nil q⟩
  | eps he _ ih => obtain ⟨k, hk⟩ := ih; exact ⟨k + 1, .eps he hk⟩
  | sym he _ ih => obtain ⟨k, hk⟩ := ih; exact ⟨k + 1, .sym he hk⟩

/-- inversion of a counted path (usable when the end points are not variables) -/
theorem PathN.inv {E : List (Edge α)} {p q w k} (h : PathN E p w q k) :
    (p = q ∧ w = [] ∧ k = 0) ∨
    (∃ p' k', k = k' + 1 ∧ Edge.eps p p' ∈ E ∧ PathN E p' w q k') ∨
    (∃ p' a w' k', k = k' + 1 ∧ w = a :: w' ∧ Edge.sym p a p' ∈ E ∧ PathN E p' w' q k') := by
  cases h with
  | nil => exact .inl ⟨rfl, rfl, rfl⟩
  | eps he hp => exact .inr (.inl ⟨_, _, rfl, he, hp⟩)
  | sym he hp => exact .inr (.inr ⟨_, _, _, _, rfl, rfl, he, hp⟩)

/-- a state without outgoing edges is a dead end -/
theorem PathN.stuck {E : List (Edge α)} {p q w k} (h : ∀ e ∈ E, e.src ≠ p) :
    PathN E p w q k → w = [] ∧ q = p := by
  intro hp
  cases hp with
  | nil => exact ⟨rfl, rfl⟩
  | eps he _ => exact absurd rfl (h _ he)
  | sym he _ => exact absurd rfl (h _ he)

/-- first-exit decomposition: a path that starts inside a region `P` whose edges (except
those leaving `m`) belong to `F` and stay in `P`, and that ends outside `P`, passes through `m`,
and the part up to the first visit of `m` uses only `F`. -/
theorem PathN.split {E F : List (Edge α)} {P : Nat → Prop} {m : Nat}
    (h1 : ∀ e ∈ E, P e.src → e.src ≠ m → e ∈ F ∧ P e.dst) {p w q k} :
    PathN E p w q k → P p → ¬ P q →
      ∃ u v k1 k2, w = u ++ v ∧ k = k1 + k2 ∧ PathN F p u m k1 ∧ PathN E m v q k2 := by
  intro hp
  induction hp with
  | nil q => intro a b; exact absurd a b
  | @eps p p' q w k he hp ih =>
    intro hP hQ
    by_cases hm : p = m
    · subst hm; exact ⟨[], w, 0, k + 1, rfl, by omega, .nil _, .eps he hp⟩
    · obtain ⟨hF, hd⟩ := h1 _ he hP hm
      obtain ⟨u, v, k1, k2, rfl, rfl, a, b⟩ := ih hd hQ
      exact ⟨u, v, k1 + 1, k2, rfl, by omega, .eps hF a, b⟩
  | @sym p p' q x w k he hp ih =>
    intro hP hQ
    by_cases hm : p = m
    · subst hm; exact ⟨[], x :: w, 0, k + 1, rfl, by omega, .nil _, .sym he hp⟩
    · obtain ⟨hF, hd⟩ := h1 _ he hP hm
      obtain ⟨u, v, k1, k2, rfl, rfl, a, b⟩ := ih hd hQ
      exact ⟨x :: u, v, k1 + 1, k2, rfl, by omega, .sym hF a, b⟩

/-- a path inside a closed region `Q` only uses the edges `F` of that region -/
theorem PathN.confine {E F : List (Edge α)} {Q : Nat → Prop}
    (h : ∀ e ∈ E, Q e.src → e ∈ F ∧ Q e.dst) {p w q k} :
    PathN E p w q k → Q p → PathN F p w q k := by
  intro hp
  induction hp with
  | nil q => intro _; exact .nil q
  | eps he _ ih => intro hQ; obtain ⟨a, b⟩ := h _ he hQ; exact .eps a (ih b)
  | sym he _ ih => intro hQ; obtain ⟨a, b⟩ := h _ he hQ; exact .sym a (ih b)

/-! ## soundness: every accepting run of a fragment spells a word of the language -/

/-- unfold `Edge.src`/`Edge.dst` of concrete edges everywhere, then `omega` -/
macro "edge_omega" : tactic =>
  `(tactic| (simp only [Edge.src, Edge.dst, true_or, or_true, true_and, and_true, ne_eq,
      not_true_eq_false, not_false_eq_true, false_or, or_false] at * <;> omega))

section sound
variable {r r1 r2 : Rx α}

theorem atom_sound {a : α} {s n k : Nat} {w : List α} (hs : s < n) :
    PathN [Edge.sym s a n] s w n k → Lang (.atom a) w := by
  intro hp
  have hst : ∀ e ∈ [Edge.sym s a n], e.src ≠ n := by
    intro e he; simp at he; subst he; simp [Edge.src]; omega
  cases hp with
  | nil => omega
  | eps he _ => simp at he
  | sym he hp' =>
    simp only [List.mem_cons, List.mem_nil_iff, or_false, Edge.sym.injEq] at he
    obtain ⟨-, rfl, rfl⟩ := he
    obtain ⟨rfl, -⟩ := hp'.stuck hst
    exact .atom _

theorem star_sound {f : Frag α} {s n : Nat} (hs : s < n) (o : FragOk n (n + 1) f)
    (ih : ∀ u k, PathN f.edges n u f.acc k → Lang r u) :
    ∀ k w, PathN ([.eps s n, .eps s f.next, .eps f.acc n, .eps f.acc f.next] ++ f.edges)
      s w f.next k → Lang (.star r) w := by
  have h1 := o.next_gt; have h3 := o.acc_rng
  -- facts about the edge list
  have eS : ∀ e ∈ ([.eps s n, .eps s f.next, .eps f.acc n, .eps f.acc f.next] ++ f.edges : List (Edge α)),
      e.src = s → e.dst = n ∨ e.dst = f.next := by
    intro e he hsrc
    simp only [List.mem_append, List.mem_cons, List.mem_nil_iff, or_false] at he
    rcases he with (rfl | rfl | rfl | rfl) | he
    all_goals first
      | (have a1 := o.src_rng e he; omega)
      | edge_omega
  have eA : ∀ e ∈ ([.eps s n, .eps s f.next, .eps f.acc n, .eps f.acc f.next] ++ f.edges : List (Edge α)),
      e.src = f.acc → (∃ q, e = .eps f.acc q) ∧ (e.dst = n ∨ e.dst = f.next) := by
    intro e he hsrc
    simp only [List.mem_append, List.mem_cons, List.mem_nil_iff, or_false] at he
    rcases he with (rfl | rfl | rfl | rfl) | he
    all_goals first
      | (have a1 := o.acc_out e he; omega)
      | edge_omega
      | (simp [Edge.dst]; done)
  have eI : ∀ e ∈ ([.eps s n, .eps s f.next, .eps f.acc n, .eps f.acc f.next] ++ f.edges : List (Edge α)),
      (n ≤ e.src ∧ e.src < f.next) → e.src ≠ f.acc → e ∈ f.edges ∧ (n ≤ e.dst ∧ e.dst < f.next) := by
    intro e he hsrc hna
    simp only [List.mem_append, List.mem_cons, List.mem_nil_iff, or_false] at he
    rcases he with (rfl | rfl | rfl | rfl) | he
    all_goals first
      | (have a1 := o.dst_rng e he; exact ⟨he, by omega⟩)
      | edge_omega
  have eN : ∀ e ∈ ([.eps s n, .eps s f.next, .eps f.acc n, .eps f.acc f.next] ++ f.edges : List (Edge α)),
      e.src ≠ f.next := by
    intro e he
    simp only [List.mem_append, List.mem_cons, List.mem_nil_iff, or_false] at he
    rcases he with (rfl | rfl | rfl | rfl) | he
    all_goals first
      | (have a1 := o.src_rng e he; omega)
      | edge_omega
  -- the loop: paths from `n`
  have loop : ∀ k w, PathN ([.eps s n, .eps s f.next, .eps f.acc n, .eps f.acc f.next] ++ f.edges)
      n w f.next k → Lang (.star r) w := by
    intro k
    induction k using Nat.strongRecOn with
    | _ k IH =>
      intro w hp
      obtain ⟨u, v, k1, k2, rfl, rfl, p1, p2⟩ :=
        PathN.split (P := fun x => n ≤ x ∧ x < f.next) (m := f.acc) eI hp (by omega) (by omega)
      have hu := ih u k1 p1
      have hk1 : k1 ≠ 0 := by
        intro h0; subst h0
        rcases p1.inv with ⟨h, -⟩ | ⟨_, _, h, -⟩ | ⟨_, _, _, _, h, -⟩ <;> omega
      rcases p2.inv with ⟨h, -⟩ | ⟨q, k2, rfl, he, hp'⟩ | ⟨q, _, _, _, -, -, he, -⟩
      · omega
      · obtain ⟨-, hq⟩ := eA _ he rfl
        simp only [Edge.dst] at hq
        rcases hq with rfl | rfl
        · exact .starCons hu (IH k2 (by omega) v hp')
        · obtain ⟨rfl, -⟩ := hp'.stuck eN
          exact .starCons hu .starNil
      · obtain ⟨⟨q, hq⟩, -⟩ := eA _ he rfl; cases hq
  intro k w hp
  rcases hp.inv with ⟨h, -⟩ | ⟨q, k2, rfl, he, hp'⟩ | ⟨q, _, _, _, -, -, he, -⟩
  · omega
  · have hq := eS _ he rfl
    simp only [Edge.dst] at hq
    rcases hq with rfl | rfl
    · exact loop _ _ hp'
    · obtain ⟨rfl, -⟩ := hp'.stuck eN
      exact .starNil
  · exfalso
    simp only [List.mem_append, List.mem_cons, List.mem_nil_iff, or_false, reduceCtorEq, false_or] at he
    have := o.src_rng _ he
    simp only [Edge.src] at this; omega

theorem plus_sound {f : Frag α} {s n : Nat} (hs : s < n) (o : FragOk n (n + 1) f)
    (ih : ∀ u k, PathN f.edges n u f.acc k → Lang r u) :
    ∀ k w, PathN ([.eps s n, .eps f.acc n, .eps f.acc f.next] ++ f.edges)
      s w f.next k → Lang (.plus r) w := by
  have h1 := o.next_gt; have h3 := o.acc_rng
  have eS : ∀ e ∈ ([.eps s n, .eps f.acc n, .eps f.acc f.next] ++ f.edges : List (Edge α)),
      e.src = s → (∃ q, e = .eps s q) ∧ e.dst = n := by
    intro e he hsrc
    simp only [List.mem_append, List.mem_cons, List.mem_nil_iff, or_false] at he
    rcases he with (rfl | rfl | rfl) | he
    all_goals first
      | (have a1 := o.src_rng e he; omega)
      | edge_omega
      | (simp [Edge.dst]; done)
  have eA : ∀ e ∈ ([.eps s n, .eps f.acc n, .eps f.acc f.next] ++ f.edges : List (Edge α)),
      e.src = f.acc → (∃ q, e = .eps f.acc q) ∧ (e.dst = n ∨ e.dst = f.next) := by
    intro e he hsrc
    simp only [List.mem_append, List.mem_cons, List.mem_nil_iff, or_false] at he
    rcases he with (rfl | rfl | rfl) | he
    all_goals first
      | (have a1 := o.acc_out e he; omega)
      | edge_omega
      | (simp [Edge.dst]; done)
  have eI : ∀ e ∈ ([.eps s n, .eps f.acc n, .eps f.acc f.next] ++ f.edges : List (Edge α)),
      (n ≤ e.src ∧ e.src < f.next) → e.src ≠ f.acc → e ∈ f.edges ∧ (n ≤ e.dst ∧ e.dst < f.next) := by
    intro e he hsrc hna
    simp only [List.mem_append, List.mem_cons, List.mem_nil_iff, or_false] at he
    rcases he with (rfl | rfl | rfl) | he
    all_goals first
      | (have a1 := o.dst_rng e he; exact ⟨he, by omega⟩)
      | edge_omega
  have eN : ∀ e ∈ ([.eps s n, .eps f.acc n, .eps f.acc f.next] ++ f.edges : List (Edge α)),
      e.src ≠ f.next := by
    intro e he
    simp only [List.mem_append, List.mem_cons, List.mem_nil_iff, or_false] at he
    rcases he with (rfl | rfl | rfl) | he
    all_goals first
      | (have a1 := o.src_rng e he; omega)
      | edge_omega
  have loop : ∀ k w, PathN ([.eps s n, .eps f.acc n, .eps f.acc f.next] ++ f.edges)
      n w f.next k → Lang (.plus r) w := by
    intro k
    induction k using Nat.strongRecOn with
    | _ k IH =>
      intro w hp
      obtain ⟨u, v, k1, k2, rfl, rfl, p1, p2⟩ :=
        PathN.split (P := fun x => n ≤ x ∧ x < f.next) (m := f.acc) eI hp (by omega) (by omega)
      have hu := ih u k1 p1
      have hk1 : k1 ≠ 0 := by
        intro h0; subst h0
        rcases p1.inv with ⟨h, -⟩ | ⟨_, _, h, -⟩ | ⟨_, _, _, _, h, -⟩ <;> omega
      rcases p2.inv with ⟨h, -⟩ | ⟨q, k2, rfl, he, hp'⟩ | ⟨q, _, _, _, -, -, he, -⟩
      · omega
      · obtain ⟨-, hq⟩ := eA _ he rfl
        simp only [Edge.dst] at hq
        rcases hq with rfl | rfl
        · exact .plusCons hu (IH k2 (by omega) v hp')
        · obtain ⟨rfl, -⟩ := hp'.stuck eN
          rw [List.append_nil]; exact .plusOne hu
      · obtain ⟨⟨q, hq⟩, -⟩ := eA _ he rfl; cases hq
  intro k w hp
  rcases hp.inv with ⟨h, -⟩ | ⟨q, k2, rfl, he, hp'⟩ | ⟨q, _, _, _, -, -, he, -⟩
  · omega
  · obtain ⟨-, hq⟩ := eS _ he rfl
    simp only [Edge.dst] at hq
    subst hq
    exact loop _ _ hp'
  · obtain ⟨⟨q, hq⟩, -⟩ := eS _ he rfl; cases hq

theorem opt_sound {f : Frag α} {s n : Nat} (hs : s < n) (o : FragOk n (n + 1) f)
    (ih : ∀ u k, PathN f.edges n u f.acc k → Lang r u) :
    ∀ k w, PathN ([.eps s n, .eps s f.next, .eps f.acc f.next] ++ f.edges)
      s w f.next k → Lang (.opt r) w := by
  have h1 := o.next_gt; have h3 := o.acc_rng
  have eS : ∀ e ∈ ([.eps s n, .eps s f.next, .eps f.acc f.next] ++ f.edges : List (Edge α)),
      e.src = s → (∃ q, e = .eps s q) ∧ (e.dst = n ∨ e.dst = f.next) := by
    intro e he hsrc
    simp only [List.mem_append, List.mem_cons, List.mem_nil_iff, or_false] at he
    rcases he with (rfl | rfl | rfl) | he
    all_goals first
      | (have a1 := o.src_rng e he; omega)
      | edge_omega
      | (simp [Edge.dst]; done)
  have eA : ∀ e ∈ ([.eps s n, .eps s f.next, .eps f.acc f.next] ++ f.edges : List (Edge α)),
      e.src = f.acc → (∃ q, e = .eps f.acc q) ∧ e.dst = f.next := by
    intro e he hsrc
    simp only [List.mem_append, List.mem_cons, List.mem_nil_iff, or_false] at he
    rcases he with (rfl | rfl | rfl) | he
    all_goals first
      | (have a1 := o.acc_out e he; omega)
      | edge_omega
      | (simp [Edge.dst]; done)
  have eI : ∀ e ∈ ([.eps s n, .eps s f.next, .eps f.acc f.next] ++ f.edges : List (Edge α)),
      (n ≤ e.src ∧ e.src < f.next) → e.src ≠ f.acc → e ∈ f.edges ∧ (n ≤ e.dst ∧ e.dst < f.next) := by
    intro e he hsrc hna
    simp only [List.mem_append, List.mem_cons, List.mem_nil_iff, or_false] at he
    rcases he with (rfl | rfl | rfl) | he
    all_goals first
      | (have a1 := o.dst_rng e he; exact ⟨he, by omega⟩)
      | edge_omega
  have eN : ∀ e ∈ ([.eps s n, .eps s f.next, .eps f.acc f.next] ++ f.edges : List (Edge α)),
      e.src ≠ f.next := by
    intro e he
    simp only [List.mem_append, List.mem_cons, List.mem_nil_iff, or_false] at he
    rcases he with (rfl | rfl | rfl) | he
    all_goals first
      | (have a1 := o.src_rng e he; omega)
      | edge_omega
  intro k w hp
  rcases hp.inv with ⟨h, -⟩ | ⟨q, k2, rfl, he, hp'⟩ | ⟨q, _, _, _, -, -, he, -⟩
  · omega
  · obtain ⟨-, hq⟩ := eS _ he rfl
    simp only [Edge.dst] at hq
    rcases hq with hq | hq <;> rw [hq] at hp'
    · obtain ⟨u, v, k1, k2, rfl, rfl, p1, p2⟩ :=
        PathN.split (P := fun x => n ≤ x ∧ x < f.next) (m := f.acc) eI hp' (by omega) (by omega)
      have hu := ih u k1 p1
      rcases p2.inv with ⟨h, -⟩ | ⟨q, k2, rfl, he, hp''⟩ | ⟨q, _, _, _, -, -, he, -⟩
      · omega
      · obtain ⟨-, hq⟩ := eA _ he rfl
        simp only [Edge.dst] at hq
        subst hq
        obtain ⟨rfl, -⟩ := hp''.stuck eN
        rw [List.append_nil]; exact .optSome hu
      · obtain ⟨⟨q, hq⟩, -⟩ := eA _ he rfl; cases hq
    · obtain ⟨rfl, -⟩ := hp'.stuck eN
      exact .optNil
  · obtain ⟨⟨q, hq⟩, -⟩ := eS _ he rfl; cases hq

theorem alt_sound {f1 f2 : Frag α} {s n : Nat} (hs : s < n) (o1 : FragOk n (n + 2) f1)
    (o2 : FragOk (n + 1) f1.next f2)
    (ih1 : ∀ u k, PathN f1.edges n u f1.acc k → Lang r1 u)
    (ih2 : ∀ u k, PathN f2.edges (n + 1) u f2.acc k → Lang r2 u) :
    ∀ k w, PathN ([.eps s n, .eps s (n + 1), .eps f1.acc f2.next, .eps f2.acc f2.next] ++
        (f1.edges ++ f2.edges)) s w f2.next k → Lang (.alt r1 r2) w := by
  have h1 := o1.next_gt; have h3 := o1.acc_rng
  have h2 := o2.next_gt; have h4 := o2.acc_rng
  have eS : ∀ e ∈ ([.eps s n, .eps s (n + 1), .eps f1.acc f2.next, .eps f2.acc f2.next] ++
        (f1.edges ++ f2.edges) : List (Edge α)),
      e.src = s → (∃ q, e = .eps s q) ∧ (e.dst = n ∨ e.dst = n + 1) := by
    intro e he hsrc
    simp only [List.mem_append, List.mem_cons, List.mem_nil_iff, or_false] at he
    rcases he with (rfl | rfl | rfl | rfl) | he | he
    all_goals first
      | (have a1 := o1.src_rng e he; omega)
      | (have a1 := o2.src_rng e he; omega)
      | edge_omega
      | (simp [Edge.dst]; done)
  have eA1 : ∀ e ∈ ([.eps s n, .eps s (n + 1), .eps f1.acc f2.next, .eps f2.acc f2.next] ++
        (f1.edges ++ f2.edges) : List (Edge α)),
      e.src = f1.acc → (∃ q, e = .eps f1.acc q) ∧ e.dst = f2.next := by
    intro e he hsrc
    simp only [List.mem_append, List.mem_cons, List.mem_nil_iff, or_false] at he
    rcases he with (rfl | rfl | rfl | rfl) | he | he
    all_goals first
      | (have a1 := o1.acc_out e he; omega)
      | (have a1 := o2.src_rng e he; omega)
      | edge_omega
      | (simp [Edge.dst]; done)
  have eA2 : ∀ e ∈ ([.eps s n, .eps s (n + 1), .eps f1.acc f2.next, .eps f2.acc f2.next] ++
        (f1.edges ++ f2.edges) : List (Edge α)),
      e.src = f2.acc → (∃ q, e = .eps f2.acc q) ∧ e.dst = f2.next := by
    intro e he hsrc
    simp only [List.mem_append, List.mem_cons, List.mem_nil_iff, or_false] at he
    rcases he with (rfl | rfl | rfl | rfl) | he | he
    all_goals first
      | (have a1 := o1.src_rng e he; omega)
      | (have a1 := o2.acc_out e he; omega)
      | edge_omega
      | (simp [Edge.dst]; done)
  have eI1 : ∀ e ∈ ([.eps s n, .eps s (n + 1), .eps f1.acc f2.next, .eps f2.acc f2.next] ++
        (f1.edges ++ f2.edges) : List (Edge α)),
      (e.src = n ∨ (n + 2 ≤ e.src ∧ e.src < f1.next)) → e.src ≠ f1.acc →
        e ∈ f1.edges ∧ (e.dst = n ∨ (n + 2 ≤ e.dst ∧ e.dst < f1.next)) := by
    intro e he hsrc hna
    simp only [List.mem_append, List.mem_cons, List.mem_nil_iff, or_false] at he
    rcases he with (rfl | rfl | rfl | rfl) | he | he
    all_goals first
      | (have a1 := o1.dst_rng e he; exact ⟨he, by omega⟩)
      | (have a1 := o2.src_rng e he; omega)
      | edge_omega
  have eI2 : ∀ e ∈ ([.eps s n, .eps s (n + 1), .eps f1.acc f2.next, .eps f2.acc f2.next] ++
        (f1.edges ++ f2.edges) : List (Edge α)),
      (e.src = n + 1 ∨ (f1.next ≤ e.src ∧ e.src < f2.next)) → e.src ≠ f2.acc →
        e ∈ f2.edges ∧ (e.dst = n + 1 ∨ (f1.next ≤ e.dst ∧ e.dst < f2.next)) := by
    intro e he hsrc hna
    simp only [List.mem_append, List.mem_cons, List.mem_nil_iff, or_false] at he
    rcases he with (rfl | rfl | rfl | rfl) | he | he
    all_goals first
      | (have a1 := o2.dst_rng e he; exact ⟨he, by omega⟩)
      | (have a1 := o1.src_rng e he; omega)
      | edge_omega
  have eN : ∀ e ∈ ([.eps s n, .eps s (n + 1), .eps f1.acc f2.next, .eps f2.acc f2.next] ++
        (f1.edges ++ f2.edges) : List (Edge α)),
      e.src ≠ f2.next := by
    intro e he
    simp only [List.mem_append, List.mem_cons, List.mem_nil_iff, or_false] at he
    rcases he with (rfl | rfl | rfl | rfl) | he | he
    all_goals first
      | (have a1 := o1.src_rng e he; omega)
      | (have a1 := o2.src_rng e he; omega)
      | edge_omega
  intro k w hp
  rcases hp.inv with ⟨h, -⟩ | ⟨q, k2, rfl, he, hp'⟩ | ⟨q, _, _, _, -, -, he, -⟩
  · omega
  · obtain ⟨-, hq⟩ := eS _ he rfl
    simp only [Edge.dst] at hq
    rcases hq with hq | hq <;> rw [hq] at hp'
    · obtain ⟨u, v, k1, k2, rfl, rfl, p1, p2⟩ :=
        PathN.split (P := fun x => x = n ∨ (n + 2 ≤ x ∧ x < f1.next)) (m := f1.acc) eI1 hp'
          (by omega) (by omega)
      have hu := ih1 u k1 p1
      rcases p2.inv with ⟨h, -⟩ | ⟨q, k2, rfl, he, hp''⟩ | ⟨q, _, _, _, -, -, he, -⟩
      · omega
      · obtain ⟨-, hq⟩ := eA1 _ he rfl
        simp only [Edge.dst] at hq
        subst hq
        obtain ⟨rfl, -⟩ := hp''.stuck eN
        rw [List.append_nil]; exact .altL hu
      · obtain ⟨⟨q, hq⟩, -⟩ := eA1 _ he rfl; cases hq
    · obtain ⟨u, v, k1, k2, rfl, rfl, p1, p2⟩ :=
        PathN.split (P := fun x => x = n + 1 ∨ (f1.next ≤ x ∧ x < f2.next)) (m := f2.acc) eI2 hp'
          (by omega) (by omega)
      have hu := ih2 u k1 p1
      rcases p2.inv with ⟨h, -⟩ | ⟨q, k2, rfl, he, hp''⟩ | ⟨q, _, _, _, -, -, he, -⟩
      · omega
      · obtain ⟨-, hq⟩ := eA2 _ he rfl
        simp only [Edge.dst] at hq
        subst hq
        obtain ⟨rfl, -⟩ := hp''.stuck eN
        rw [List.append_nil]; exact .altR hu
      · obtain ⟨⟨q, hq⟩, -⟩ := eA2 _ he rfl; cases hq
  · obtain ⟨⟨q, hq⟩, -⟩ := eS _ he rfl; cases hq

theorem cat_sound {f1 f2 : Frag α} {s n : Nat} (hs : s < n) (o1 : FragOk s n f1)
    (o2 : FragOk f1.acc f1.next f2)
    (ih1 : ∀ u k, PathN f1.edges s u f1.acc k → Lang r1 u)
    (ih2 : ∀ u k, PathN f2.edges f1.acc u f2.acc k → Lang r2 u) :
    ∀ k w, PathN (f1.edges ++ f2.edges) s w f2.acc k → Lang (.cat r1 r2) w := by
  have h1 := o1.next_gt; have h3 := o1.acc_rng
  have h2 := o2.next_gt; have h4 := o2.acc_rng
  have eI : ∀ e ∈ (f1.edges ++ f2.edges : List (Edge α)),
      (e.src = s ∨ (n ≤ e.src ∧ e.src < f1.next)) → e.src ≠ f1.acc →
        e ∈ f1.edges ∧ (e.dst = s ∨ (n ≤ e.dst ∧ e.dst < f1.next)) := by
    intro e he hsrc hna
    simp only [List.mem_append] at he
    rcases he with he | he
    · have a1 := o1.dst_rng e he; exact ⟨he, by omega⟩
    · have a1 := o2.src_rng e he; omega
  have eQ : ∀ e ∈ (f1.edges ++ f2.edges : List (Edge α)),
      (e.src = f1.acc ∨ (f1.next ≤ e.src ∧ e.src < f2.next)) →
        e ∈ f2.edges ∧ (e.dst = f1.acc ∨ (f1.next ≤ e.dst ∧ e.dst < f2.next)) := by
    intro e he hsrc
    simp only [List.mem_append] at he
    rcases he with he | he
    · have a1 := o1.src_rng e he; have a2 := o1.acc_out e he; omega
    · have a1 := o2.dst_rng e he; exact ⟨he, by omega⟩
  intro k w hp
  obtain ⟨u, v, k1, k2, rfl, rfl, p1, p2⟩ :=
    PathN.split (P := fun x => x = s ∨ (n ≤ x ∧ x < f1.next)) (m := f1.acc) eI hp
      (by omega) (by omega)
  have p2' := PathN.confine (Q := fun x => x = f1.acc ∨ (f1.next ≤ x ∧ x < f2.next)) eQ p2
    (.inl rfl)
  exact .cat (ih1 u k1 p1) (ih2 v k2 p2')

end sound

theorem build_sound (r : Rx α) : ∀ s n w k, s < n →
    PathN (build r s n).edges s w (build r s n).acc k → Lang r w := by
  induction r with
  | atom a => intro s n w k hs hp; exact atom_sound hs hp
  | cat r1 r2 ih1 ih2 =>
    intro s n w k hs hp
    have o1 := build_ok r1 s n hs
    have o2 := build_ok r2 (build r1 s n).acc (build r1 s n).next o1.acc_rng.2
    exact cat_sound hs o1 o2 (fun u k h => ih1 s n u k hs h)
      (fun u k h => ih2 _ _ u k o1.acc_rng.2 h) k w hp
  | alt r1 r2 ih1 ih2 =>
    intro s n w k hs hp
    have o1 := build_ok r1 n (n + 2) (by omega)
    have hlt : n + 1 < (build r1 n (n + 2)).next := by have := o1.next_gt; omega
    have o2 := build_ok r2 (n + 1) (build r1 n (n + 2)).next hlt
    exact alt_sound hs o1 o2 (fun u k h => ih1 _ _ u k (by omega) h)
      (fun u k h => ih2 _ _ u k hlt h) k w hp
  | opt r ih =>
    intro s n w k hs hp
    exact opt_sound hs (build_ok r n (n + 1) (by omega)) (fun u k h => ih _ _ u k (by omega) h) k w hp
  | star r ih =>
    intro s n w k hs hp
    exact star_sound hs (build_ok r n (n + 1) (by omega)) (fun u k h => ih _ _ u k (by omega) h) k w hp
  | plus r ih =>
    intro s n w k hs hp
    exact plus_sound hs (build_ok r n (n + 1) (by omega)) (fun u k h => ih _ _ u k (by omega) h) k w hp


/-! ## completeness: every word of the language has an accepting run -/

theorem star_complete {r : Rx α} {f : Frag α} {s n : Nat} {w : List α}
    (ih : ∀ u, Lang r u → Path f.edges n u f.acc) (h : Lang (.star r) w) :
    Path ([.eps s n, .eps s f.next, .eps f.acc n, .eps f.acc f.next] ++ f.edges) s w f.next := by
  have key : ∀ r' w, Lang r' w → r' = .star r → ∀ x,
      Edge.eps x n ∈ ([.eps s n, .eps s f.next, .eps f.acc n, .eps f.acc f.next] ++ f.edges : List (Edge α)) →
      Edge.eps x f.next ∈ ([.eps s n, .eps s f.next, .eps f.acc n, .eps f.acc f.next] ++ f.edges : List (Edge α)) →
      Path ([.eps s n, .eps s f.next, .eps f.acc n, .eps f.acc f.next] ++ f.edges) x w f.next := by
    intro r' w h
    induction h with
    | starNil => intro _ x _ hx; exact .eps hx (.nil _)
    | @starCons r0 u v h1 _ _ ih2 =>
      intro heq x hx _
      cases heq
      have p1 : Path ([.eps s n, .eps s f.next, .eps f.acc n, .eps f.acc f.next] ++ f.edges)
          n u f.acc := Path.mono (fun e he => List.mem_append_right _ he) (ih u h1)
      exact .eps hx (Path.trans p1 (ih2 rfl f.acc (by simp) (by simp)))
    | _ => intro heq; cases heq
  exact key _ _ h rfl s (by simp) (by simp)

theorem plus_complete {r : Rx α} {f : Frag α} {s n : Nat} {w : List α}
    (ih : ∀ u, Lang r u → Path f.edges n u f.acc) (h : Lang (.plus r) w) :
    Path ([.eps s n, .eps f.acc n, .eps f.acc f.next] ++ f.edges) s w f.next := by
  have key : ∀ r' w, Lang r' w → r' = .plus r → ∀ x,
      Edge.eps x n ∈ ([.eps s n, .eps f.acc n, .eps f.acc f.next] ++ f.edges : List (Edge α)) →
      Path ([.eps s n, .eps f.acc n, .eps f.acc f.next] ++ f.edges) x w f.next := by
    intro r' w h
    induction h with
    | @plusOne r0 u h1 _ =>
      intro heq x hx
      cases heq
      have p1 : Path ([.eps s n, .eps f.acc n, .eps f.acc f.next] ++ f.edges)
          n u f.acc := Path.mono (fun e he => List.mem_append_right _ he) (ih u h1)
      have p2 : Path ([.eps s n, .eps f.acc n, .eps f.acc f.next] ++ f.edges)
          f.acc [] f.next := .eps (by simp) (.nil _)
      have := Path.trans p1 p2
      rw [List.append_nil] at this
      exact .eps hx this
    | @plusCons r0 u v h1 _ _ ih2 =>
      intro heq x hx
      cases heq
      have p1 : Path ([.eps s n, .eps f.acc n, .eps f.acc f.next] ++ f.edges)
          n u f.acc := Path.mono (fun e he => List.mem_append_right _ he) (ih u h1)
      exact .eps hx (Path.trans p1 (ih2 rfl f.acc (by simp)))
    | _ => intro heq; cases heq
  exact key _ _ h rfl s (by simp)

theorem build_complete (r : Rx α) : ∀ s n w, Lang r w →
    Path (build r s n).edges s w (build r s n).acc := by
  induction r with
  | atom a =>
    intro s n w h
    cases h
    exact .sym (by simp [build_atom]) (.nil _)
  | cat r1 r2 ih1 ih2 =>
    intro s n w h
    cases h with
    | cat hu hv =>
      have p1 := ih1 s n _ hu
      have p2 := ih2 (build r1 s n).acc (build r1 s n).next _ hv
      exact Path.trans (Path.mono (fun e he => List.mem_append_left _ he) p1)
        (Path.mono (fun e he => List.mem_append_right _ he) p2)
  | alt r1 r2 ih1 ih2 =>
    intro s n w h
    rw [build_alt]
    cases h with
    | altL hu =>
      have p1 := ih1 n (n + 2) _ hu
      have p1' := Path.trans
        (Path.mono (E' := (build (.alt r1 r2) s n).edges)
          (fun e he => List.mem_append_right _ (List.mem_append_left _ he)) p1)
        (.eps (q := (build (.alt r1 r2) s n).acc) (by simp [build_alt]) (.nil _))
      rw [List.append_nil] at p1'
      exact .eps (by simp) p1'
    | altR hu =>
      have p1 := ih2 (n + 1) (build r1 n (n + 2)).next _ hu
      have p1' := Path.trans
        (Path.mono (E' := (build (.alt r1 r2) s n).edges)
          (fun e he => List.mem_append_right _ (List.mem_append_right _ he)) p1)
        (.eps (q := (build (.alt r1 r2) s n).acc) (by simp [build_alt]) (.nil _))
      rw [List.append_nil] at p1'
      exact .eps (by simp) p1'
  | opt r ih =>
    intro s n w h
    rw [build_opt]
    cases h with
    | optNil => exact .eps (by simp) (.nil _)
    | optSome hu =>
      have p1 := ih n (n + 1) _ hu
      have p1' := Path.trans
        (Path.mono (E' := (build (.opt r) s n).edges)
          (fun e he => List.mem_append_right _ he) p1)
        (.eps (q := (build (.opt r) s n).acc) (by simp [build_opt]) (.nil _))
      rw [List.append_nil] at p1'
      exact .eps (by simp) p1'
  | star r ih =>
    intro s n w h
    exact star_complete (ih n (n + 1)) h
  | plus r ih =>
    intro s n w h
    exact plus_complete (ih n (n + 1)) h

/-- Thompson correctness for fragments -/
theorem build_correct (r : Rx α) (s n : Nat) (hs : s < n) (w : List α) :
    Path (build r s n).edges s w (build r s n).acc ↔ Lang r w := by
  constructor
  · intro h
    obtain ⟨k, hk⟩ := h.toPathN
    exact build_sound r s n w k hs hk
  · exact build_complete r s n w

/-- Thompson correctness: the accepting runs of `compile r base` spell exactly `Lang r` -/
theorem thompson_correct (r : Rx α) (base : Nat) (w : List α) :
    Path (compile r base).edges (compile r base).start w (compile r base).acc ↔ Lang r w :=
  build_correct r base (base + 1) (by omega) w

/-! ## `nfaMatch` -/

/-- runs in "macro steps": one symbol edge followed by an ε-path -/
inductive Run (E : List (Edge α)) : Nat → List α → Nat → Prop where
  | nil (p) : Run E p [] p
  | cons {p r q t x xs} : Edge.sym p x r ∈ E → EpsReach E r q → Run E q xs t → Run E p (x :: xs) t

theorem Run.toPath {E : List (Edge α)} {p w t} : Run E p w t → Path E p w t := by
  intro h
  induction h with
  | nil p => exact .nil p
  | cons he hr _ ih =>
    have := Path.trans hr ih
    rw [List.nil_append] at this
    exact .sym he this

theorem Path.toRun {E : List (Edge α)} {p w t} :
    Path E p w t → ∃ q, EpsReach E p q ∧ Run E q w t := by
  intro h
  induction h with
  | nil q => exact ⟨q, .nil q, .nil q⟩
  | eps he _ ih =>
    obtain ⟨q, hq, hr⟩ := ih
    exact ⟨q, .eps he hq, hr⟩
  | @sym p p' t a w he _ ih =>
    obtain ⟨q, hq, hr⟩ := ih
    exact ⟨p, .nil p, .cons he hq hr⟩

theorem path_iff_run {E : List (Edge α)} {p w t} :
    Path E p w t ↔ ∃ q, EpsReach E p q ∧ Run E q w t := by
  constructor
  · exact Path.toRun
  · rintro ⟨q, hq, hr⟩
    have := Path.trans hq hr.toPath
    rwa [List.nil_append] at this

section nfaMatch
variable [DecidableEq α]

theorem nfaMatchLoop_iff (N : Nfa α) (w : List α) : ∀ act : List Nat,
    nfaMatchLoop N act w = true ↔ ∃ p, p ∈ act ∧ Run N.edges p w N.acc := by
  induction w with
  | nil =>
    intro act
    simp only [nfaMatchLoop, List.contains_iff_mem]
    constructor
    · intro h; exact ⟨_, h, .nil _⟩
    · rintro ⟨p, hp, hr⟩
      cases hr; exact hp
  | cons x xs ih =>
    intro act
    have hmem : ∀ q, q ∈ (act.flatMap (fun q => (symOut N.edges q).flatMap
        (fun (b, r) => if b = x then closure N.edges [r] else []))) ↔
        ∃ p r, p ∈ act ∧ Edge.sym p x r ∈ N.edges ∧ EpsReach N.edges r q := by
      intro q
      simp only [List.mem_flatMap]
      constructor
      · rintro ⟨p, hp, ⟨b, r⟩, hbr, hq⟩
        by_cases hb : b = x
        · subst hb
          rw [if_pos rfl, mem_closure_iff] at hq
          obtain ⟨r', hr', hreach⟩ := hq
          simp only [List.mem_singleton] at hr'
          subst hr'
          exact ⟨p, _, hp, (mem_symOut _ _ _ _).1 hbr, hreach⟩
        · rw [if_neg hb] at hq; cases hq
      · rintro ⟨p, r, hp, he, hreach⟩
        refine ⟨p, hp, (x, r), (mem_symOut _ _ _ _).2 he, ?_⟩
        rw [if_pos rfl, mem_closure_iff]
        exact ⟨r, List.mem_singleton.2 rfl, hreach⟩
    rw [nfaMatchLoop]
    simp only []
    split
    · rename_i hemp
      constructor
      · intro h; cases h
      · rintro ⟨p, hp, hr⟩
        cases hr with
        | cons he hreach hrest =>
          have := (hmem _).2 ⟨p, _, hp, he, hreach⟩
          rw [List.isEmpty_iff] at hemp
          rw [hemp] at this
          cases this
    · rw [ih]
      constructor
      · rintro ⟨q, hq, hr⟩
        obtain ⟨p, r, hp, he, hreach⟩ := (hmem q).1 hq
        exact ⟨p, hp, .cons he hreach hr⟩
      · rintro ⟨p, hp, hr⟩
        cases hr with
        | cons he hreach hrest =>
          exact ⟨_, (hmem _).2 ⟨p, _, hp, he, hreach⟩, hrest⟩

end nfaMatch

/-- `nfa_match` decides membership in the language of the pattern -/
theorem nfaMatch_iff (r : Rx α) [DecidableEq α] (base : Nat) (w : List α) :
    nfaMatch r base w = true ↔ Lang r w := by
  rw [← thompson_correct r base w, path_iff_run]
  unfold nfaMatch
  simp only []
  rw [nfaMatchLoop_iff]
  constructor
  · rintro ⟨p, hp, hr⟩
    rw [mem_closure_iff] at hp
    obtain ⟨p0, hp0, hreach⟩ := hp
    simp only [List.mem_singleton] at hp0
    subst hp0
    exact ⟨p, hreach, hr⟩
  · rintro ⟨q, hq, hr⟩
    exact ⟨q, (mem_closure_iff _ _ _).2 ⟨_, List.mem_singleton.2 rfl, hq⟩, hr⟩

end CL
