import CodeLimit.Props.C14
import CodeLimit.Lemmas.ScanBoundsCount
/-!
# Headers: order, distinct starts, and the position of the name token

From C14 (`find_all` reports ordered, disjoint, non-empty matches) the headers of ONE
`get_headers` call are strictly ordered; by a decidable check on the compiled DFA of every
shipped pattern (`decide +kernel`, so it follows the generated patterns) the start state is not
accepting and the name token is the first or the second token of the match.
-/
namespace CL

/-! ## unfolding `get_headers` -/

theorem filterFollow_sublist (F : Machine Tok (DState × Depths)) (toks : List Tok) :
    ∀ (ms r : List (Match Tok)), filterFollow F toks ms = .ok r → r.Sublist ms
  | [], r, h => by simp only [filterFollow, Except.ok.injEq] at h; subst h; exact .slnil
  | m :: ms, r, h => by
    unfold filterFollow at h
    cases hr : filterFollow F toks ms with
    | error e =>
      rw [hr] at h
      split at h
      · rename_i h1 h2; cases h2
      · rename_i h1 h2; cases h2
      · cases h
      · cases h
    | ok r' =>
      rw [hr] at h
      have ih := filterFollow_sublist F toks ms r' hr
      split at h
      · rename_i h1 h2; cases h2; cases h; exact ih.cons_cons m
      · rename_i h1 h2; cases h2; cases h; exact ih.trans (List.sublist_cons_self _ _)
      · cases h
      · cases h

theorem namesOf_spec : ∀ (ms : List (Match Tok)) (hs : List Header), namesOf ms = .ok hs →
    hs.map (·.rng) = ms.map (fun m => ⟨m.s, m.e⟩) ∧
    ∀ h ∈ hs, ∃ m ∈ ms, h.rng = ⟨m.s, m.e⟩ ∧ firstName m.toks = .ok h.name
  | [], hs, h => by simp only [namesOf, Except.ok.injEq] at h; subst h; simp
  | m :: ms, hs, h => by
    unfold namesOf at h
    split at h
    · next n r hn hr =>
      cases h
      obtain ⟨h1, h2⟩ := namesOf_spec ms r hr
      refine ⟨by simp [h1], ?_⟩
      intro h hh
      rcases List.mem_cons.1 hh with rfl | hh
      · exact ⟨m, List.mem_cons_self, rfl, hn⟩
      · obtain ⟨m', hm', h3⟩ := h2 h hh
        exact ⟨m', List.mem_cons_of_mem _ hm', h3⟩
    · cases h
    · cases h

/-- the stages of a successful `get_headers` call -/
theorem getHeaders_decomp {hp : HeaderPat} {toks : List Tok} {hs : List Header}
    (h : getHeaders hp toks = .ok hs) :
    ∃ D ms ms', compileTok hp.expr = .ok D ∧ findAll (dfaMachine D tokAcceptor) toks = .ok ms ∧
      ms'.Sublist ms ∧ namesOf ms' = .ok hs := by
  unfold getHeaders at h
  cases hD : compileTok hp.expr with
  | error e => simp [hD, bind, Except.bind] at h
  | ok D =>
    cases hms : findAll (dfaMachine D tokAcceptor) toks with
    | error e => simp [hD, hms, bind, Except.bind] at h
    | ok ms =>
      cases hf : hp.follow with
      | none =>
        simp only [hD, hms, hf, bind, Except.bind, pure, Except.pure] at h
        exact ⟨D, ms, ms, rfl, hms, List.Sublist.refl _, h⟩
      | some f =>
        cases hF : compileTok f with
        | error e => simp [hD, hms, hf, hF, bind, Except.bind] at h
        | ok F =>
          cases hff : filterFollow (dfaMachine F tokAcceptor) toks ms with
          | error e => simp [hD, hms, hf, hF, hff, bind, Except.bind] at h
          | ok ms' =>
            simp only [hD, hms, hf, hF, hff, bind, Except.bind] at h
            exact ⟨D, ms, ms', rfl, hms, filterFollow_sublist _ _ _ _ hff, h⟩

/-! ## the decidable checks on the shipped patterns -/

/-- `p.eval t` implies that `t` is a name token -/
def Pred.nameOnly : Pred → Bool
  | .name => true
  | .and p q => p.nameOnly || q.nameOnly
  | .or p q => p.nameOnly && q.nameOnly
  | _ => false

theorem Pred.nameOnly_eval : ∀ (p : Pred) (t : Tok), p.nameOnly = true → p.eval t = true →
    t.isName = true
  | .name, _, _, h => h
  | .and p q, t, hn, h => by
    simp only [Pred.nameOnly, Bool.or_eq_true] at hn
    simp only [Pred.eval, Bool.and_eq_true] at h
    rcases hn with hn | hn
    · exact Pred.nameOnly_eval p t hn h.1
    · exact Pred.nameOnly_eval q t hn h.2
  | .or p q, t, hn, h => by
    simp only [Pred.nameOnly, Bool.and_eq_true] at hn
    simp only [Pred.eval, Bool.or_eq_true] at h
    rcases h with h | h
    · exact Pred.nameOnly_eval p t hn.1 h
    · exact Pred.nameOnly_eval q t hn.2 h
  | .keyword _, _, hn, _ => by cases hn
  | .symbol _, _, hn, _ => by cases hn
  | .operator _, _, hn, _ => by cases hn
  | .value _, _, hn, _ => by cases hn
  | .ident _, _, hn, _ => by cases hn
  | .not _, _, hn, _ => by cases hn
  | .balanced _ _, _, hn, _ => by cases hn

theorem Pred.nameOnly_accept (p : Pred) (ds : Depths) (t : Tok) (hn : p.nameOnly = true)
    (h : (acceptTok p ds t).1 = true) : t.isName = true := by
  cases p with
  | balanced _ _ => cases hn
  | name => exact Pred.nameOnly_eval _ t hn h
  | and p q => exact Pred.nameOnly_eval _ t hn h
  | or p q => exact Pred.nameOnly_eval _ t hn h
  | keyword _ => cases hn
  | symbol _ => cases hn
  | operator _ => cases hn
  | value _ => cases hn
  | ident _ => cases hn
  | not _ => cases hn

/-- the start state is not accepting (the pattern does not match the empty sequence), and the
first token, or else the second token, of every run is accepted by a name-only predicate -/
def headerDfaOK (D : Dfa Pred) : Bool :=
  !D.isAcc .start &&
  (D.row .start).all (fun e => e.1.nameOnly || (D.row e.2).all (fun e' => e'.1.nameOnly))

def headerPatOK (hp : HeaderPat) : Bool :=
  match compileTok hp.expr with
  | .ok D => headerDfaOK D
  | .error _ => false

/-- checked on the generated patterns of all seven languages -/
theorem shipped_headerPatOK : ∀ L ∈ Gen.all.map (·.2), ∀ hp ∈ L.pats, headerPatOK hp = true := by
  decide +kernel

/-! ## `Pattern.consume` picks a transition whose predicate accepted the token -/

theorem consumeAux_some_mem {α π β : Type} (C : Acceptor α π β) (x : β) :
    ∀ (row : List (α × DState)) (f : Option DState) (ps : π) (t : DState) (ps' : π),
    consumeAux C x row f ps = .ok (some t, ps') →
    f = some t ∨ ∃ p ps0, (p, t) ∈ row ∧ (C.accept p ps0 x).1 = true
  | [], f, ps, t, ps', h => by
    simp only [consumeAux, Except.ok.injEq, Prod.mk.injEq] at h
    exact .inl h.1
  | (p, u) :: rest, f, ps, t, ps', h => by
    unfold consumeAux at h
    simp only at h
    split at h
    · next hacc =>
      split at h
      · cases h
      · rcases consumeAux_some_mem C x rest (some u) _ t ps' h with h1 | ⟨q, ps0, hq, hq'⟩
        · cases h1
          exact .inr ⟨p, ps, List.mem_cons_self, hacc⟩
        · exact .inr ⟨q, ps0, List.mem_cons_of_mem _ hq, hq'⟩
    · rcases consumeAux_some_mem C x rest f _ t ps' h with h1 | ⟨q, ps0, hq, hq'⟩
      · exact .inl h1
      · exact .inr ⟨q, ps0, List.mem_cons_of_mem _ hq, hq'⟩

theorem consume_some_mem {α π β : Type} (C : Acceptor α π β) (row : List (α × DState)) (ps : π) (x : β)
    (t : DState) (ps' : π) (h : consume C row ps x = .ok (some (t, ps'))) :
    ∃ p ps0, (p, t) ∈ row ∧ (C.accept p ps0 x).1 = true := by
  unfold consume at h
  split at h
  · cases h
  · cases h
  · next t' ps'' haux =>
    simp only [Except.ok.injEq, Option.some.injEq, Prod.mk.injEq] at h
    obtain ⟨rfl, rfl⟩ := h
    rcases consumeAux_some_mem C x row none ps _ _ haux with h1 | h1
    · cases h1
    · exact h1

/-- a run of a checked DFA over at least two tokens sees a name in its first two tokens -/
theorem run_name_early {D : Dfa Pred} (hD : headerDfaOK D = true) {x y : Tok} {rest : List Tok}
    {q : DState × Depths}
    (hrun : runM (dfaMachine D tokAcceptor) (dfaMachine D tokAcceptor).init (x :: y :: rest) = some q) :
    x.isName = true ∨ y.isName = true := by
  simp only [headerDfaOK, Bool.and_eq_true, List.all_eq_true, Bool.or_eq_true] at hD
  simp only [runM] at hrun
  split at hrun
  · next s1 hs1 =>
    split at hrun
    · next s2 hs2 =>
      obtain ⟨t1, d1⟩ := s1
      obtain ⟨t2, d2⟩ := s2
      obtain ⟨p, ps0, hp, hacc⟩ := consume_some_mem tokAcceptor _ _ _ _ _ hs1
      rcases hD.2 (p, t1) hp with hn | hn
      · exact .inl (Pred.nameOnly_accept p ps0 x hn hacc)
      · obtain ⟨p', ps1, hp', hacc'⟩ := consume_some_mem tokAcceptor _ _ _ _ _ hs2
        exact .inr (Pred.nameOnly_accept p' ps1 y (hn (p', t2) hp') hacc')
    · cases hrun
  · cases hrun

theorem firstName_head {x : Tok} {w : List Tok} (h : x.isName = true) : firstName (x :: w) = .ok x := by
  simp [firstName, h]

theorem firstName_single {x n : Tok} (h : firstName [x] = .ok n) : n = x := by
  unfold firstName at h
  split at h
  · cases h; rfl
  · cases h

theorem firstName_isName : ∀ {w : List Tok} {n : Tok}, firstName w = .ok n → n.isName = true
  | [], _, h => by cases h
  | x :: w, n, h => by
    unfold firstName at h
    split at h
    · next hx => cases h; exact hx
    · exact firstName_isName h

/-- where `firstName` finds the name in a run of a checked DFA: first or second token -/
theorem firstName_early {D : Dfa Pred} (hD : headerDfaOK D = true) : ∀ {w : List Tok}
    {q : DState × Depths} {n : Tok},
    runM (dfaMachine D tokAcceptor) (dfaMachine D tokAcceptor).init w = some q →
    firstName w = .ok n → w[0]? = some n ∨ w[1]? = some n
  | [], _, _, _, hn => by cases hn
  | [x], _, _, _, hn => .inl (by rw [firstName_single hn]; rfl)
  | x :: y :: rest, _, n, hrun, hn => by
    have := run_name_early hD hrun
    by_cases hx : x.isName = true
    · rw [firstName_head hx] at hn; cases hn; exact .inl rfl
    · have hy : y.isName = true := by
        rcases this with h | h
        · exact absurd h hx
        · exact h
      unfold firstName at hn
      simp only [hx, Bool.false_eq_true, if_false] at hn
      rw [firstName_head hy] at hn; cases hn; exact .inr rfl

/-! ## headers of one `get_headers` call -/

theorem slice_getElem? {β : Type} (xs : List β) (s e i : Nat) (hi : i < e - s) :
    (slice xs s e)[i]? = xs[s + i]? := by
  unfold slice
  rw [List.getElem?_take_of_lt hi, List.getElem?_drop]

/-- headers of one `get_headers` call with a checked pattern: strictly ordered, and the name is
the first or second token -/
theorem getHeaders_spec {hp : HeaderPat} (hok : headerPatOK hp = true) {toks : List Tok}
    {hs : List Header} (h : getHeaders hp toks = .ok hs) :
    hs.Pairwise (fun a b => a.rng.e ≤ b.rng.s) ∧
    ∀ hd ∈ hs, hd.rng.s < hd.rng.e ∧ hd.rng.e ≤ toks.length ∧ hd.name.isName = true ∧
      ∃ i, hd.rng.s ≤ i ∧ i ≤ hd.rng.s + 1 ∧ i < hd.rng.e ∧ toks[i]? = some hd.name := by
  obtain ⟨D, ms, ms', hD, hms, hsub, hnames⟩ := getHeaders_decomp h
  have hDok : headerDfaOK D = true := by simpa [headerPatOK, hD] using hok
  have hnn : (dfaMachine D tokAcceptor).acc (dfaMachine D tokAcceptor).init = false := by
    simp only [headerDfaOK, Bool.and_eq_true, Bool.not_eq_true'] at hDok
    exact hDok.1
  have hds := dfaMachine_deadStuck D (tokAcceptor)
  obtain ⟨hrng, hnm⟩ := namesOf_spec ms' hs hnames
  constructor
  · have hpw := (C14.ordered_disjoint hnn hds hms).sublist hsub
    have : (hs.map (·.rng)).Pairwise (fun a b => a.e ≤ b.s) := by
      rw [hrng, List.pairwise_map]; exact hpw
    rwa [List.pairwise_map] at this
  · intro hd hhd
    obtain ⟨m, hm, hr, hfn⟩ := hnm hd hhd
    have hmm := hsub.subset hm
    obtain ⟨hlt, hle⟩ := C14.bounds hnn hds hms m hmm
    have hrec := C14.records hnn hds hms m hmm
    obtain ⟨_, _, q, hrun, _⟩ := C14.greedy hnn hds hms m hmm
    rw [hrec] at hfn
    rw [hr]
    show m.s < m.e ∧ m.e ≤ toks.length ∧ hd.name.isName = true ∧
      ∃ i, m.s ≤ i ∧ i ≤ m.s + 1 ∧ i < m.e ∧ toks[i]? = some hd.name
    refine ⟨hlt, hle, firstName_isName hfn, ?_⟩
    rcases firstName_early hDok hrun hfn with h0 | h1
    · rw [slice_getElem? toks m.s m.e 0 (by omega)] at h0
      exact ⟨m.s, Nat.le_refl _, by omega, hlt, by simpa using h0⟩
    · have hlen : 1 < (slice toks m.s m.e).length := by
        rcases Nat.lt_or_ge 1 (slice toks m.s m.e).length with h | h
        · exact h
        · rw [List.getElem?_eq_none h] at h1; cases h1
      have hlen' : 1 < m.e - m.s := by
        have : (slice toks m.s m.e).length ≤ m.e - m.s := by
          unfold slice; rw [List.length_take]; exact Nat.min_le_left _ _
        omega
      rw [slice_getElem? toks m.s m.e 1 hlen'] at h1
      exact ⟨m.s + 1, by omega, Nat.le_refl _, by omega, h1⟩

/-! ## `extract_headers` -/

/-- a non-empty header range inside the tokens with a name token at its first or second token -/
def HeaderNameEarly (toks : List Tok) (h : Header) : Prop :=
  h.rng.s < h.rng.e ∧ h.rng.e ≤ toks.length ∧ h.name.isName = true ∧
    ∃ i, h.rng.s ≤ i ∧ i ≤ h.rng.s + 1 ∧ i < h.rng.e ∧ toks[i]? = some h.name

theorem HeaderNameEarly.wf {toks : List Tok} {h : Header} (hh : HeaderNameEarly toks h) :
    HeaderWF toks h := by
  obtain ⟨h1, h2, h3, i, h4, _, h6, h7⟩ := hh
  exact ⟨h1, h2, h3, i, h4, h6, h7⟩

theorem concatHeaders_early {toks : List Tok} : ∀ (pats : List HeaderPat) (hs : List Header),
    (∀ hp ∈ pats, headerPatOK hp = true) → concatHeaders toks pats = .ok hs →
    ∀ hd ∈ hs, HeaderNameEarly toks hd
  | [], hs, _, h => by simp only [concatHeaders, Except.ok.injEq] at h; subst h; simp
  | hp :: pats, hs, hok, h => by
    unfold concatHeaders at h
    split at h
    · next a b ha hb =>
      cases h
      intro hd hhd
      rcases List.mem_append.1 hhd with hhd | hhd
      · exact (getHeaders_spec (hok hp List.mem_cons_self) ha).2 hd hhd
      · exact concatHeaders_early pats b (fun p hp' => hok p (List.mem_cons_of_mem _ hp')) hb hd hhd
    · cases h
    · cases h

theorem extractHeaders_sub {L : Language} {toks : List Tok} {hs : List Header}
    (h : extractHeaders L toks = .ok hs) :
    ∃ hs0, concatHeaders toks L.pats = .ok hs0 ∧ hs.Sublist hs0 := by
  unfold extractHeaders at h
  split at h
  · cases h
  · next hs0 h0 =>
    refine ⟨hs0, h0, ?_⟩
    split at h
    · cases h; exact List.Sublist.refl _
    · cases h; exact List.filter_sublist

/-- every header of a shipped language has its name at the first or second token -/
theorem extractHeaders_early (L : Language) (hL : L ∈ Gen.all.map (·.2)) {toks : List Tok}
    {hs : List Header} (h : extractHeaders L toks = .ok hs) : ∀ hd ∈ hs, HeaderNameEarly toks hd := by
  obtain ⟨hs0, h0, hsub⟩ := extractHeaders_sub h
  exact fun hd hhd => concatHeaders_early L.pats hs0 (shipped_headerPatOK L hL) h0 hd (hsub.subset hhd)

/-- `HeaderWF` for the shipped languages, proved here without the assumed lemma (only success of
`extractHeaders` is an assumption here; it is property C15, `Lemmas/HeadersWF.lean`) -/
theorem extractHeaders_wf' (L : Language) (hL : L ∈ Gen.all.map (·.2)) {toks : List Tok}
    {hs : List Header} (h : extractHeaders L toks = .ok hs) : ∀ hd ∈ hs, HeaderWF toks hd :=
  fun hd hhd => (extractHeaders_early L hL h hd hhd).wf

/-- for a language with a single header pattern the headers are strictly ordered and disjoint -/
theorem extractHeaders_ordered (L : Language) (hL : L ∈ Gen.all.map (·.2)) (h1 : L.pats.length = 1)
    {toks : List Tok} {hs : List Header} (h : extractHeaders L toks = .ok hs) :
    hs.Pairwise (fun a b => a.rng.e ≤ b.rng.s) := by
  obtain ⟨hs0, h0, hsub⟩ := extractHeaders_sub h
  refine List.Pairwise.sublist hsub ?_
  have hok := shipped_headerPatOK L hL
  match hp : L.pats, h1 with
  | [p], _ =>
    rw [hp] at h0 hok
    unfold concatHeaders at h0
    split at h0
    · next a b ha hb =>
      simp only [concatHeaders, Except.ok.injEq] at hb
      subst hb
      cases h0
      simpa using (getHeaders_spec (hok p List.mem_cons_self) ha).1
    · cases h0
    · cases h0

end CL
