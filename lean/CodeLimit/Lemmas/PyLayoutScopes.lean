import CodeLimit.Lemmas.LayoutScan
/-!
# Stage A of C01 from weaker premises (used for Python, stage C)

The stage-A lemmas of `LayoutScopes.lean` / `LayoutCount.lean` / `LayoutScan.lean` are stated
for `Layout` / `LayoutCore`.  The suites of a Python file do NOT satisfy the clause
`FnLayout.block_vs_fn`: it demands that a block around a function starts strictly before the
function's header, which is true for brace blocks (the `{` comes first) and false for suites
(the suite of an outer function may begin with the `def` of an inner one).  What the proofs
really use is less:

* A1 (`buildScopes0`) - `ScopeLayout`: sorted functions and blocks, the body is the first block
  at/after the header's end, every block that starts inside a body (or at its exclusive end)
  ends inside it, and the body of an earlier function does not start inside the body of a
  later one;
* A2-A4 (nesting, counting, measuring) - `Nested fns`, positions sorted, functions inside the
  file.

The proofs below are the ones of the stage-A files with the premises replaced; `Layout` implies
`ScopeLayout` (`Layout.scopeLayout`), so nothing is lost.
-/
namespace CL

/-- what `_build_scopes_from_headers_and_blocks` needs to give every function its own body -/
structure ScopeLayout (code : List Tok) (fns : List Fn) (blocks : List Range) : Prop where
  pos_sorted : PosSorted code
  fns_sorted : fns.Pairwise (fun f g => f.hdr.rng.s < g.hdr.rng.s)
  bounds : ∀ f ∈ fns, f.hdr.rng.s < f.hdr.rng.e ∧ f.hdr.rng.e ≤ f.body.s ∧ f.body.s < f.body.e ∧
      f.body.e ≤ code.length
  body_mem : ∀ f ∈ fns, f.body ∈ blocks
  blocks_ok : ∀ b ∈ blocks, b.s < b.e
  blocks_sorted : blocks.Pairwise (fun a b => a.s < b.s)
  /-- the body is the FIRST block that starts at or after the header's end -/
  body_first : ∀ f ∈ fns, ∀ b ∈ blocks, ¬ (f.hdr.rng.e ≤ b.s ∧ b.s < f.body.s)
  /-- a block that starts inside a body, or at its exclusive end, ends inside the body -/
  block_in_body : ∀ f ∈ fns, ∀ b ∈ blocks, f.body.s ≤ b.s → b.s ≤ f.body.e → b.e ≤ f.body.e
  /-- the body of an earlier function does not start inside (or directly after) the body of a
  later one -/
  body_not_taken : ∀ f ∈ fns, ∀ g ∈ fns, f.hdr.rng.s < g.hdr.rng.s →
      ¬ (g.body.s ≤ f.body.s ∧ f.body.s ≤ g.body.e)

/-- a canonical brace layout has these properties -/
theorem Layout.scopeLayout {code : List Tok} {fns : List Fn} {blocks : List Range}
    (L : Layout code fns blocks) : ScopeLayout code fns blocks :=
  ⟨L.pos_sorted, L.fns_sorted, fun _ hf => L.fn_bounds hf, L.body_mem,
   fun b hb => (L.blocks_ok b hb).1, L.blocks_sorted, L.body_first,
   fun _ hf _ hb h1 h2 => L.block_in_body hf hb h1 h2,
   fun _ hf _ hg h => L.body_not_taken hf hg h⟩

theorem scopeBlockIndices_scopeLayout {code : List Tok} {fns : List Fn} {blocks : List Range}
    (L : ScopeLayout code fns blocks) {f : Fn} (hf : f ∈ fns) {R : List Range}
    (hR : R.Sublist blocks) (hb : f.body ∈ R) :
    scopeBlockIndices f.hdr.rng R = idxOfSat R (taken f.body) := by
  have hb1 := L.bounds f hf
  have hnb : nearestBlock f.hdr.rng R.reverse none = some f.body :=
    nearestBlock_first hb1.1 (L.blocks_sorted.sublist hR) hb hb1.2.1
      (fun b hb => L.body_first f hf b (hR.subset hb))
  unfold scopeBlockIndices
  rw [hnb]
  have h1 : f.body.contains f.hdr.rng = false := by
    simp only [Range.contains, Bool.and_eq_false_iff, decide_eq_false_iff_not]; omega
  simp only [h1, Bool.false_eq_true, if_false]
  rfl

theorem taken_span_scopeLayout {code : List Tok} {fns : List Fn} {blocks : List Range}
    (L : ScopeLayout code fns blocks) {f : Fn} (hf : f ∈ fns) {R : List Range}
    (hR : R.Sublist blocks) (hb : f.body ∈ R) :
    minList ((R.filter (taken f.body)).map (·.s)) = .ok f.body.s ∧
    maxList ((R.filter (taken f.body)).map (·.e)) = .ok f.body.e := by
  have hb1 := L.bounds f hf
  have hself : taken f.body f.body = true := (taken_iff _ _ hb1.2.2.1).mpr ⟨Nat.le_refl _, by omega⟩
  have hmem : f.body ∈ R.filter (taken f.body) := List.mem_filter.mpr ⟨hb, hself⟩
  constructor
  · apply minList_eq (List.mem_map_of_mem hmem)
    intro x hx
    obtain ⟨b, hb', rfl⟩ := List.mem_map.mp hx
    obtain ⟨hbR, hbt⟩ := List.mem_filter.mp hb'
    have := (taken_iff _ _ (L.blocks_ok b (hR.subset hbR))).mp hbt
    omega
  · apply maxList_eq (List.mem_map_of_mem hmem)
    intro x hx
    obtain ⟨b, hb', rfl⟩ := List.mem_map.mp hx
    obtain ⟨hbR, hbt⟩ := List.mem_filter.mp hb'
    have := (taken_iff _ _ (L.blocks_ok b (hR.subset hbR))).mp hbt
    exact L.block_in_body f hf b (hR.subset hbR) this.1 this.2

theorem buildScopesLoop_scopeLayout {code : List Tok} {fns : List Fn} {blocks : List Range}
    (L : ScopeLayout code fns blocks) :
    ∀ (P : List Fn) (R : List Range), P.Pairwise (fun f g => g.hdr.rng.s < f.hdr.rng.s) →
      (∀ f ∈ P, f ∈ fns) → R.Sublist blocks → (∀ f ∈ P, f.body ∈ R) →
      buildScopesLoop (P.map (·.hdr)) R = .ok (P.map Fn.toScope)
  | [], _, _, _, _, _ => rfl
  | f :: P, R, hP, hfns, hR, hbodies => by
    have hf := hfns f List.mem_cons_self
    have hb := hbodies f List.mem_cons_self
    have hP' := List.pairwise_cons.mp hP
    have hidx := scopeBlockIndices_scopeLayout L hf hR hb
    have hb1 := L.bounds f hf
    have hself : taken f.body f.body = true :=
      (taken_iff _ _ hb1.2.2.1).mpr ⟨Nat.le_refl _, by omega⟩
    obtain ⟨hmin, hmax⟩ := taken_span_scopeLayout L hf hR hb
    have ih := buildScopesLoop_scopeLayout L P (R.filter (fun b => !taken f.body b)) hP'.2
      (fun g hg => hfns g (List.mem_cons_of_mem _ hg))
      ((List.filter_sublist).trans hR)
      (fun g hg => by
        have hgf := hfns g (List.mem_cons_of_mem _ hg)
        have hgb := hbodies g (List.mem_cons_of_mem _ hg)
        refine List.mem_filter.mpr ⟨hgb, ?_⟩
        have hnt := L.body_not_taken g hgf f hf (hP'.1 g hg)
        have hgo := (L.bounds g hgf).2.2.1
        cases ht : taken f.body g.body with
        | false => rfl
        | true => exact absurd ((taken_iff _ _ hgo).mp ht) hnt)
    simp only [List.map_cons, buildScopesLoop, hidx, idxOfSat_isEmpty R _ hb hself,
      Bool.false_eq_true, if_false, idxOfSat_sel, idxOfSat_delete, hmin, hmax, ih]
    rfl

/-- **A1 from `ScopeLayout`**: every function gets exactly its own body block -/
theorem buildScopes0_scopeLayout {code : List Tok} {fns : List Fn} {blocks : List Range}
    (L : ScopeLayout code fns blocks) {hs : List Header} (hperm : hs.Perm (fns.map (·.hdr))) :
    buildScopes0 code hs blocks = .ok (fns.map Fn.toScope) := by
  have hsort : sortDesc code (fun h : Header => h.rng.s) hs
      = .ok (fns.map (·.hdr)).reverse := by
    apply sortDesc_eq_of_perm L.pos_sorted ((List.reverse_perm _).trans hperm.symm)
    · rw [List.pairwise_reverse, List.pairwise_map]; exact L.fns_sorted
    · intro h hh
      obtain ⟨f, hf, rfl⟩ := List.mem_map.mp (hperm.mem_iff.mp hh)
      have := L.bounds f hf
      omega
  have hloop := buildScopesLoop_scopeLayout L fns.reverse blocks
    (List.pairwise_reverse.mpr L.fns_sorted) (fun f hf => List.mem_reverse.mp hf)
    (List.Sublist.refl _) (fun f hf => L.body_mem f (List.mem_reverse.mp hf))
  unfold buildScopes0
  rw [hsort]
  simp only [List.map_reverse] at hloop ⊢
  simp only [hloop, List.reverse_reverse]

/-! ## A3, A4 from `Nested` -/

/-- functions inside the file -/
def FnBounds (code : List Tok) (fns : List Fn) : Prop :=
  ∀ f ∈ fns, f.hdr.rng.s < f.body.e ∧ f.body.e ≤ code.length

theorem countLines_nested {code : List Tok} {fns : List Fn} (hpos : PosSorted code)
    (N : Nested fns) (B : FnBounds code fns) {f : Fn} (hf : f ∈ fns) :
    countLines code f.toScope (childRanges fns f)
      = .ok (countDistinct (ownLines code fns f)) := by
  have hb := B f hf
  apply countLines_spec_L hpos
  · unfold childRanges
    rw [List.pairwise_map]
    exact children_disjoint N f
  · intro c hc
    obtain ⟨g, hg, rfl⟩ := List.mem_map.mp hc
    have := B g (List.mem_filter.mp hg).1
    simp only [Fn.extent]
    omega
  · simp only [Fn.toScope]; omega
  · exact hb.2
  · intro l
    rw [mem_ownLines]
    simp only [Fn.toScope]
    constructor
    · rintro ⟨j, t, h1, h2, h3, h4, h5⟩
      exact ⟨j, t, h1, h2, h3, h4, (covered_childRanges N hf j).mpr h5⟩
    · rintro ⟨j, t, h1, h2, h3, h4, h5⟩
      exact ⟨j, t, h1, h2, h3, h4, (covered_childRanges N hf j).mp h5⟩

theorem measure_nested {code : List Tok} {fns : List Fn} (B : FnBounds code fns) {f : Fn}
    (hf : f ∈ fns) {ch : List Range} {len : Nat}
    (hc : countLines code f.toScope ch = .ok len) :
    ∃ m, measure code f.toScope ch = .ok m ∧ expectedWith code f len = some m := by
  have hb := B f hf
  have hi1 : f.hdr.rng.s < code.length := by omega
  have hi2 : f.body.e - 1 < code.length := by omega
  have hne : ¬ f.body.e = 0 := by omega
  have h1 : getE code f.hdr.rng.s = .ok code[f.hdr.rng.s] := by
    unfold getE; rw [List.getElem?_eq_getElem hi1]
  have h2 : getE code (f.body.e - 1) = .ok code[f.body.e - 1] := by
    unfold getE; rw [List.getElem?_eq_getElem hi2]
  refine ⟨⟨f.hdr.name.val, code[f.hdr.rng.s].line, code[f.hdr.rng.s].col,
    (Tok.endPos_L code[f.body.e - 1]).1, (Tok.endPos_L code[f.body.e - 1]).2, len⟩, ?_, ?_⟩
  · unfold measure
    simp only [Fn.toScope, bind, Except.bind, pure, Except.pure] at hc ⊢
    rw [hc]
    simp only [h1, h2, hne, if_false]
    unfold Tok.endPos_L
    by_cases hz : (lastLineInfo code[f.body.e - 1].val).1 = 0 <;> simp [hz]
  · unfold expectedWith
    rw [if_neg hne, List.getElem?_eq_getElem hi1, List.getElem?_eq_getElem hi2]

theorem measureAll_nested {code : List Tok} {fns : List Fn} (hpos : PosSorted code)
    (N : Nested fns) (B : FnBounds code fns) :
    ∀ (l : List Fn), (∀ f ∈ l, f ∈ fns) →
      ∃ ms, measureAll code (l.map (fun f => (f.toScope, childRanges fns f))) = .ok ms ∧
        ms.map some = l.map (expected code fns)
  | [], _ => ⟨[], rfl, rfl⟩
  | f :: l, h => by
    obtain ⟨ms, h1, h2⟩ := measureAll_nested hpos N B l (fun g hg => h g (List.mem_cons_of_mem _ hg))
    obtain ⟨m, h3, h4⟩ := measure_nested B (h f List.mem_cons_self)
      (countLines_nested hpos N B (h f List.mem_cons_self))
    refine ⟨m :: ms, ?_, ?_⟩
    · simp only [List.map_cons, measureAll, h1, h3]
    · simp only [List.map_cons, h2, expected, h4]

end CL
