import CodeLimit.Model.TokenNest
import CodeLimit.Lemmas.EngineCorrect
/-!
# The table construction commutes with an injective renaming of the predicates

`expression_to_nfa` and `nfa_to_dfa` only compare predicates with `==`. So compiling the
expression `r.map f` (`f` injective) gives the table of `r` with every label renamed by `f`
(`nfaToDfa_map`); and every label of a compiled table is an atom of the expression
(`row_label_atom`).
-/
namespace CL

variable {α β : Type}

def Edge.map (f : α → β) : Edge α → Edge β
  | .eps p q => .eps p q
  | .sym p a q => .sym p (f a) q

def Nfa.map (f : α → β) (N : Nfa α) : Nfa β := ⟨N.start, N.acc, N.next, N.edges.map (Edge.map f)⟩

def Dfa.map (f : α → β) (D : Dfa α) : Dfa β :=
  ⟨D.rows.map (fun r => (r.1, r.2.map (fun pt => (f pt.1, pt.2)))), D.acc⟩

theorem build_map (f : α → β) (r : Rx α) : ∀ s n,
    build (r.map f) s n
      = ⟨(build r s n).acc, (build r s n).next, (build r s n).edges.map (Edge.map f)⟩ := by
  induction r with
  | atom a => intro s n; rfl
  | cat r1 r2 ih1 ih2 =>
    intro s n
    simp only [Rx.map, build, ih1, ih2, List.map_append]
  | alt r1 r2 ih1 ih2 =>
    intro s n
    simp only [Rx.map, build, ih1, ih2, List.map_append, List.map_cons, List.map_nil, Edge.map]
  | opt r ih =>
    intro s n
    simp only [Rx.map, build, ih, List.map_append, List.map_cons, List.map_nil, Edge.map]
  | star r ih =>
    intro s n
    simp only [Rx.map, build, ih, List.map_append, List.map_cons, List.map_nil, Edge.map]
  | plus r ih =>
    intro s n
    simp only [Rx.map, build, ih, List.map_append, List.map_cons, List.map_nil, Edge.map]

theorem compile_map (f : α → β) (r : Rx α) (base : Nat) :
    compile (r.map f) base = (compile r base).map f := by
  simp only [compile, build_map, Nfa.map]

theorem epsSucc_map (f : α → β) (E : List (Edge α)) (q : Nat) :
    epsSucc (E.map (Edge.map f)) q = epsSucc E q := by
  unfold epsSucc
  rw [List.filterMap_map]
  congr 1
  funext e
  cases e <;> rfl

theorem symOut_map (f : α → β) (E : List (Edge α)) (q : Nat) :
    symOut (E.map (Edge.map f)) q = (symOut E q).map (fun p => (f p.1, p.2)) := by
  unfold symOut
  rw [List.filterMap_map, List.map_filterMap]
  congr 1
  funext e
  cases e with
  | eps p r => rfl
  | sym p a r =>
    simp only [Function.comp, Edge.map]
    split <;> rfl

theorem closureAux_map (f : α → β) (E : List (Edge α)) (fuel : Nat) (st vis : List Nat) :
    closureAux (E.map (Edge.map f)) fuel st vis = closureAux E fuel st vis := by
  induction fuel generalizing st vis with
  | zero => rfl
  | succ n ih =>
    cases st with
    | nil => rfl
    | cons q st =>
      simp only [closureAux, epsSucc_map, ih]

theorem closure_map (f : α → β) (E : List (Edge α)) (qs : List Nat) :
    closure (E.map (Edge.map f)) qs = closure E qs := by
  simp only [closure, closureAux_map, List.length_map]

variable [DecidableEq α] [DecidableEq β]

theorem eraseDups_map_injective {f : α → β} (hf : ∀ a b, f a = f b → a = b) (l : List α) :
    (l.map f).eraseDups = l.eraseDups.map f := by
  generalize hn : l.length = n
  induction n using Nat.strongRecOn generalizing l with
  | _ n ih =>
    cases l with
    | nil => rfl
    | cons a as =>
      rw [List.map_cons, List.eraseDups_cons, List.eraseDups_cons, List.map_cons, List.filter_map]
      congr 1
      have hlen : (as.filter fun b => !b == a).length < n := by
        have := List.length_filter_le (fun b => !b == a) as
        simp at hn; omega
      rw [← ih _ hlen _ rfl]
      congr 2
      apply List.filter_congr
      intro b _
      simp only [Function.comp]
      by_cases h : b = a
      · subst h; simp
      · have : f b ≠ f a := fun h' => h (hf _ _ h')
        simp [h, this]

section inj
variable {f : α → β} (hf : ∀ a b, f a = f b → a = b)
include hf

theorem move_map (E : List (Edge α)) (T : List Nat) (a : α) :
    move (E.map (Edge.map f)) T (f a) = move E T a := by
  unfold move
  congr 1
  funext q
  rw [symOut_map, List.filterMap_map]
  congr 1
  funext p
  obtain ⟨b, r⟩ := p
  simp only [Function.comp]
  by_cases h : b = a
  · subst h; simp
  · have : f b ≠ f a := fun h' => h (hf _ _ h')
    simp [h, this]

theorem transitions_map (E : List (Edge α)) (T : List Nat) :
    transitions (E.map (Edge.map f)) T = (transitions E T).map f := by
  unfold transitions
  rw [← eraseDups_map_injective hf, List.map_flatMap]
  congr 2
  funext q
  rw [symOut_map, List.map_map, List.map_map]
  rfl

theorem delta_map (N : Nfa α) (T : List Nat) (a : α) :
    delta (N.map f) T (f a) = delta N T a := by
  simp only [delta, Nfa.map, closure_map, move_map hf]

/-- the loop of `nfa_to_dfa` on the renamed automaton builds the renamed table (the set
iteration orders are assumed to correspond) -/
theorem dfaLoop_map (N : Nfa α) {ord : List α → List α} {ord' : List β → List β}
    (hord : ∀ l, ord' (l.map f) = (ord l).map f) :
    ∀ (fuel : Nat) (st : List (DState × List Nat)) (marked : List (List Nat)) (D : Dfa α),
      dfaLoop (N.map f) ord' fuel st marked (D.map f)
        = (dfaLoop N ord fuel st marked D).map (Dfa.map f) := by
  intro fuel
  induction fuel with
  | zero => intro st marked D; rfl
  | succ n ih =>
    intro st marked D
    cases st with
    | nil => rfl
    | cons sT st =>
      obtain ⟨s, T⟩ := sT
      simp only [dfaLoop]
      split
      · exact ih st marked D
      · have htr : transitions (N.map f).edges T = (transitions N.edges T).map f :=
          transitions_map hf N.edges T
        rw [htr, hord]
        simp only [List.map_map]
        have hd : ∀ p, delta (N.map f) T (f p) = delta N T p := fun p => delta_map hf N T p
        have e1 : (fun p => (p, DState.set (delta (N.map f) T p))) ∘ f
            = fun p => (f p, DState.set (delta N T p)) := by
          funext p; simp only [Function.comp, hd]
        have e2 : (fun p => (DState.set (delta (N.map f) T p), delta (N.map f) T p)) ∘ f
            = fun p => (DState.set (delta N T p), delta N T p) := by
          funext p; simp only [Function.comp, hd]
        rw [e1, e2]
        have := ih ((List.map (fun p => (DState.set (delta N T p), delta N T p))
            (ord (transitions N.edges T))).reverse ++ st) (T :: marked)
          { rows := (s, List.map (fun p => (p, DState.set (delta N T p)))
              (ord (transitions N.edges T))) :: D.rows,
            acc := if T.contains N.acc = true then s :: D.acc else D.acc }
        rw [← this]
        simp only [Dfa.map, List.map_cons, List.map_map, Nfa.map]
        rfl

/-- `nfa_to_dfa` of the renamed expression = the renamed table -/
theorem nfaToDfa_map (r : Rx α) (base : Nat) {ord : List α → List α} {ord' : List β → List β}
    (hord : ∀ l, ord' (l.map f) = (ord l).map f) :
    nfaToDfa (compile (r.map f) base) ord' = (nfaToDfa (compile r base) ord).map (Dfa.map f) := by
  rw [compile_map]
  unfold nfaToDfa
  have h := dfaLoop_map hf (compile r base) hord (dfaFuel (compile r base))
    [(DState.start, startSet (compile r base))] [] ⟨[], []⟩
  have e1 : dfaFuel ((compile r base).map f) = dfaFuel (compile r base) := by
    simp [dfaFuel, Nfa.map]
  have e2 : startSet ((compile r base).map f) = startSet (compile r base) := by
    simp [startSet, Nfa.map, closure_map]
  rw [e1, e2]
  exact h

end inj

omit [DecidableEq α] [DecidableEq β] in
theorem Dfa.map_row (f : α → β) (D : Dfa α) (s : DState) :
    (D.map f).row s = (D.row s).map (fun pt => (f pt.1, pt.2)) := by
  unfold Dfa.row Dfa.map
  simp only [List.find?_map]
  cases h : D.rows.find? ((fun r => decide (r.1 = s)) ∘ fun r : DState × List (α × DState) =>
      (r.1, r.2.map (fun pt => (f pt.1, pt.2)))) with
  | none =>
    have h' : D.rows.find? (fun r => decide (r.1 = s)) = none := h
    simp [h']
  | some r =>
    have h' : D.rows.find? (fun r => decide (r.1 = s)) = some r := h
    simp [h']

omit [DecidableEq α] [DecidableEq β] in
theorem Dfa.map_isAcc (f : α → β) (D : Dfa α) (s : DState) : (D.map f).isAcc s = D.isAcc s := rfl

/-! ## labels of the table are atoms of the expression -/

def Rx.atoms : Rx α → List α
  | .atom a => [a]
  | .cat r s => r.atoms ++ s.atoms
  | .alt r s => r.atoms ++ s.atoms
  | .opt r => r.atoms
  | .star r => r.atoms
  | .plus r => r.atoms

omit [DecidableEq α] [DecidableEq β] in
theorem build_label_atom (r : Rx α) : ∀ s n p a q, Edge.sym p a q ∈ (build r s n).edges →
    a ∈ r.atoms := by
  induction r with
  | atom b =>
    intro s n p a q h
    simp only [build, List.mem_cons, Edge.sym.injEq, List.not_mem_nil, or_false] at h
    simp [Rx.atoms, h.2.1]
  | cat r1 r2 ih1 ih2 =>
    intro s n p a q h
    simp only [build, List.mem_append] at h
    simp only [Rx.atoms, List.mem_append]
    rcases h with h | h
    · exact .inl (ih1 _ _ _ _ _ h)
    · exact .inr (ih2 _ _ _ _ _ h)
  | alt r1 r2 ih1 ih2 =>
    intro s n p a q h
    simp only [build, List.mem_append, List.mem_cons, reduceCtorEq, false_or,
      List.not_mem_nil] at h
    simp only [Rx.atoms, List.mem_append]
    rcases h with h | h
    · exact .inl (ih1 _ _ _ _ _ h)
    · exact .inr (ih2 _ _ _ _ _ h)
  | opt r ih =>
    intro s n p a q h
    simp only [build, List.mem_append, List.mem_cons, reduceCtorEq, false_or,
      List.not_mem_nil] at h
    exact ih _ _ _ _ _ h
  | star r ih =>
    intro s n p a q h
    simp only [build, List.mem_append, List.mem_cons, reduceCtorEq, false_or,
      List.not_mem_nil] at h
    exact ih _ _ _ _ _ h
  | plus r ih =>
    intro s n p a q h
    simp only [build, List.mem_append, List.mem_cons, reduceCtorEq, false_or,
      List.not_mem_nil] at h
    exact ih _ _ _ _ _ h

omit [DecidableEq β] in
theorem transitions_label (E : List (Edge α)) (T : List Nat) (a : α) (h : a ∈ transitions E T) :
    ∃ p q, Edge.sym p a q ∈ E := by
  unfold transitions at h
  rw [List.mem_eraseDups, List.mem_flatMap] at h
  obtain ⟨q, _, h⟩ := h
  rw [List.mem_map] at h
  obtain ⟨⟨b, t⟩, hm, rfl⟩ := h
  unfold symOut at hm
  rw [List.mem_filterMap] at hm
  obtain ⟨e, he, hm⟩ := hm
  cases e with
  | eps _ _ => cases hm
  | sym p c t' =>
    simp only at hm
    split at hm
    · cases hm; exact ⟨p, t, he⟩
    · cases hm

omit [DecidableEq β] in
theorem dfaLoop_labels (N : Nfa α) {ord : List α → List α} (hord : IsOrder ord) (P : α → Prop)
    (hP : ∀ p a q, Edge.sym p a q ∈ N.edges → P a) :
    ∀ (fuel : Nat) (st : List (DState × List Nat)) (marked : List (List Nat)) (D D' : Dfa α),
      (∀ rw ∈ D.rows, ∀ pt ∈ rw.2, P pt.1) → dfaLoop N ord fuel st marked D = some D' →
      ∀ rw ∈ D'.rows, ∀ pt ∈ rw.2, P pt.1 := by
  intro fuel
  induction fuel with
  | zero => intro st marked D D' _ h; cases h
  | succ n ih =>
    intro st marked D D' hD h
    cases st with
    | nil => simp only [dfaLoop, Option.some.injEq] at h; subst h; exact hD
    | cons sT st =>
      obtain ⟨s, T⟩ := sT
      simp only [dfaLoop] at h
      split at h
      · exact ih _ _ _ _ hD h
      · refine ih _ _ _ _ ?_ h
        intro rw hrw pt hpt
        rcases List.mem_cons.1 hrw with rfl | hrw
        · simp only [List.mem_map] at hpt
          obtain ⟨a, ha, rfl⟩ := hpt
          have ha' : a ∈ transitions N.edges T := (hord _).mem_iff.1 ha
          obtain ⟨p, q, he⟩ := transitions_label _ _ _ ha'
          exact hP p a q he
        · exact hD rw hrw pt hpt

omit [DecidableEq β] in
/-- every label of the compiled table is an atom of the expression -/
theorem row_label_atom {r : Rx α} {base : Nat} {ord : List α → List α} (hord : IsOrder ord)
    {D : Dfa α} (hD : nfaToDfa (compile r base) ord = some D) (s : DState) :
    ∀ pt ∈ D.row s, pt.1 ∈ r.atoms := by
  have h := dfaLoop_labels (compile r base) hord (fun a => a ∈ r.atoms)
    (fun p a q he => build_label_atom r _ _ p a q he) _ _ _ ⟨[], []⟩ D
    (by intro rw hrw; cases hrw) hD
  intro pt hpt
  unfold Dfa.row at hpt
  split at hpt
  · rename_i rw hf
    exact h rw (List.mem_of_find?_eq_some hf) pt hpt
  · cases hpt

end CL
