import CodeLimit.Lemmas.PyTreeBasic
/-!
# Python indentation trees: the line structure of a well-formed forest

Everything here is about the token sequence `ps : List PTok` of the whole file (tokens without
line numbers) and the token-index ranges `pyRanges` of the functions of a sub-forest:

* `nlAt ps j` / `colAt ps j`: the number of line breaks / blank columns before token `j`;
* `FnOK ps h b`: the facts about one function with header range `h` and suite range `b` that
  `PyLayout` needs, stated without line numbers;
* `fnOK_tree`: they hold for every function of a well-formed forest.
-/
namespace CL.PyT

theorem nlAt_eq {ps : List PTok} {j : Nat} {t : PTok} (h : ps[j]? = some t) : nlAt ps j = t.nl := by
  simp [nlAt, h]

theorem colAt_eq {ps : List PTok} {j : Nat} {t : PTok} (h : ps[j]? = some t) :
    colAt ps j = t.col := by
  simp [colAt, h]

/-- what the tree knows about one function: `a` = the first token of the physical line of
`def`; the tokens up to `def` stay on that line; so do the tokens after the parameter list; the
suite begins on a new line; every line of the suite is indented deeper than line `a`; the suite
ends at the end of the file or in front of a line that is not indented deeper than line `a` -/
def FnOK (ps : List PTok) (h b : Range) : Prop :=
  ∃ a, a ≤ h.s ∧ nlAt ps a ≠ 0 ∧ (∀ j, a < j → j ≤ h.s → nlAt ps j = 0) ∧
    (∀ j, h.e < j → j < b.s → nlAt ps j = 0) ∧ nlAt ps b.s ≠ 0 ∧
    (∀ j, b.s ≤ j → j < b.e → nlAt ps j ≠ 0 → colAt ps a < colAt ps j) ∧
    (b.e = ps.length ∨ (nlAt ps b.e ≠ 0 ∧ colAt ps b.e ≤ colAt ps a))

/-- what follows a forest whose statements are indented by `c`: the end of the file, or a new
line that is indented by at most `c` -/
def Follow (ps : List PTok) (k c : Nat) : Prop :=
  k = ps.length ∨ (nlAt ps k ≠ 0 ∧ colAt ps k ≤ c)

theorem Follow.mono {ps : List PTok} {k c c' : Nat} (h : Follow ps k c) (hc : c ≤ c') :
    Follow ps k c' := by
  rcases h with h | h
  · exact .inl h
  · exact .inr ⟨h.1, by omega⟩

theorem all_nl_zero {ps : List PTok} {k : Nat} {l : List PTok} (h : Seg ps k l)
    (hl : l.all (·.nl == 0) = true) {j : Nat} (h1 : k ≤ j) (h2 : j < k + l.length) :
    nlAt ps j = 0 := by
  obtain ⟨t, ht, hp⟩ := seg_all h hl h1 h2
  rw [nlAt_eq ht]
  simpa using hp

/-- one physical line indented by `c` -/
theorem pyLineAt_spec {c : Nat} {l ps : List PTok} {i : Nat} (hl : pyLineAt c l = true)
    (h : Seg ps i l) :
    0 < l.length ∧ nlAt ps i ≠ 0 ∧ colAt ps i = c ∧
      ∀ j, i < j → j < i + l.length → nlAt ps j = 0 := by
  cases l with
  | nil => cases hl
  | cons t ts =>
    simp only [pyLineAt, Bool.and_eq_true, bne_iff_ne, ne_eq, beq_iff_eq] at hl
    obtain ⟨⟨h1, h2⟩, h3⟩ := hl
    obtain ⟨h4, h5⟩ := Seg.cons_iff.mp h
    refine ⟨by simp, by rw [nlAt_eq h4]; exact h1, by rw [colAt_eq h4]; exact h2, ?_⟩
    intro j hj1 hj2
    exact all_nl_zero h5 h3 (by omega) (by simp only [List.length_cons] at hj2; omega)

/-- one statement indented by `c`, continuation lines indented by at least `lim` -/
theorem pyStmtAt_spec {c lim : Nat} {l ps : List PTok} {i : Nat} (hl : pyStmtAt c lim l = true)
    (h : Seg ps i l) :
    0 < l.length ∧ nlAt ps i ≠ 0 ∧ colAt ps i = c ∧
      ∀ j, i < j → j < i + l.length → nlAt ps j ≠ 0 → lim ≤ colAt ps j := by
  cases l with
  | nil => cases hl
  | cons t ts =>
    simp only [pyStmtAt, Bool.and_eq_true, bne_iff_ne, ne_eq, beq_iff_eq] at hl
    obtain ⟨⟨h1, h2⟩, h3⟩ := hl
    obtain ⟨h4, h5⟩ := Seg.cons_iff.mp h
    refine ⟨by simp, by rw [nlAt_eq h4]; exact h1, by rw [colAt_eq h4]; exact h2, ?_⟩
    intro j hj1 hj2 hnl
    obtain ⟨u, hu, hp⟩ := seg_all h5 h3 (j := j) (by omega)
      (by simp only [List.length_cons] at hj2; omega)
    rw [nlAt_eq hu] at hnl
    rw [colAt_eq hu]
    simp only [Bool.or_eq_true, beq_iff_eq, decide_eq_true_eq] at hp
    omega

/-- the first token of a non-empty well-formed forest begins a line indented by `c` -/
theorem first_of_wf {ps : List PTok} {t : PyProg PTok} {i c lim : Nat} (hw : t.wfAt c lim = true)
    (hn : t.isNil = false) (hseg : Seg ps i t.flat) :
    0 < t.size ∧ nlAt ps i ≠ 0 ∧ colAt ps i = c := by
  cases t with
  | nil => cases hn
  | line toks rest =>
    simp only [PyProg.wfAt, Bool.and_eq_true] at hw
    obtain ⟨h1, h2, h3, _⟩ := pyStmtAt_spec hw.1.1 (seg_line hseg).1
    exact ⟨by simp only [PyProg.size]; omega, h2, h3⟩
  | block head suite rest =>
    simp only [PyProg.wfAt, Bool.and_eq_true] at hw
    obtain ⟨h1, h2, h3, _⟩ := pyStmtAt_spec hw.1.1.1.1.1 (seg_block hseg).1
    exact ⟨by simp only [PyProg.size]; omega, h2, h3⟩
  | defn pre kw name params post suite rest =>
    simp only [PyProg.wfAt, Bool.and_eq_true] at hw
    obtain ⟨hpre, hkw, _⟩ := seg_defn hseg
    obtain ⟨h1, h2, h3, _⟩ := pyLineAt_spec hw.1.1.1.1.1.1.1.1.1.1.1.1.1.1.1 (seg_snoc hpre hkw)
    exact ⟨by simp only [PyProg.size]; omega, h2, h3⟩

theorem PyProg.size_nil_of_isNil {α : Type} {t : PyProg α} (h : t.isNil = true) : t.size = 0 := by
  cases t <;> first | rfl | cases h

/-- what follows a suite: the next statement of the enclosing forest, or what follows that
forest -/
theorem follow_rest {ps : List PTok} {rest : PyProg PTok} {k c lim c' : Nat}
    (hw : rest.wfAt c lim = true) (hseg : Seg ps k rest.flat) (hf : Follow ps (k + rest.size) c)
    (hc : c ≤ c') : Follow ps k c' := by
  cases hn : rest.isNil with
  | true =>
    rw [PyProg.size_nil_of_isNil hn, Nat.add_zero] at hf
    exact hf.mono hc
  | false =>
    obtain ⟨_, h2, h3⟩ := first_of_wf hw hn hseg
    exact .inr ⟨h2, by omega⟩

/-- every line of a well-formed forest is indented by at least `m`, when the statements of the
forest are (`m ≤ c`) and the continuation lines of headers are (`m ≤ lim`) -/
theorem deeper_tree {ps : List PTok} : ∀ (t : PyProg PTok) (i c lim m : Nat),
    t.wfAt c lim = true → m ≤ c → m ≤ lim → Seg ps i t.flat →
    ∀ j, i ≤ j → j < i + t.size → nlAt ps j ≠ 0 → m ≤ colAt ps j
  | .nil, i, _, _, _, _, _, _, _, j, h1, h2, _ => by simp only [PyProg.size] at h2; omega
  | .line toks rest, i, c, lim, m, hw, hc, hl, hseg, j, h1, h2, hnl => by
    simp only [PyProg.wfAt, Bool.and_eq_true] at hw
    obtain ⟨hst, hsr⟩ := seg_line hseg
    obtain ⟨_, _, a3, a4⟩ := pyStmtAt_spec hw.1.1 hst
    simp only [PyProg.size] at h2
    rcases Nat.lt_or_ge j (i + toks.length) with hj | hj
    · rcases Nat.eq_or_lt_of_le h1 with rfl | hlt
      · omega
      · have := a4 j hlt hj hnl; omega
    · exact deeper_tree rest _ c lim m hw.2 hc hl hsr j hj (by omega) hnl
  | .block head suite rest, i, c, lim, m, hw, hc, hl, hseg, j, h1, h2, hnl => by
    simp only [PyProg.wfAt, Bool.and_eq_true, decide_eq_true_eq] at hw
    obtain ⟨⟨⟨⟨⟨w1, _⟩, _⟩, w4⟩, w5⟩, w6⟩ := hw
    obtain ⟨hsh, hss, hsr⟩ := seg_block hseg
    obtain ⟨_, _, a3, a4⟩ := pyStmtAt_spec w1 hsh
    simp only [PyProg.size] at h2
    rcases Nat.lt_or_ge j (i + head.length) with hj | hj
    · rcases Nat.eq_or_lt_of_le h1 with rfl | hlt
      · omega
      · have := a4 j hlt hj hnl; omega
    · rcases Nat.lt_or_ge j (i + head.length + suite.size) with hj2 | hj2
      · exact deeper_tree suite _ suite.col lim m w5 (by omega) hl hss j hj hj2 hnl
      · exact deeper_tree rest _ c lim m w6 hc hl hsr j hj2 (by omega) hnl
  | .defn pre kw name params post suite rest, i, c, lim, m, hw, hc, hl, hseg, j, h1, h2, hnl => by
    simp only [PyProg.wfAt, Bool.and_eq_true, decide_eq_true_eq] at hw
    obtain ⟨⟨⟨⟨⟨⟨⟨⟨⟨⟨⟨⟨⟨⟨⟨w1, _⟩, _⟩, _⟩, _⟩, _⟩, w7⟩, _⟩, _⟩, w10⟩, _⟩, _⟩, _⟩, w14⟩, w15⟩, w16⟩ := hw
    obtain ⟨hpre, hkw, hname, hpar, hpost, hss, hsr⟩ := seg_defn hseg
    obtain ⟨_, _, a3, a4⟩ := pyLineAt_spec w1 (seg_snoc hpre hkw)
    simp only [PyProg.size] at h2
    simp only [List.length_append, List.length_singleton] at a4
    rcases Nat.lt_or_ge j (i + pre.length + 1) with hj | hj
    · rcases Nat.eq_or_lt_of_le h1 with rfl | hlt
      · omega
      · exact absurd (a4 j hlt hj) hnl
    · rcases Nat.lt_or_ge j (i + pre.length + 2 + params.length) with hj2 | hj2
      · -- `name ( … )`: a token on a new line is indented by at least `lim`
        have hsn : Seg ps (i + pre.length + 1) (name :: params) := Seg.cons_iff.mpr ⟨hname, hpar⟩
        obtain ⟨t, ht, hp⟩ := seg_all hsn w7 hj (by simp only [List.length_cons]; omega)
        rw [nlAt_eq ht] at hnl
        rw [colAt_eq ht]
        simp only [Bool.or_eq_true, beq_iff_eq, decide_eq_true_eq] at hp
        omega
      · rcases Nat.lt_or_ge j (i + pre.length + 2 + params.length + post.length) with hj3 | hj3
        · exact absurd (all_nl_zero hpost w10 hj2 hj3) hnl
        · rcases Nat.lt_or_ge j (i + pre.length + 2 + params.length + post.length + suite.size)
            with hj4 | hj4
          · exact deeper_tree suite _ suite.col (c + 1) m w15 (by omega) (by omega) hss j hj3 hj4 hnl
          · exact deeper_tree rest _ c lim m w16 hc hl hsr j hj4 (by omega) hnl

/-- **the line facts of every function of a well-formed forest** -/
theorem fnOK_tree {ps : List PTok} : ∀ (t : PyProg PTok) (i c lim : Nat), t.wfAt c lim = true →
    Seg ps i t.flat → Follow ps (i + t.size) c → ∀ r ∈ pyRanges t i, FnOK ps r.1 r.2
  | .nil, _, _, _, _, _, _, r, hr => by cases hr
  | .line toks rest, i, c, lim, hw, hseg, hf, r, hr => by
    simp only [PyProg.wfAt, Bool.and_eq_true] at hw
    simp only [PyProg.size] at hf
    exact fnOK_tree rest _ c lim hw.2 (seg_line hseg).2
      (by rw [← Nat.add_assoc] at hf; exact hf) r hr
  | .block head suite rest, i, c, lim, hw, hseg, hf, r, hr => by
    simp only [PyProg.wfAt, Bool.and_eq_true, decide_eq_true_eq] at hw
    obtain ⟨⟨⟨⟨⟨_, _⟩, _⟩, w4⟩, w5⟩, w6⟩ := hw
    obtain ⟨_, hss, hsr⟩ := seg_block hseg
    simp only [PyProg.size] at hf
    have hf' : Follow ps (i + head.length + suite.size + rest.size) c := by
      rw [show i + head.length + suite.size + rest.size = i + (head.length + suite.size + rest.size)
        by omega]; exact hf
    simp only [pyRanges, List.mem_append] at hr
    rcases hr with hr | hr
    · exact fnOK_tree suite _ suite.col lim w5 hss (follow_rest w6 hsr hf' (by omega)) r hr
    · exact fnOK_tree rest _ c lim w6 hsr hf' r hr
  | .defn pre kw name params post suite rest, i, c, lim, hw, hseg, hf, r, hr => by
    simp only [PyProg.wfAt, Bool.and_eq_true, decide_eq_true_eq, Bool.not_eq_true'] at hw
    obtain ⟨⟨⟨⟨⟨⟨⟨⟨⟨⟨⟨⟨⟨⟨⟨w1, _⟩, _⟩, _⟩, _⟩, _⟩, _⟩, _⟩, _⟩, w10⟩, _⟩, _⟩, w13⟩, w14⟩, w15⟩, w16⟩ := hw
    obtain ⟨hpre, hkw, hname, hpar, hpost, hss, hsr⟩ := seg_defn hseg
    simp only [PyProg.size] at hf
    have hf' : Follow ps (i + pre.length + 2 + params.length + post.length + suite.size + rest.size)
        c := by
      rw [show i + pre.length + 2 + params.length + post.length + suite.size + rest.size
        = i + (pre.length + 2 + params.length + post.length + suite.size + rest.size) by omega]
      exact hf
    simp only [pyRanges, List.mem_cons, List.mem_append] at hr
    rcases hr with rfl | hr | hr
    · obtain ⟨_, a2, a3, a4⟩ := pyLineAt_spec w1 (seg_snoc hpre hkw)
      simp only [List.length_append, List.length_singleton] at a4
      obtain ⟨_, b2, b3⟩ := first_of_wf w15 w13 hss
      refine ⟨i, by simp only; omega, a2, ?_, ?_, b2, ?_, ?_⟩
      · intro j h1 h2
        exact a4 j h1 (by simp only at h2; omega)
      · intro j h1 h2
        simp only at h1 h2
        exact all_nl_zero hpost w10 (by omega) h2
      · intro j h1 h2 hnl
        simp only at h1 h2
        have := deeper_tree suite _ suite.col (c + 1) (c + 1) w15 (by omega) (Nat.le_refl _) hss j
          h1 h2 hnl
        omega
      · have := follow_rest w16 hsr hf' (Nat.le_refl c)
        rcases this with h | h
        · exact .inl h
        · exact .inr ⟨h.1, by simp only; omega⟩
    · exact fnOK_tree suite _ suite.col (c + 1) w15 hss (follow_rest w16 hsr hf' (by omega)) r hr
    · exact fnOK_tree rest _ c lim w16 hsr hf' r hr

end CL.PyT
