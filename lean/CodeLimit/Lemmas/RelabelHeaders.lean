import CodeLimit.Lemmas.RelabelEngine
/-!
# Relabelling, part 2: filters, headers, sorting

`f` is strictly monotone throughout (`StrictMonoN f`).
-/
namespace CL

/-- strictly monotone map on line numbers -/
def StrictMonoN (f : Nat → Nat) : Prop := ∀ a b, a < b → f a < f b

namespace StrictMonoN
variable {f : Nat → Nat} (hf : StrictMonoN f)
include hf

theorem lt_iff (a b : Nat) : f a < f b ↔ a < b := by
  constructor
  · intro h
    rcases Nat.lt_trichotomy a b with h1 | h1 | h1
    · exact h1
    · subst h1; omega
    · have := hf b a h1; omega
  · exact hf a b

theorem inj {a b : Nat} (h : f a = f b) : a = b := by
  rcases Nat.lt_trichotomy a b with h1 | h1 | h1
  · have := hf a b h1; omega
  · exact h1
  · have := hf b a h1; omega

theorem eq_iff (a b : Nat) : f a = f b ↔ a = b := ⟨hf.inj, fun h => by rw [h]⟩

theorem le_iff (a b : Nat) : f a ≤ f b ↔ a ≤ b := by
  have := hf.lt_iff b a
  omega

theorem beq (a b : Nat) : (f a == f b) = (a == b) := by
  rw [Bool.eq_iff_iff]; simp [hf.eq_iff a b]

theorem decide_lt (a b : Nat) : decide (f a < f b) = decide (a < b) := by
  simp [hf.lt_iff]

theorem decide_le (a b : Nat) : decide (f a ≤ f b) = decide (a ≤ b) := by
  simp [hf.le_iff]

end StrictMonoN

variable (f : Nat → Nat)

def Header.rl (h : Header) : Header := { h with name := h.name.rl f }
def Scope.rl (s : Scope) : Scope := { s with hdr := s.hdr.rl f }

@[simp] theorem Header.rl_rng (h : Header) : (h.rl f).rng = h.rng := rfl
@[simp] theorem Header.rl_name (h : Header) : (h.rl f).name = h.name.rl f := rfl
@[simp] theorem Scope.rl_hdr (s : Scope) : (s.rl f).hdr = s.hdr.rl f := rfl
@[simp] theorem Scope.rl_blk (s : Scope) : (s.rl f).blk = s.blk := rfl
@[simp] theorem Scope.rl_contains (a b : Scope) : (a.rl f).contains (b.rl f) = a.contains b := rfl

/-! ## filters -/

theorem filterTokens_relabel (kc : Bool) (all : List Tok) :
    filterTokens kc (relabel f all) = relabel f (filterTokens kc all) := by
  simp only [filterTokens, relabel, List.filter_map]
  rfl

theorem noclTokens_relabel (all : List Tok) :
    noclTokens (relabel f all) = relabel f (noclTokens all) := by
  simp only [noclTokens, relabel, List.filter_map]
  rfl

/-! ## headers -/

theorem firstName_relabel (ts : List Tok) :
    firstName (ts.map (Tok.rl f)) = (firstName ts).map (Tok.rl f) := by
  induction ts with
  | nil => rfl
  | cons t ts ih =>
    simp only [List.map_cons, firstName, Tok.rl_isName]
    by_cases h : t.isName = true
    · simp [h]
    · simp [h, ih]

theorem namesOf_relabel (ms : List (Match Tok)) :
    namesOf (ms.map (Match.map (Tok.rl f))) = (namesOf ms).map (List.map (Header.rl f)) := by
  induction ms with
  | nil => rfl
  | cons m ms ih =>
    simp only [List.map_cons, namesOf, Match.map_toks, firstName_relabel, ih, Match.map_s, Match.map_e]
    rcases firstName m.toks with e | n <;> rcases namesOf ms with e' | r <;> rfl

theorem filterFollow_relabel (D : Dfa Pred) (toks : List Tok) (ms : List (Match Tok)) :
    filterFollow (dfaMachine D tokAcceptor) (relabel f toks) (ms.map (Match.map (Tok.rl f))) =
      (filterFollow (dfaMachine D tokAcceptor) toks ms).map (List.map (Match.map (Tok.rl f))) := by
  induction ms with
  | nil => rfl
  | cons m ms ih =>
    simp only [List.map_cons, filterFollow, Match.map_e, relabel_drop, startsWithM_tok_relabel, ih]
    rcases startsWithM (dfaMachine D tokAcceptor) (dfaMachine D tokAcceptor).init (toks.drop m.e) 0
      with e | (_ | n) <;>
    rcases filterFollow (dfaMachine D tokAcceptor) toks ms with e' | r <;> rfl

theorem getHeaders_relabel (hp : HeaderPat) (toks : List Tok) :
    getHeaders hp (relabel f toks) = (getHeaders hp toks).map (List.map (Header.rl f)) := by
  unfold getHeaders
  rcases compileTok hp.expr with e | D
  · rfl
  · simp only [bind, Except.bind, findAll_tok_relabel]
    rcases findAll (dfaMachine D tokAcceptor) toks with e | ms
    · rfl
    · simp only [Except.map_ok']
      rcases hp.follow with _ | fo
      · simp only [pure, Except.pure]
        exact namesOf_relabel f ms
      · dsimp only
        rcases compileTok fo with e | F
        · rfl
        · simp only [filterFollow_relabel]
          rcases filterFollow (dfaMachine F tokAcceptor) toks ms with e | ms'
          · rfl
          · exact namesOf_relabel f ms'

theorem concatHeaders_relabel (toks : List Tok) (hps : List HeaderPat) :
    concatHeaders (relabel f toks) hps = (concatHeaders toks hps).map (List.map (Header.rl f)) := by
  induction hps with
  | nil => rfl
  | cons hp hps ih =>
    simp only [concatHeaders, getHeaders_relabel, ih]
    rcases getHeaders hp toks with e | a <;> rcases concatHeaders toks hps with e' | b <;>
      simp

theorem extractHeaders_relabel (L : Language) (toks : List Tok) :
    extractHeaders L (relabel f toks) = (extractHeaders L toks).map (List.map (Header.rl f)) := by
  unfold extractHeaders
  rw [concatHeaders_relabel]
  rcases concatHeaders toks L.pats with e | hs
  · rfl
  · simp only [Except.map_ok']
    rcases L.prevKw with _ | kw
    · rfl
    · simp only [Except.map_ok', List.filter_map, relabel_getElem?]
      congr 2
      apply List.filter_congr
      intro h _
      simp only [Function.comp, Header.rl_rng]
      rcases toks[h.rng.s - 1]? with _ | t <;> simp

/-! ## sorting by `(line, col)` -/

section SortSec
variable {f} (hf : StrictMonoN f)
include hf

theorem keyLe_relabel (a b : Nat × Nat) : keyLe (f a.1, a.2) (f b.1, b.2) = keyLe a b := by
  simp only [keyLe, hf.decide_lt, hf.beq]

omit hf in
theorem posKey_relabel (toks : List Tok) (i : Nat) :
    posKey (relabel f toks) i = (posKey toks i).map (fun k => (f k.1, k.2)) := by
  simp only [posKey, relabel_getElem?]
  rcases toks[i]? with _ | t <;> rfl

omit hf in
theorem withKeys_relabel {γ : Type} (toks : List Tok) (start start' : γ → Nat) (g : γ → γ)
    (hg : ∀ x, start' (g x) = start x) (xs : List γ) :
    withKeys (relabel f toks) start' (xs.map g) =
      (withKeys toks start xs).map (List.map (fun kx => ((f kx.1.1, kx.1.2), g kx.2))) := by
  induction xs with
  | nil => rfl
  | cons x xs ih =>
    simp only [List.map_cons, withKeys, hg, posKey_relabel, ih]
    rcases posKey toks (start x) with e | k <;> rcases withKeys toks start xs with e' | r <;> rfl

theorem sortAsc_relabel {γ : Type} (toks : List Tok) (start start' : γ → Nat) (g : γ → γ)
    (hg : ∀ x, start' (g x) = start x) (xs : List γ) :
    sortAsc (relabel f toks) start' (xs.map g) = (sortAsc toks start xs).map (List.map g) := by
  unfold sortAsc
  rw [withKeys_relabel toks start start' g hg]
  rcases withKeys toks start xs with e | ks
  · rfl
  · simp only [Except.map_ok']
    rw [← List.map_mergeSort (r := fun a b => keyLe a.1 b.1)]
    · simp [List.map_map, Function.comp_def]
    · intro a _ b _
      exact (keyLe_relabel hf a.1 b.1).symm

theorem sortDesc_relabel {γ : Type} (toks : List Tok) (start start' : γ → Nat) (g : γ → γ)
    (hg : ∀ x, start' (g x) = start x) (xs : List γ) :
    sortDesc (relabel f toks) start' (xs.map g) = (sortDesc toks start xs).map (List.map g) := by
  unfold sortDesc
  rw [withKeys_relabel toks start start' g hg]
  rcases withKeys toks start xs with e | ks
  · rfl
  · simp only [Except.map_ok']
    rw [← List.map_mergeSort (r := fun a b => keyLe b.1 a.1)]
    · simp [List.map_map, Function.comp_def]
    · intro a _ b _
      exact (keyLe_relabel hf b.1 a.1).symm

theorem sortAsc_relabel_id {γ : Type} (toks : List Tok) (start : γ → Nat) (xs : List γ) :
    sortAsc (relabel f toks) start xs = sortAsc toks start xs := by
  have := sortAsc_relabel hf toks start start id (fun _ => rfl) xs
  simp only [List.map_id] at this
  rw [this]
  rcases sortAsc toks start xs with e | r <;> simp

end SortSec

/-! ## brace blocks -/

theorem balancedPairs_relabel (op cl : Str) (toks : List Tok) (i : Nat) (st : List Nat) :
    balancedPairs op cl (relabel f toks) i st = balancedPairs op cl toks i st := by
  induction toks generalizing i st with
  | nil => rfl
  | cons t ts ih =>
    simp only [relabel_cons, balancedPairs, Tok.rl_isSymbol, ih]

theorem getBlocks_relabel {f} (hf : StrictMonoN f) (toks : List Tok) :
    getBlocks (relabel f toks) = getBlocks toks := by
  unfold getBlocks
  rw [balancedPairs_relabel, sortAsc_relabel_id hf]

end CL
