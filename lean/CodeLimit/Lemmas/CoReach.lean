import CodeLimit.Lemmas.Thompson
import CodeLimit.Lemmas.SubsetSem
/-!
# Co-reachability in Thompson fragments; viable prefixes in language terms

Every state of the fragment `build r s n` can reach the fragment's accepting state. Hence a
word `u` is a *viable prefix* for the NFA `compile r base` (some state is reachable on `u`)
exactly when `u` is a prefix of a word of `Lang r` - a notion that depends neither on the id
base nor on anything else of the construction.
-/
namespace CL

variable {α : Type}

theorem Path.snoc_eps {E : List (Edge α)} {p q r : Nat} {w : List α}
    (h : Path E p w q) (he : Edge.eps q r ∈ E) : Path E p w r := by
  have := Path.trans h (Path.eps he (Path.nil r))
  simpa using this

/-- every state of a fragment can reach the fragment's accepting state -/
theorem build_coreach (r : Rx α) : ∀ s n, s < n → ∀ q,
    (q = s ∨ (n ≤ q ∧ q < (build r s n).next)) →
      ∃ v, Path (build r s n).edges q v (build r s n).acc := by
  induction r with
  | atom a =>
    intro s n h q hq
    rw [build_atom] at hq ⊢
    simp only at hq ⊢
    rcases hq with rfl | hq
    · exact ⟨[a], .sym (by simp) (.nil n)⟩
    · have : q = n := by omega
      subst this
      exact ⟨[], .nil _⟩
  | cat r1 r2 ih1 ih2 =>
    intro s n h q hq
    have o1 := build_ok r1 s n h
    have h2 := o1.acc_rng.2
    have i1 := ih1 s n h
    have i2 := ih2 (build r1 s n).acc (build r1 s n).next h2
    rw [build_cat] at hq ⊢
    simp only at hq ⊢
    generalize build r1 s n = f1 at *
    generalize build r2 f1.acc f1.next = f2 at *
    have hl : ∀ e, e ∈ f1.edges → e ∈ f1.edges ++ f2.edges := fun e he => by simp [he]
    have hr : ∀ e, e ∈ f2.edges → e ∈ f1.edges ++ f2.edges := fun e he => by simp [he]
    obtain ⟨v2, p2⟩ := i2 f1.acc (.inl rfl)
    by_cases hq1 : q = s ∨ (n ≤ q ∧ q < f1.next)
    · obtain ⟨v1, p1⟩ := i1 q hq1
      exact ⟨v1 ++ v2, (p1.mono hl).trans (p2.mono hr)⟩
    · obtain ⟨v, p⟩ := i2 q (.inr ⟨by omega, by omega⟩)
      exact ⟨v, p.mono hr⟩
  | alt r1 r2 ih1 ih2 =>
    intro s n h q hq
    have o1 := build_ok r1 n (n + 2) (by omega)
    have hn1 := o1.next_gt
    have o2 := build_ok r2 (n + 1) (build r1 n (n + 2)).next (by omega)
    have hn2 := o2.next_gt
    have i1 := ih1 n (n + 2) (by omega)
    have i2 := ih2 (n + 1) (build r1 n (n + 2)).next (by omega)
    rw [build_alt] at hq ⊢
    simp only at hq ⊢
    generalize build r1 n (n + 2) = f1 at *
    generalize build r2 (n + 1) f1.next = f2 at *
    generalize hE : [Edge.eps s n, Edge.eps s (n + 1), Edge.eps f1.acc f2.next,
      Edge.eps f2.acc f2.next] ++ (f1.edges ++ f2.edges) = E
    have e1 : Edge.eps s n ∈ E := by subst hE; simp
    have e3 : Edge.eps f1.acc f2.next ∈ E := by subst hE; simp
    have e4 : Edge.eps f2.acc f2.next ∈ E := by subst hE; simp
    have hl : ∀ e, e ∈ f1.edges → e ∈ E := fun e he => by subst hE; simp [he]
    have hr : ∀ e, e ∈ f2.edges → e ∈ E := fun e he => by subst hE; simp [he]
    have P1 : ∀ q, (q = n ∨ (n + 2 ≤ q ∧ q < f1.next)) → ∃ v, Path E q v f2.next := by
      intro q hq
      obtain ⟨v, p⟩ := i1 q hq
      exact ⟨v, (p.mono hl).snoc_eps e3⟩
    have P2 : ∀ q, (q = n + 1 ∨ (f1.next ≤ q ∧ q < f2.next)) → ∃ v, Path E q v f2.next := by
      intro q hq
      obtain ⟨v, p⟩ := i2 q hq
      exact ⟨v, (p.mono hr).snoc_eps e4⟩
    rcases hq with rfl | hq
    · obtain ⟨v, p⟩ := P1 n (.inl rfl)
      exact ⟨v, .eps e1 p⟩
    · by_cases c1 : q = n ∨ (n + 2 ≤ q ∧ q < f1.next)
      · exact P1 q c1
      · by_cases c2 : q = n + 1 ∨ (f1.next ≤ q ∧ q < f2.next)
        · exact P2 q c2
        · have : q = f2.next := by omega
          subst this
          exact ⟨[], .nil _⟩
  | opt r ih =>
    intro s n h q hq
    have o := build_ok r n (n + 1) (by omega)
    have hn := o.next_gt
    have i := ih n (n + 1) (by omega)
    rw [build_opt] at hq ⊢
    simp only at hq ⊢
    generalize build r n (n + 1) = f at *
    generalize hE : [Edge.eps s n, Edge.eps s f.next, Edge.eps f.acc f.next] ++ f.edges = E
    have e2 : Edge.eps s f.next ∈ E := by subst hE; simp
    have e3 : Edge.eps f.acc f.next ∈ E := by subst hE; simp
    have hl : ∀ e, e ∈ f.edges → e ∈ E := fun e he => by subst hE; simp [he]
    rcases hq with rfl | hq
    · exact ⟨[], .eps e2 (.nil _)⟩
    · by_cases c : q = n ∨ (n + 1 ≤ q ∧ q < f.next)
      · obtain ⟨v, p⟩ := i q c
        exact ⟨v, (p.mono hl).snoc_eps e3⟩
      · have : q = f.next := by omega
        subst this
        exact ⟨[], .nil _⟩
  | star r ih =>
    intro s n h q hq
    have o := build_ok r n (n + 1) (by omega)
    have hn := o.next_gt
    have i := ih n (n + 1) (by omega)
    rw [build_star] at hq ⊢
    simp only at hq ⊢
    generalize build r n (n + 1) = f at *
    generalize hE : [Edge.eps s n, Edge.eps s f.next, Edge.eps f.acc n,
      Edge.eps f.acc f.next] ++ f.edges = E
    have e2 : Edge.eps s f.next ∈ E := by subst hE; simp
    have e4 : Edge.eps f.acc f.next ∈ E := by subst hE; simp
    have hl : ∀ e, e ∈ f.edges → e ∈ E := fun e he => by subst hE; simp [he]
    rcases hq with rfl | hq
    · exact ⟨[], .eps e2 (.nil _)⟩
    · by_cases c : q = n ∨ (n + 1 ≤ q ∧ q < f.next)
      · obtain ⟨v, p⟩ := i q c
        exact ⟨v, (p.mono hl).snoc_eps e4⟩
      · have : q = f.next := by omega
        subst this
        exact ⟨[], .nil _⟩
  | plus r ih =>
    intro s n h q hq
    have o := build_ok r n (n + 1) (by omega)
    have hn := o.next_gt
    have i := ih n (n + 1) (by omega)
    rw [build_plus] at hq ⊢
    simp only at hq ⊢
    generalize build r n (n + 1) = f at *
    generalize hE : [Edge.eps s n, Edge.eps f.acc n, Edge.eps f.acc f.next] ++ f.edges = E
    have e1 : Edge.eps s n ∈ E := by subst hE; simp
    have e3 : Edge.eps f.acc f.next ∈ E := by subst hE; simp
    have hl : ∀ e, e ∈ f.edges → e ∈ E := fun e he => by subst hE; simp [he]
    have P : ∀ q, (q = n ∨ (n + 1 ≤ q ∧ q < f.next)) → ∃ v, Path E q v f.next := by
      intro q c
      obtain ⟨v, p⟩ := i q c
      exact ⟨v, (p.mono hl).snoc_eps e3⟩
    rcases hq with rfl | hq
    · obtain ⟨v, p⟩ := P n (.inl rfl)
      exact ⟨v, .eps e1 p⟩
    · by_cases c : q = n ∨ (n + 1 ≤ q ∧ q < f.next)
      · exact P q c
      · have : q = f.next := by omega
        subst this
        exact ⟨[], .nil _⟩

/-- a word is a viable prefix of the NFA of `r` (some state is reachable on it) exactly when it
is a prefix of a word of the language of `r` -/
theorem viable_iff (r : Rx α) (base : Nat) (u : List α) :
    (∃ q, Path (compile r base).edges (compile r base).start u q) ↔ ∃ v, Lang r (u ++ v) := by
  constructor
  · rintro ⟨q, hq⟩
    have o := build_ok r base (base + 1) (by omega)
    have hrng : q = base ∨ (base + 1 ≤ q ∧ q < (build r base (base + 1)).next) := by
      rcases hq.end_cases with ⟨h1, _⟩ | ⟨e, he, h1⟩
      · exact .inl h1
      · have := o.dst_rng e he
        exact .inr (by omega)
    obtain ⟨v, hv⟩ := build_coreach r base (base + 1) (by omega) q hrng
    exact ⟨v, (thompson_correct r base (u ++ v)).1 (Path.trans hq hv)⟩
  · rintro ⟨v, hv⟩
    obtain ⟨q, hq, _⟩ := Path.split ((thompson_correct r base (u ++ v)).2 hv)
    exact ⟨q, hq⟩

end CL
