import CodeLimit.Lemmas.Relabel
import CodeLimit.Lemmas.ExceptDec
/-!
# Invisible tokens (whitespace, comments without the suppression marker) and counted lines
-/
namespace CL

/-- a whitespace token or a comment that does not start with the suppression marker -/
def Invisible (t : Tok) : Prop :=
  t.isWhitespace = true ∨ (t.isComment = true ∧ isNoclText t.val = false)

instance (t : Tok) : Decidable (Invisible t) := by unfold Invisible; exact inferInstance

/-- a code token: neither whitespace nor comment (what `filterTokens false` keeps) -/
def IsCode (t : Tok) : Prop := t.isWhitespace = false ∧ t.isComment = false

instance (t : Tok) : Decidable (IsCode t) := by unfold IsCode; exact inferInstance

/-- `b` is obtained from `a` by removing and inserting invisible tokens at arbitrary places -/
inductive EditInvisible : List Tok → List Tok → Prop
  | nil : EditInvisible [] []
  | keep (t : Tok) {a b : List Tok} : EditInvisible a b → EditInvisible (t :: a) (t :: b)
  | remove (t : Tok) {a b : List Tok} : Invisible t → EditInvisible a b → EditInvisible (t :: a) b
  | insert (t : Tok) {a b : List Tok} : Invisible t → EditInvisible a b → EditInvisible a (t :: b)

theorem Tok.isComment_of_isWhitespace {t : Tok} (h : t.isWhitespace = true) : t.isComment = false := by
  simp only [Tok.isWhitespace, Bool.and_eq_true, beq_iff_eq] at h
  simp [Tok.isComment, h.1]

theorem filterTokens_cons_invisible {t : Tok} (h : Invisible t) (ts : List Tok) :
    filterTokens false (t :: ts) = filterTokens false ts := by
  unfold filterTokens
  rw [List.filter_cons]
  rcases h with h | ⟨h, _⟩
  · simp [h]
  · by_cases hw : t.isWhitespace = true <;> simp [hw, h]

theorem noclTokens_cons_invisible {t : Tok} (h : Invisible t) (ts : List Tok) :
    noclTokens (t :: ts) = noclTokens ts := by
  unfold noclTokens
  rw [List.filter_cons]
  rcases h with h | ⟨_, h⟩
  · simp [Tok.isComment_of_isWhitespace h]
  · simp [h]

theorem EditInvisible.filterTokens_eq {a b : List Tok} (h : EditInvisible a b) :
    filterTokens false a = filterTokens false b := by
  induction h with
  | nil => rfl
  | keep t _ ih => simp only [filterTokens, List.filter_cons] at ih ⊢; rw [ih]
  | remove t ht _ ih => rw [filterTokens_cons_invisible ht, ih]
  | insert t ht _ ih => rw [filterTokens_cons_invisible ht, ih]

theorem EditInvisible.noclTokens_eq {a b : List Tok} (h : EditInvisible a b) :
    noclTokens a = noclTokens b := by
  induction h with
  | nil => rfl
  | keep t _ ih => simp only [noclTokens, List.filter_cons] at ih ⊢; rw [ih]
  | remove t ht _ ih => rw [noclTokens_cons_invisible ht, ih]
  | insert t ht _ ih => rw [noclTokens_cons_invisible ht, ih]

theorem EditInvisible.refl (a : List Tok) : EditInvisible a a := by
  induction a with
  | nil => exact .nil
  | cons t a ih => exact .keep t ih

theorem EditInvisible.symm {a b : List Tok} (h : EditInvisible a b) : EditInvisible b a := by
  induction h with
  | nil => exact .nil
  | keep t _ ih => exact .keep t ih
  | remove t ht _ ih => exact .insert t ht ih
  | insert t ht _ ih => exact .remove t ht ih

/-- deleting the tokens rejected by `p`, all of which are invisible -/
theorem EditInvisible.filter (all : List Tok) (p : Tok → Bool)
    (h : ∀ t ∈ all, p t = false → Invisible t) : EditInvisible all (all.filter p) := by
  induction all with
  | nil => exact .nil
  | cons t ts ih =>
    have ih' := ih (fun t ht => h t (List.mem_cons_of_mem _ ht))
    rw [List.filter_cons]
    by_cases hp : p t = true
    · simp only [hp, ↓reduceIte]; exact .keep t ih'
    · simp only [hp, Bool.false_eq_true, ↓reduceIte]
      exact .remove t (h t (List.mem_cons_self ..) (by simpa using hp)) ih'

theorem mem_filterTokens_false {all : List Tok} {t : Tok} :
    t ∈ filterTokens false all ↔ t ∈ all ∧ IsCode t := by
  unfold filterTokens IsCode
  rw [List.mem_filter]
  by_cases hw : t.isWhitespace = true <;> by_cases hc : t.isComment = true <;> simp [hw, hc]

/-! ## inserting `k` lines after line `n` -/

/-- the renumbering caused by inserting `k` new lines directly after line `n` -/
def insertAfter (n k : Nat) (l : Nat) : Nat := if l ≤ n then l else l + k

theorem insertAfter_strictMono (n k : Nat) : StrictMonoN (insertAfter n k) := by
  intro a b h
  unfold insertAfter
  split <;> split <;> omega

/-- no code token of the file straddles the end of line `n` -/
theorem shiftOn_insertAfter (n k : Nat) (toks : List Tok)
    (h : ∀ t ∈ toks, t.line ≤ n → t.line + (lastLineInfo t.val).1 ≤ n) :
    ShiftOn (insertAfter n k) toks := by
  intro t ht i hi
  have := h t ht
  unfold insertAfter
  split <;> split <;> omega

/-- executable check of `ShiftOn` -/
theorem shiftOn_of_check (f : Nat → Nat) (toks : List Tok)
    (h : (toks.all fun t => (List.range ((lastLineInfo t.val).1 + 1)).all fun i =>
      f (t.line + i) == f t.line + i) = true) : ShiftOn f toks := by
  intro t ht i hi
  rw [List.all_eq_true] at h
  have h1 := h t ht
  rw [List.all_eq_true] at h1
  have h2 := h1 i (List.mem_range.mpr (by omega))
  simpa using h2

/-- executable check of the shift hypothesis restricted to code tokens -/
theorem shiftCode_of_check (f : Nat → Nat) (toks : List Tok)
    (h : ((filterTokens false toks).all fun t => (List.range ((lastLineInfo t.val).1 + 1)).all fun i =>
      f (t.line + i) == f t.line + i) = true) :
    ∀ t ∈ toks, IsCode t → ∀ i, i ≤ (lastLineInfo t.val).1 → f (t.line + i) = f t.line + i :=
  fun t ht hc => shiftOn_of_check f _ h t (mem_filterTokens_false.mpr ⟨ht, hc⟩)


/-! ## counted lines -/

/-- the lines that `count_lines` collects for a scope; it returns how many distinct ones -/
def countedLines (code : List Tok) (s : Scope) (ch : List Range) : Except Err (List Nat) :=
  match sortAsc code Range.s ch with
  | .error e => .error e
  | .ok ch => scopeLinesLoop code (s.blk.e - s.hdr.rng.s) s.hdr.rng.s ch

theorem countLines_eq_countedLines (code : List Tok) (s : Scope) (ch : List Range) :
    countLines code s ch = (countedLines code s ch).map countDistinct := by
  unfold countLines countedLines
  rcases sortAsc code Range.s ch with e | ch'
  · rfl
  · dsimp only
    rcases scopeLinesLoop code (s.blk.e - s.hdr.rng.s) s.hdr.rng.s ch' with e | ls <;> rfl

theorem pairOk {X R : Except Err (List Nat)} {ls : List Nat}
    (h : (match X, R with
        | .ok a, .ok r => Except.ok (a ++ r)
        | .error e, _ => .error e
        | _, .error e => .error e) = .ok ls) :
    ∃ a r, X = .ok a ∧ R = .ok r ∧ ls = a ++ r := by
  rcases X with e | a <;> rcases R with e' | r <;> simp at h
  exact ⟨a, r, rfl, rfl, h.symm⟩

theorem keepOk {c : Prop} [Decidable c] {toks : List Tok} {i : Nat} {a : List Nat}
    (h : (if c then (getE toks i).map (fun t => [t.line]) else .ok []) = .ok a) :
    a = [] ∨ ∃ t, toks[i]? = some t ∧ a = [t.line] := by
  by_cases hc : c
  · simp only [hc, ↓reduceIte] at h
    unfold getE at h
    cases hx : toks[i]? with
    | none => simp [hx] at h
    | some x =>
      simp only [hx, Except.map_ok', Except.ok.injEq] at h
      exact .inr ⟨x, rfl, h.symm⟩
  · simp only [hc, ↓reduceIte, Except.ok.injEq] at h
    exact .inl h.symm

theorem scopeLinesLoop_mem (toks : List Tok) (n i : Nat) (ch : List Range) (ls : List Nat)
    (h : scopeLinesLoop toks n i ch = .ok ls) :
    ∀ l ∈ ls, ∃ j t, i ≤ j ∧ j < i + n ∧ toks[j]? = some t ∧ t.line = l := by
  induction n generalizing i ch ls with
  | zero =>
    simp only [scopeLinesLoop, Except.ok.injEq] at h
    subst h; simp
  | succ n ih =>
    simp only [scopeLinesLoop] at h
    obtain ⟨a, r, hX, hR, rfl⟩ := pairOk h
    intro l hl
    rcases List.mem_append.mp hl with hl | hl
    · rcases keepOk hX with rfl | ⟨t, ht, rfl⟩
      · simp at hl
      · simp only [List.mem_singleton] at hl
        exact ⟨i, t, Nat.le_refl _, by omega, ht, hl.symm⟩
    · obtain ⟨j, t, h1, h2, h3, h4⟩ := ih _ _ _ hR l hl
      exact ⟨j, t, by omega, by omega, h3, h4⟩

theorem countedLines_mem {code : List Tok} {s : Scope} {ch : List Range} {ls : List Nat}
    (h : countedLines code s ch = .ok ls) :
    ∀ l ∈ ls, ∃ j t, s.hdr.rng.s ≤ j ∧ j < s.blk.e ∧ code[j]? = some t ∧ t.line = l := by
  unfold countedLines at h
  cases hs : sortAsc code Range.s ch with
  | error e => simp [hs] at h
  | ok ch' =>
    simp only [hs] at h
    intro l hl
    obtain ⟨j, t, h1, h2, h3, h4⟩ := scopeLinesLoop_mem _ _ _ _ _ h l hl
    exact ⟨j, t, h1, by omega, h3, h4⟩

/-! ## `countDistinct` is monotone -/

theorem nodup_eraseDups_inv (l : List Nat) : l.eraseDups.Nodup := by
  generalize hn : l.length = n
  induction n using Nat.strongRecOn generalizing l with
  | _ n ih =>
    cases l with
    | nil => simp
    | cons a as =>
      rw [List.eraseDups_cons, List.nodup_cons]
      constructor
      · simp
      · have hlen : (as.filter fun b => !b == a).length < n := by
          have := List.length_filter_le (fun b => !b == a) as
          simp at hn; omega
        exact ih _ hlen _ rfl

theorem countDistinct_le_of_subset {l₁ l₂ : List Nat} (h : ∀ x ∈ l₁, x ∈ l₂) :
    countDistinct l₁ ≤ countDistinct l₂ := by
  unfold countDistinct
  apply List.Nodup.length_le_of_subset (nodup_eraseDups_inv l₁)
  intro x hx
  rw [List.mem_eraseDups] at hx ⊢
  exact h x hx

/-! ## from measurements back to scopes -/

theorem measure_len {code : List Tok} {s : Scope} {ch : List Range} {m : Measurement}
    (h : measure code s ch = .ok m) : countLines code s ch = .ok m.len := by
  unfold measure at h
  simp only [bind, Except.bind] at h
  rcases hc : countLines code s ch with e | len
  · simp [hc] at h
  · simp only [hc] at h
    rcases hf : getE code s.hdr.rng.s with e | first
    · simp [hf] at h
    · simp only [hf] at h
      by_cases hz : s.blk.e = 0
      · simp [hz, throw, throwThe, MonadExceptOf.throw] at h
      · simp only [hz, ↓reduceIte] at h
        rcases hl : getE code (s.blk.e - 1) with e | last
        · simp [hl] at h
        · simp only [hl, pure, Except.pure, Except.ok.injEq] at h
          rw [← h]

theorem measureAll_mem {code : List Tok} {scs : List (Scope × List Range)} {ms : List Measurement}
    (h : measureAll code scs = .ok ms) :
    ∀ m ∈ ms, ∃ p ∈ scs, measure code p.1 p.2 = .ok m := by
  induction scs generalizing ms with
  | nil =>
    simp only [measureAll, Except.ok.injEq] at h
    subst h; simp
  | cons p rest ih =>
    obtain ⟨s, ch⟩ := p
    simp only [measureAll] at h
    cases hm : measure code s ch with
    | error e => simp [hm] at h
    | ok m0 =>
      cases hr : measureAll code rest with
      | error e => simp [hm, hr] at h
      | ok r =>
        simp only [hm, hr, Except.ok.injEq] at h
        subst h
        intro m hmem
        rcases List.mem_cons.mp hmem with rfl | hmem
        · exact ⟨(s, ch), List.mem_cons_self .., hm⟩
        · obtain ⟨p, hp, hpm⟩ := ih hr m hmem
          exact ⟨p, List.mem_cons_of_mem _ hp, hpm⟩

end CL
