import CodeLimit.Lemmas.NoclFold
import CodeLimit.Spec.Scan
/-!
# From token-index containment to containment of the reported spans (C17, T3)

`Scope.contains` compares token INDICES (start of the header, end of the block); a report shows
POSITIONS (`sl, sc, el, ec`).  If the code tokens are listed in strictly increasing position
(`PosSorted`) and do not overlap (each ends no later than the next begins), index containment
of two measured scopes implies that the reported span of the first encloses the span of the
second (`encloses_of_contains`).  Hence a function whose reported span is independent of all
other reported spans is `Independent` among the reported scopes (`independent_of_spans`).
-/
namespace CL

theorem posLe_refl (a : Nat × Nat) : posLe a a := .inr ⟨rfl, Nat.le_refl _⟩

theorem posLe_trans {a b c : Nat × Nat} (h1 : posLe a b) (h2 : posLe b c) : posLe a c := by
  unfold posLe at *
  omega

/-- a token does not end before it begins -/
theorem Tok.start_le_endPos (t : Tok) : posLe (t.line, t.col) t.endPos := by
  by_cases h : (lastLineInfo t.val).1 = 0
  · simp [Tok.endPos, posLe, h]
  · simp only [Tok.endPos, posLe, h, if_false]; omega

/-- what a successful `measure` reports: the name of the scope, the position of the first token
of its header and the end position of the last token of its block -/
theorem measure_ok_inv {code : List Tok} {s : Scope} {ch : List Range} {m : Measurement}
    (h : measure code s ch = .ok m) :
    ∃ first last, code[s.hdr.rng.s]? = some first ∧ 0 < s.blk.e ∧
      code[s.blk.e - 1]? = some last ∧ m.name = s.hdr.name.val ∧
      (m.sl, m.sc) = (first.line, first.col) ∧ (m.el, m.ec) = last.endPos := by
  unfold measure at h
  simp only [bind, Except.bind] at h
  split at h
  · cases h
  · unfold getE at h
    cases hf : code[s.hdr.rng.s]? with
    | none => rw [hf] at h; cases h
    | some first =>
      rw [hf] at h
      simp only at h
      by_cases he : s.blk.e = 0
      · rw [if_pos he] at h; cases h
      · rw [if_neg he] at h
        cases hl : code[s.blk.e - 1]? with
        | none => rw [hl] at h; cases h
        | some last =>
          rw [hl] at h
          simp only [pure, Except.pure] at h
          cases h
          exact ⟨first, last, rfl, by omega, rfl, rfl, rfl, rfl⟩

/-- **index containment implies containment of the reported spans** -/
theorem encloses_of_contains {code : List Tok} (hpos : PosSorted code)
    (hnov : code.Pairwise (fun a b => posLe a.endPos (b.line, b.col)))
    {x y : Scope} {cx cy : List Range} {mx my : Measurement}
    (hx : measure code x cx = .ok mx) (hy : measure code y cy = .ok my)
    (hc : x.contains y = true) : mx.encloses my := by
  obtain ⟨fx, lx, hfx, hxe, hlx, _, hsx, hex⟩ := measure_ok_inv hx
  obtain ⟨fy, ly, hfy, hye, hly, _, hsy, hey⟩ := measure_ok_inv hy
  simp only [Scope.contains, Bool.and_eq_true, decide_eq_true_eq, ge_iff_le] at hc
  obtain ⟨hs, he⟩ := hc
  obtain ⟨hfxl, rfl⟩ := List.getElem?_eq_some_iff.mp hfx
  obtain ⟨hfyl, rfl⟩ := List.getElem?_eq_some_iff.mp hfy
  obtain ⟨hlxl, rfl⟩ := List.getElem?_eq_some_iff.mp hlx
  obtain ⟨hlyl, rfl⟩ := List.getElem?_eq_some_iff.mp hly
  unfold Measurement.encloses
  rw [hsx, hsy, hex, hey]
  constructor
  · have := List.pairwise_iff_getElem.mp hpos _ _ hfxl hfyl hs
    unfold posLe
    simp only
    omega
  · rcases Nat.lt_or_ge (y.blk.e - 1) (x.blk.e - 1) with hlt | hge
    · have h1 := List.pairwise_iff_getElem.mp hnov _ _ hlyl hlxl hlt
      exact posLe_trans h1 (Tok.start_le_endPos _)
    · have : y.blk.e - 1 = x.blk.e - 1 := by omega
      simp only [this]
      exact posLe_refl _

/-- the measurements of a scope list, position by position -/
theorem measureAll_fst_getElem {code : List Tok} {scs : List (Scope × List Range)}
    {ms : List Measurement} (h : measureAll code scs = .ok ms) :
    ms.length = scs.length ∧
    ∀ j (hj : j < ms.length) (hj' : j < scs.length),
      measure code scs[j].1 scs[j].2 = .ok ms[j] :=
  ⟨measureAll_length code scs ms h, fun j hj hj' => measureAll_getElem code scs ms h j hj' hj⟩

/-- **span independence gives scope independence**: if the reported scopes `scs` were measured
as `ms`, and the `k`-th measurement neither encloses nor is enclosed by any other one, then the
`k`-th scope is `Independent` among the reported scopes. -/
theorem independent_of_spans {code : List Tok} (hpos : PosSorted code)
    (hnov : code.Pairwise (fun a b => posLe a.endPos (b.line, b.col)))
    {scs : List (Scope × List Range)} {ms : List Measurement}
    (hms : measureAll code scs = .ok ms) {k : Nat} (hk : k < scs.length)
    (hsp : SpanIndependent ms k) :
    Independent (scs.map (·.1)) scs[k].1 := by
  obtain ⟨hlen, hget⟩ := measureAll_fst_getElem hms
  intro y hy hne
  obtain ⟨j, hj, rfl⟩ := List.getElem_of_mem hy
  have hj' : j < scs.length := by simpa using hj
  rw [List.getElem_map] at hne ⊢
  have hjk : j ≠ k := by
    rintro rfl
    exact hne rfl
  obtain ⟨h1, h2⟩ := hsp (by omega) j (by omega) hjk
  have hmk := hget k (by omega) hk
  have hmj := hget j (by omega) hj'
  constructor
  · cases hc : scs[k].1.contains scs[j].1 with
    | false => rfl
    | true => exact absurd (encloses_of_contains hpos hnov hmk hmj hc) h1
  · cases hc : scs[j].1.contains scs[k].1 with
    | false => rfl
    | true => exact absurd (encloses_of_contains hpos hnov hmj hmk hc) h2

end CL
