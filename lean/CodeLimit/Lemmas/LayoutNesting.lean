import CodeLimit.Lemmas.LayoutFacts
/-!
# Stage A2: nesting on a canonical layout

`fold_scopes` (as parent pointers) computes exactly the `parent` of the specification (the
innermost enclosing function) at every depth, and `filter_scopes_nested_functions` keeps exactly
the top-level functions.  Everything here only needs that the functions are sorted, non-empty
and properly nested (`Nested`), which `Layout` implies.
-/
namespace CL

/-- the functions are sorted by their first token and whole functions are disjoint or nested -/
structure Nested (fns : List Fn) : Prop where
  sorted : fns.Pairwise (fun f g => f.hdr.rng.s < g.hdr.rng.s)
  nonempty : ∀ f ∈ fns, f.hdr.rng.s < f.body.e
  laminar : ∀ f ∈ fns, ∀ g ∈ fns, f.hdr.rng.s < g.hdr.rng.s →
    f.body.e ≤ g.hdr.rng.s ∨ g.body.e ≤ f.body.e

theorem LayoutCore.nested {code : List Tok} {fns : List Fn} {blocks : List Range}
    (L : LayoutCore code fns blocks) : Nested fns :=
  ⟨L.fns_sorted, fun f hf => by have := L.fn_bounds hf; omega,
   fun _ hf _ hg h => L.extents_laminar hf hg h⟩

theorem Fn.encloses_iff (f g : Fn) :
    f.encloses g = true ↔ f.hdr.rng.s < g.hdr.rng.s ∧ g.body.e ≤ f.body.e := by
  simp [Fn.encloses]

theorem Fn.toScope_inj {a b : Fn} (h : a.toScope = b.toScope) : a = b := by
  cases a; cases b; simp only [Fn.toScope, Scope.mk.injEq] at h; simp [h.1, h.2]

theorem Fn.contains_toScope (a b : Fn) : a.toScope.contains b.toScope = a.encloses b := rfl

theorem Nested.eq_of_start {fns : List Fn} (N : Nested fns) {f g : Fn} (hf : f ∈ fns)
    (hg : g ∈ fns) (h : f.hdr.rng.s = g.hdr.rng.s) : f = g := by
  by_cases hne : f = g
  · exact hne
  · have := pairwise_mem_or N.sorted hf hg hne
    omega

/-! ## generic list facts -/

theorem getLast?_filter_sorted {α : Type} {R : α → α → Prop} {p : α → Bool} {l : List α} {x : α}
    (hs : l.Pairwise R) (h : (l.filter p).getLast? = some x) :
    x ∈ l ∧ p x = true ∧ ∀ y ∈ l, p y = true → y = x ∨ R y x := by
  obtain ⟨ys, hys⟩ := List.getLast?_eq_some_iff.mp h
  have hx : x ∈ l.filter p := by rw [hys]; simp
  obtain ⟨hx1, hx2⟩ := List.mem_filter.mp hx
  refine ⟨hx1, hx2, fun y hy hpy => ?_⟩
  have hy' : y ∈ l.filter p := List.mem_filter.mpr ⟨hy, hpy⟩
  have hpw : (l.filter p).Pairwise R := List.Pairwise.sublist List.filter_sublist hs
  rw [hys] at hy' hpw
  rcases List.mem_append.mp hy' with hy' | hy'
  · exact .inr ((List.pairwise_append.mp hpw).2.2 y hy' x (by simp))
  · simp only [List.mem_singleton] at hy'; exact .inl hy'

theorem head?_filter_sorted {α : Type} {R : α → α → Prop} {p : α → Bool} {l : List α} {x : α}
    (hs : l.Pairwise R) (h : (l.filter p).head? = some x) :
    x ∈ l ∧ p x = true ∧ ∀ y ∈ l, p y = true → y = x ∨ R x y := by
  obtain ⟨ys, hys⟩ := List.head?_eq_some_iff.mp h
  have hx : x ∈ l.filter p := by rw [hys]; simp
  obtain ⟨hx1, hx2⟩ := List.mem_filter.mp hx
  refine ⟨hx1, hx2, fun y hy hpy => ?_⟩
  have hy' : y ∈ l.filter p := List.mem_filter.mpr ⟨hy, hpy⟩
  have hpw : (l.filter p).Pairwise R := List.Pairwise.sublist List.filter_sublist hs
  rw [hys] at hy' hpw
  rcases List.mem_cons.mp hy' with hy' | hy'
  · exact .inl hy'
  · exact .inr ((List.pairwise_cons.mp hpw).1 y hy')

theorem takeWhile_eq_filter_of_chain {α : Type} {p : α → Bool} :
    ∀ (l : List α), l.Pairwise (fun a b => p b = true → p a = true) →
      l.takeWhile p = l.filter p
  | [], _ => rfl
  | a :: l, h => by
    obtain ⟨h1, h2⟩ := List.pairwise_cons.mp h
    rw [List.takeWhile_cons, List.filter_cons]
    by_cases ha : p a = true
    · simp only [ha, if_true]; rw [takeWhile_eq_filter_of_chain l h2]
    · simp only [ha, Bool.false_eq_true, if_false]
      symm
      rw [List.filter_eq_nil_iff]
      exact fun b hb hpb => ha (h1 b hb hpb)

/-! ## the parent of the specification -/

/-- the parent is an enclosing function and no enclosing function starts later -/
theorem parent_spec {fns : List Fn} (N : Nested fns) {f g : Fn} (h : parent fns g = some f) :
    f ∈ fns ∧ f.encloses g = true ∧
      ∀ f' ∈ fns, f'.encloses g = true → f'.hdr.rng.s ≤ f.hdr.rng.s := by
  obtain ⟨h1, h2, h3⟩ := getLast?_filter_sorted N.sorted h
  refine ⟨h1, h2, fun f' hf' he => ?_⟩
  rcases h3 f' hf' he with rfl | h
  · exact Nat.le_refl _
  · exact Nat.le_of_lt h

/-- **the parent is the innermost enclosing function**: every other function enclosing `g`
encloses the parent of `g` -/
theorem parent_innermost {fns : List Fn} (N : Nested fns) {f g : Fn} (h : parent fns g = some f)
    (hg : g.hdr.rng.s < g.body.e) {f' : Fn} (hf' : f' ∈ fns) (he : f'.encloses g = true) : f' = f ∨ f'.encloses f = true := by
  obtain ⟨h1, h2, h3⟩ := parent_spec N h
  have hle := h3 f' hf' he
  by_cases heq : f'.hdr.rng.s = f.hdr.rng.s
  · exact .inl (N.eq_of_start hf' h1 heq)
  · right
    rw [Fn.encloses_iff] at he h2 ⊢
    have := N.laminar f' hf' f h1 (by omega)
    omega

theorem parent_eq_none_iff {fns : List Fn} {g : Fn} :
    parent fns g = none ↔ ∀ f ∈ fns, f.encloses g = false := by
  unfold parent
  rw [List.getLast?_eq_none_iff, List.filter_eq_nil_iff]
  constructor
  · intro h f hf
    cases hh : f.encloses g with
    | false => rfl
    | true => exact absurd hh (h f hf)
  · intro h f hf hh
    rw [h f hf] at hh; cases hh

theorem parent_eq_some_of {fns : List Fn} (N : Nested fns) {f g : Fn} (hf : f ∈ fns)
    (he : f.encloses g = true)
    (hlast : ∀ f' ∈ fns, f'.encloses g = true → f'.hdr.rng.s ≤ f.hdr.rng.s) :
    parent fns g = some f := by
  cases hp : parent fns g with
  | none => rw [parent_eq_none_iff.mp hp f hf] at he; cases he
  | some p =>
    obtain ⟨h1, h2, h3⟩ := parent_spec N hp
    have := hlast p h1 h2
    have := h3 f hf he
    rw [N.eq_of_start h1 hf (by omega)]

/-- a function strictly inside `f` is a direct child of `f` or lies inside one -/
theorem exists_child_around {fns : List Fn} (N : Nested fns) {f g : Fn} (hf : f ∈ fns)
    (hg : g ∈ fns) (he : f.encloses g = true) :
    ∃ c ∈ children fns f, c.hdr.rng.s ≤ g.hdr.rng.s ∧ g.body.e ≤ c.body.e := by
  -- the first function inside `f` that is, or encloses, `g`
  let p : Fn → Bool := fun c => f.encloses c && (c == g || c.encloses g)
  have hgp : p g = true := by simp [p, he]
  cases hh : (fns.filter p).head? with
  | none =>
    rw [List.head?_eq_none_iff, List.filter_eq_nil_iff] at hh
    exact absurd hgp (hh g hg)
  | some c =>
    obtain ⟨hc, hpc, hfirst⟩ := head?_filter_sorted N.sorted hh
    simp only [p, Bool.and_eq_true, Bool.or_eq_true, beq_iff_eq] at hpc
    obtain ⟨hfc, hcg⟩ := hpc
    have hcg' : c.hdr.rng.s ≤ g.hdr.rng.s ∧ g.body.e ≤ c.body.e := by
      rcases hcg with rfl | hcg
      · exact ⟨Nat.le_refl _, Nat.le_refl _⟩
      · rw [Fn.encloses_iff] at hcg; omega
    refine ⟨c, ?_, hcg'⟩
    unfold children
    refine List.mem_filter.mpr ⟨hc, ?_⟩
    rw [parent_eq_some_of N hf hfc]
    · simp
    · intro q hq hqc
      -- an encloser of `c` starting after `f` would be an earlier candidate
      by_cases hle : q.hdr.rng.s ≤ f.hdr.rng.s
      · exact hle
      · exfalso
        have hfc' := (Fn.encloses_iff _ _).mp hfc
        have hqc' := (Fn.encloses_iff _ _).mp hqc
        have hcne := N.nonempty c hc
        have hlam := N.laminar f hf q hq (by omega)
        have hpq : p q = true := by
          simp only [p, Bool.and_eq_true, Bool.or_eq_true, beq_iff_eq, Fn.encloses_iff]
          refine ⟨⟨by omega, by omega⟩, .inr ⟨by omega, by omega⟩⟩
        rcases hfirst q hq hpq with rfl | hlt
        · omega
        · omega

/-- the direct children of a function are pairwise disjoint, in source order -/
theorem children_disjoint {fns : List Fn} (N : Nested fns) (f : Fn) :
    (children fns f).Pairwise (fun a b => a.hdr.rng.s < b.hdr.rng.s ∧ a.body.e ≤ b.hdr.rng.s) := by
  unfold children
  have hsub : (fns.filter (fun g => parent fns g == some f)).Sublist fns := List.filter_sublist
  refine List.Pairwise.imp_of_mem ?_ (List.Pairwise.sublist hsub N.sorted)
  intro a b ha hb hab
  obtain ⟨ha1, ha2⟩ := List.mem_filter.mp ha
  obtain ⟨hb1, hb2⟩ := List.mem_filter.mp hb
  simp only [beq_iff_eq] at ha2 hb2
  refine ⟨hab, ?_⟩
  obtain ⟨hf, hfa, _⟩ := parent_spec N ha2
  obtain ⟨_, hfb, hlast⟩ := parent_spec N hb2
  rcases N.laminar a ha1 b hb1 hab with h | h
  · exact h
  · have := hlast a ha1 ((Fn.encloses_iff _ _).mpr ⟨hab, h⟩)
    rw [Fn.encloses_iff] at hfa
    omega

/-! ## `fold_scopes` -/

/-- `t` is `l` or encloses `l` -/
def anc (l t : Fn) : Bool := t == l || t.encloses l

/-- the invariant of `fold_scopes`: after the functions `done ++ [l]` the right-most path
consists of `l` and the functions enclosing it; the remaining functions then get the parent of
the specification -/
theorem foldParS_layout {fns : List Fn} (N : Nested fns) :
    ∀ (rest done : List Fn) (l : Fn), fns = done ++ l :: rest →
      foldParS (rest.map Fn.toScope) (((done ++ [l]).filter (anc l)).map Fn.toScope)
        = rest.map (fun g => (parent fns g).map Fn.toScope)
  | [], _, _, _ => rfl
  | g :: rest, done, l, hfns => by
    have hfns' : fns = (done ++ [l]) ++ g :: rest := by rw [hfns]; simp
    have hsorted := N.sorted
    rw [hfns', List.pairwise_append, List.pairwise_cons] at hsorted
    obtain ⟨hD, ⟨hgrest, _⟩, hDg⟩ := hsorted
    have hDsub : ∀ t ∈ done ++ [l], t ∈ fns := fun t ht => by
      rw [hfns']; exact List.mem_append_left _ ht
    have hgm : g ∈ fns := by rw [hfns']; simp
    have hlm : l ∈ fns := hDsub l (by simp)
    have hlg : l.hdr.rng.s < g.hdr.rng.s := hDg l (by simp) g List.mem_cons_self
    have hlne := N.nonempty l hlm
    have hgne := N.nonempty g hgm
    -- every function of `done ++ [l]` starts at or before `l`
    have hDl : ∀ t ∈ done ++ [l], t = l ∨ t.hdr.rng.s < l.hdr.rng.s := by
      intro t ht
      rcases List.mem_append.mp ht with ht | ht
      · exact .inr ((List.pairwise_append.mp hD).2.2 t ht l (by simp))
      · simp only [List.mem_singleton] at ht; exact .inl ht
    -- 1. an encloser of `g` is `l` or an encloser of `l`
    have h1 : ∀ t ∈ done ++ [l], t.encloses g = true → anc l t = true := by
      intro t ht he
      rw [Fn.encloses_iff] at he
      rcases hDl t ht with rfl | hlt
      · simp [anc]
      · have := N.laminar t (hDsub t ht) l hlm hlt
        simp only [anc, Bool.or_eq_true, beq_iff_eq, Fn.encloses_iff]
        right; omega
    -- 2. along the path, enclosing `g` is inherited outwards
    have h2 : ((done ++ [l]).filter (anc l)).Pairwise
        (fun a b => b.encloses g = true → a.encloses g = true) := by
      refine List.Pairwise.imp_of_mem ?_ (List.Pairwise.sublist List.filter_sublist hD)
      intro a b ha hb hab hbg
      obtain ⟨ha1, ha2⟩ := List.mem_filter.mp ha
      obtain ⟨hb1, hb2⟩ := List.mem_filter.mp hb
      simp only [anc, Bool.or_eq_true, beq_iff_eq, Fn.encloses_iff] at ha2 hb2
      rw [Fn.encloses_iff] at hbg ⊢
      have := N.laminar a (hDsub a ha1) b (hDsub b hb1) hab
      have hal : l.body.e ≤ a.body.e := by rcases ha2 with rfl | h <;> omega
      have hbl : b.hdr.rng.s ≤ l.hdr.rng.s := by rcases hb2 with rfl | h <;> omega
      omega
    have htw : ((done ++ [l]).filter (anc l)).takeWhile (fun t => t.encloses g)
        = (done ++ [l]).filter (fun t => t.encloses g) := by
      rw [takeWhile_eq_filter_of_chain _ h2, List.filter_filter]
      apply List.filter_congr
      intro t ht
      cases he : t.encloses g with
      | false => rfl
      | true => simp [h1 t ht he]
    -- the parent of `g`
    have hpar : parent fns g = ((done ++ [l]).filter (fun t => t.encloses g)).getLast? := by
      unfold parent
      rw [hfns', List.filter_append]
      have : (g :: rest).filter (fun t => t.encloses g) = [] := by
        rw [List.filter_eq_nil_iff]
        intro t ht he
        rw [Fn.encloses_iff] at he
        rcases List.mem_cons.mp ht with rfl | ht
        · omega
        · have := hgrest t ht; omega
      rw [this, List.append_nil]
    -- the new path
    have hpath : ((done ++ [l]) ++ [g]).filter (anc g)
        = (done ++ [l]).filter (fun t => t.encloses g) ++ [g] := by
      rw [List.filter_append]
      congr 1
      · apply List.filter_congr
        intro t ht
        have : (t == g) = false := by
          rw [beq_eq_false_iff_ne]
          rintro rfl
          have := hDg t ht t List.mem_cons_self
          omega
        simp [anc, this]
      · simp [anc]
    have ih := foldParS_layout N rest (done ++ [l]) g hfns'
    rw [hpath] at ih
    simp only [List.map_cons, foldParS]
    have hmap : (List.map Fn.toScope ((done ++ [l]).filter (anc l))).takeWhile
        (fun x => x.contains g.toScope)
        = ((done ++ [l]).filter (fun t => t.encloses g)).map Fn.toScope := by
      rw [List.takeWhile_map, ← htw]
      rfl
    rw [hmap, List.getLast?_map, ← hpar]
    congr 1
    rw [← ih, List.map_append]
    rfl

/-- `fold_scopes` computes the parent of the specification for every function -/
theorem foldParS_layout' {fns : List Fn} (N : Nested fns) :
    foldParS (fns.map Fn.toScope) [] = fns.map (fun g => (parent fns g).map Fn.toScope) := by
  cases fns with
  | nil => rfl
  | cons f rest =>
    have h := foldParS_layout N rest [] f rfl
    have hf : ([] ++ [f]).filter (anc f) = [f] := by simp [anc]
    rw [hf] at h
    have hp : parent (f :: rest) f = none := by
      rw [parent_eq_none_iff]
      intro t ht
      have hs := List.pairwise_cons.mp N.sorted
      cases he : t.encloses f with
      | false => rfl
      | true =>
        rw [Fn.encloses_iff] at he
        rcases List.mem_cons.mp ht with rfl | ht
        · omega
        · have := hs.1 t ht; omega
    simp only [List.map_cons, foldParS, List.takeWhile_nil, List.getLast?_nil, List.nil_append, hp,
      Option.map_none]
    congr 1

theorem toScope_nodup {fns : List Fn} (N : Nested fns) : (fns.map Fn.toScope).Nodup := by
  rw [List.nodup_iff_pairwise_ne, List.pairwise_map]
  refine N.sorted.imp ?_
  intro a b hab heq
  rw [Fn.toScope_inj heq] at hab
  omega

/-- **A2 (nesting languages)**: every scope is paired with exactly the ranges
`[header start, body end)` of its direct children per the specification -/
theorem withChildren_layout {fns : List Fn} (N : Nested fns) :
    withChildren (fns.map Fn.toScope) (foldParents (fns.map Fn.toScope) 0 [])
      = fns.map (fun f => (f.toScope, childRanges fns f)) := by
  rw [withChildren_eq_S (toScope_nodup N), foldParS_layout' N]
  unfold withChildrenS
  rw [List.map_map]
  apply List.map_congr_left
  intro f _
  simp only [Function.comp, Prod.mk.injEq, true_and]
  rw [List.zip_map', List.filter_map, List.map_map]
  unfold childRanges children
  have hfil : ((fun cp : Scope × Option Scope => cp.2 == some f.toScope) ∘
      fun a : Fn => (a.toScope, Option.map Fn.toScope (parent fns a)))
      = fun g => parent fns g == some f := by
    funext g
    simp only [Function.comp]
    cases hp : parent fns g with
    | none => rfl
    | some p =>
      simp only [Option.map_some]
      by_cases hpf : p = f
      · simp [hpf]
      · have : p.toScope ≠ f.toScope := fun h => hpf (Fn.toScope_inj h)
        rw [beq_false_of_ne (fun h => this (Option.some.inj h)),
          beq_false_of_ne (fun h => hpf (Option.some.inj h))]
  rw [hfil]
  rfl

/-! ## `filter_scopes_nested_functions` -/

theorem filterNested_layout_aux {fns : List Fn} (N : Nested fns) :
    ∀ (rest A : List Fn) (l : Fn), fns = A ++ rest → l ∈ A →
      (∀ t ∈ A, t = l ∨ t.body.e ≤ l.hdr.rng.s ∨ l.encloses t = true) →
      filterNested (rest.map Fn.toScope) (some l.toScope)
        = (rest.filter (fun g => (parent fns g).isNone)).map Fn.toScope
  | [], _, _, _, _, _ => rfl
  | g :: rest, A, l, hfns, hl, hinv => by
    have hfns' : fns = (A ++ [g]) ++ rest := by rw [hfns]; simp
    have hsorted := N.sorted
    rw [hfns, List.pairwise_append, List.pairwise_cons] at hsorted
    obtain ⟨_, ⟨hgrest, _⟩, hAg⟩ := hsorted
    have hAsub : ∀ t ∈ A, t ∈ fns := fun t ht => by rw [hfns]; exact List.mem_append_left _ ht
    have hgm : g ∈ fns := by rw [hfns]; simp
    have hlg : l.hdr.rng.s < g.hdr.rng.s := hAg l hl g List.mem_cons_self
    have hgne := N.nonempty g hgm
    simp only [List.map_cons, filterNested, List.filter_cons]
    by_cases hc : l.toScope.contains g.toScope = true
    · -- `g` is nested in the last reported function
      have hlg' : l.encloses g = true := hc
      have hp : (parent fns g).isNone = false := by
        cases hp : parent fns g with
        | none => rw [parent_eq_none_iff.mp hp l (hAsub l hl)] at hlg'; cases hlg'
        | some p => rfl
      rw [if_pos hc, hp]
      simp only [Bool.false_eq_true, if_false]
      apply filterNested_layout_aux N rest (A ++ [g]) l hfns' (List.mem_append_left _ hl)
      intro t ht
      rcases List.mem_append.mp ht with ht | ht
      · exact hinv t ht
      · simp only [List.mem_singleton] at ht; subst ht; exact .inr (.inr hlg')
    · -- `g` is a new top-level function
      have hlg' : ¬ l.encloses g = true := hc
      have hnone : ∀ t ∈ fns, t.encloses g = false := by
        intro t ht
        cases he : t.encloses g with
        | false => rfl
        | true =>
          exfalso
          have he' := (Fn.encloses_iff _ _).mp he
          rw [hfns] at ht
          rcases List.mem_append.mp ht with ht | ht
          · rcases hinv t ht with rfl | h | h
            · exact hlg' he
            · omega
            · apply hlg'
              rw [Fn.encloses_iff] at h ⊢
              omega
          · rcases List.mem_cons.mp ht with rfl | ht
            · omega
            · have := hgrest t ht; omega
      have hp : (parent fns g).isNone = true := by rw [parent_eq_none_iff.mpr hnone]; rfl
      rw [if_neg hc, hp]
      simp only [if_true, List.map_cons]
      congr 1
      apply filterNested_layout_aux N rest (A ++ [g]) g hfns' (by simp)
      intro t ht
      rcases List.mem_append.mp ht with ht | ht
      · right
        have htg := hAg t ht g List.mem_cons_self
        rcases N.laminar t (hAsub t ht) g hgm htg with h | h
        · exact .inl h
        · have := hnone t (hAsub t ht)
          rw [(Fn.encloses_iff _ _).mpr ⟨htg, h⟩] at this
          cases this
      · simp only [List.mem_singleton] at ht; exact .inl ht

/-- **A2 (languages without nested functions)**: exactly the top-level functions remain -/
theorem filterNested_layout {fns : List Fn} (N : Nested fns) :
    filterNested (fns.map Fn.toScope) none = (topLevel fns).map Fn.toScope := by
  cases fns with
  | nil => rfl
  | cons f rest =>
    have hp : (parent (f :: rest) f).isNone = true := by
      have : parent (f :: rest) f = none := by
        rw [parent_eq_none_iff]
        intro t ht
        have hs := List.pairwise_cons.mp N.sorted
        cases he : t.encloses f with
        | false => rfl
        | true =>
          rw [Fn.encloses_iff] at he
          rcases List.mem_cons.mp ht with rfl | ht
          · omega
          · have := hs.1 t ht; omega
      rw [this]; rfl
    unfold topLevel
    simp only [List.map_cons, filterNested, List.filter_cons, hp, if_true]
    congr 1
    exact filterNested_layout_aux N rest [f] f rfl (by simp) (fun t ht => by
      simp only [List.mem_singleton] at ht; exact .inl ht)

end CL
