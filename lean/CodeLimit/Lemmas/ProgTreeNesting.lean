import CodeLimit.Lemmas.ProgTreeLayout
import CodeLimit.Lemmas.LayoutNesting
/-!
# Program trees: the `parent` of the layout specification is the enclosing function NODE

`Ctx G lo hi F par` describes a sub-forest inside a whole file: `G` = all functions of the file,
`[lo, hi)` = the token indices of the sub-forest, `F` = its functions, `par` = the innermost
function of the file around it.  The context is propagated down the tree (`Ctx.restrict`,
`Ctx.body`) and yields, for every function node, its `parent` among ALL functions of the file.
-/
namespace CL

theorem fnsOf_bounds_core (p : Prog Tok) (i : Nat) (h : p.wfCore = true) :
    ∀ f ∈ fnsOf p i, i ≤ f.hdr.rng.s ∧ f.hdr.rng.s < f.hdr.rng.e ∧ f.hdr.rng.e ≤ f.body.s ∧
      f.body.s + 2 ≤ f.body.e ∧ f.body.e ≤ i + p.size := (tinv_of_wfCore p i h).fb

/-- the sub-forest with functions `F` at token indices `[lo, hi)` inside a file with functions
`G`; `par` = the innermost function of the file around `[lo, hi)` -/
structure Ctx (G : List Fn) (lo hi : Nat) (F : List Fn) (par : Option Fn) : Prop where
  sub : ∀ f ∈ F, f ∈ G
  cls : ∀ g ∈ G, g ∈ F ∨ g.body.e ≤ lo ∨ hi ≤ g.hdr.rng.s ∨ (g.hdr.rng.s < lo ∧ hi < g.body.e)
  par_none : par = none → ∀ g ∈ G, ¬ (g.hdr.rng.s < lo ∧ hi < g.body.e)
  par_some : ∀ q, par = some q → q ∈ G ∧ q.hdr.rng.s < lo ∧ hi < q.body.e ∧
    ∀ g ∈ G, g.hdr.rng.s < lo → hi < g.body.e → g.hdr.rng.s ≤ q.hdr.rng.s

/-- the whole file -/
theorem Ctx.top (G : List Fn) (hi : Nat) : Ctx G 0 hi G none :=
  ⟨fun _ h => h, fun _ h => .inl h, fun _ g _ h => by omega, fun q h => by cases h⟩

/-- a part `[lo', hi')` of the sub-forest whose functions are `F'`, the other functions of the
sub-forest lying outside the part -/
theorem Ctx.restrict {G : List Fn} {lo hi lo' hi' : Nat} {F F' : List Fn} {par : Option Fn}
    (C : Ctx G lo hi F par) (h1 : lo ≤ lo') (h2 : lo' ≤ hi') (h3 : hi' ≤ hi)
    (hsub : ∀ f ∈ F', f ∈ F) (hF' : ∀ f ∈ F', lo' ≤ f.hdr.rng.s)
    (hout : ∀ f ∈ F, f ∈ F' ∨ f.body.e ≤ lo' ∨ hi' ≤ f.hdr.rng.s) : Ctx G lo' hi' F' par := by
  have key : ∀ g ∈ G, g.hdr.rng.s < lo' → hi' < g.body.e → g.hdr.rng.s < lo ∧ hi < g.body.e := by
    intro g hg ha hb
    rcases C.cls g hg with h | h | h | h
    · rcases hout g h with h' | h' | h'
      · have := hF' g h'; omega
      · omega
      · omega
    · omega
    · omega
    · exact h
  refine ⟨fun f hf => C.sub f (hsub f hf), ?_, ?_, ?_⟩
  · intro g hg
    rcases C.cls g hg with h | h | h | h
    · rcases hout g h with h' | h' | h'
      · exact .inl h'
      · exact .inr (.inl h')
      · exact .inr (.inr (.inl h'))
    · exact .inr (.inl (by omega))
    · exact .inr (.inr (.inl (by omega)))
    · exact .inr (.inr (.inr (by omega)))
  · intro hp g hg ⟨ha, hb⟩
    exact C.par_none hp g hg (key g hg ha hb)
  · intro q hq
    obtain ⟨q1, q2, q3, q4⟩ := C.par_some q hq
    refine ⟨q1, by omega, by omega, fun g hg ha hb => ?_⟩
    obtain ⟨k1, k2⟩ := key g hg ha hb
    exact q4 g hg k1 k2

/-- the body of the first function `f0` of the sub-forest -/
theorem Ctx.body {G : List Fn} {lo hi : Nat} {f0 : Fn} {FB FR : List Fn} {par : Option Fn}
    (C : Ctx G lo hi (f0 :: (FB ++ FR)) par) (h0 : f0.hdr.rng.s = lo)
    (h1 : lo < f0.body.s) (h2 : f0.body.s + 2 ≤ f0.body.e) (h3 : f0.body.e ≤ hi)
    (hB : ∀ f ∈ FB, f0.body.s + 1 ≤ f.hdr.rng.s) (hR : ∀ f ∈ FR, f0.body.e ≤ f.hdr.rng.s) :
    Ctx G (f0.body.s + 1) (f0.body.e - 1) FB (some f0) := by
  have hsub0 : f0 ∈ G := C.sub f0 List.mem_cons_self
  refine ⟨fun f hf => C.sub f (List.mem_cons_of_mem _ (List.mem_append_left _ hf)), ?_, ?_, ?_⟩
  · intro g hg
    rcases C.cls g hg with h | h | h | h
    · rcases List.mem_cons.mp h with rfl | h
      · exact .inr (.inr (.inr (by omega)))
      · rcases List.mem_append.mp h with h | h
        · exact .inl h
        · have := hR g h; exact .inr (.inr (.inl (by omega)))
    · exact .inr (.inl (by omega))
    · exact .inr (.inr (.inl (by omega)))
    · exact .inr (.inr (.inr (by omega)))
  · intro h; cases h
  · intro q hq
    cases hq
    refine ⟨hsub0, by omega, by omega, fun g hg ha hb => ?_⟩
    rcases C.cls g hg with h | h | h | h
    · rcases List.mem_cons.mp h with rfl | h
      · exact Nat.le_refl _
      · rcases List.mem_append.mp h with h | h
        · have := hB g h; omega
        · have := hR g h; omega
    · omega
    · omega
    · omega

/-- the parent (among all functions of the file) of the first function of the sub-forest is the
function around the sub-forest -/
theorem Ctx.parent_head {G : List Fn} (N : Nested G) {lo hi : Nat} {f0 : Fn} {FB FR : List Fn}
    {par : Option Fn} (C : Ctx G lo hi (f0 :: (FB ++ FR)) par) (h0 : f0.hdr.rng.s = lo)
    (h1 : lo < f0.body.e) (h3 : f0.body.e ≤ hi)
    (hB : ∀ f ∈ FB, lo < f.hdr.rng.s) (hR : ∀ f ∈ FR, lo < f.hdr.rng.s) :
    parent G f0 = par := by
  have key : ∀ g ∈ G, g.encloses f0 = true → g.hdr.rng.s < lo ∧ hi < g.body.e := by
    intro g hg he
    rw [Fn.encloses_iff] at he
    rcases C.cls g hg with h | h | h | h
    · rcases List.mem_cons.mp h with rfl | h
      · omega
      · rcases List.mem_append.mp h with h | h
        · have := hB g h; omega
        · have := hR g h; omega
    · omega
    · omega
    · exact h
  cases hp : par with
  | none =>
    rw [parent_eq_none_iff]
    intro g hg
    cases he : g.encloses f0 with
    | false => rfl
    | true => exact absurd (key g hg he) (C.par_none hp g hg)
  | some q =>
    obtain ⟨q1, q2, q3, q4⟩ := C.par_some q hp
    refine parent_eq_some_of N q1 ((Fn.encloses_iff _ _).mpr ⟨by omega, by omega⟩) ?_
    intro g hg he
    obtain ⟨k1, k2⟩ := key g hg he
    exact q4 g hg k1 k2

/-- **nesting, at every depth**: inside a file with functions `G`, the parent of every function
of a well-formed sub-forest is its innermost enclosing function node (`parentsOf`); and the
functions without parent are the function nodes not inside another one (`topFnsOf`) -/
theorem parents_prog_ctx_core : ∀ (p : Prog Tok) (i : Nat), p.wfCore = true →
    ∀ (G : List Fn) (par : Option Fn), Nested G → Ctx G i (i + p.size) (fnsOf p i) par →
    (fnsOf p i).map (parent G) = parentsOf p i par ∧
    (fnsOf p i).filter (fun g => (parent G g).isNone)
      = if par.isNone then topFnsOf p i else []
  | .nil, _, _, _, _, _, _ => ⟨rfl, by simp [fnsOf, topFnsOf]⟩
  | .leaf _ rest, i, h, G, par, N, C => by
    have hw := h
    simp only [Prog.wfCore, Bool.and_eq_true] at h
    have hb := fnsOf_bounds_core rest (i + 1) h.2
    have C' : Ctx G (i + 1) (i + 1 + rest.size) (fnsOf rest (i + 1)) par := by
      refine C.restrict (by omega) (by omega) (by simp only [Prog.size]; omega)
        (fun f hf => hf) (fun f hf => (hb f hf).1) (fun f hf => .inl hf)
    exact parents_prog_ctx_core rest (i + 1) h.2 G par N C'
  | .group _ _ items rest, i, h, G, par, N, C => by
    simp only [Prog.wfCore, Bool.and_eq_true] at h
    obtain ⟨⟨_, hwi⟩, hwr⟩ := h
    have hbi := fnsOf_bounds_core items (i + 1) hwi
    have hbr := fnsOf_bounds_core rest (i + items.size + 2) hwr
    simp only [fnsOf, Prog.size] at C
    have CI : Ctx G (i + 1) (i + 1 + items.size) (fnsOf items (i + 1)) par := by
      refine C.restrict (by omega) (by omega) (by omega)
        (fun f hf => List.mem_append_left _ hf) (fun f hf => (hbi f hf).1) (fun f hf => ?_)
      rcases List.mem_append.mp hf with hf | hf
      · exact .inl hf
      · have := hbr f hf; exact .inr (.inr (by omega))
    have CR : Ctx G (i + items.size + 2) (i + items.size + 2 + rest.size)
        (fnsOf rest (i + items.size + 2)) par := by
      refine C.restrict (by omega) (by omega) (by omega)
        (fun f hf => List.mem_append_right _ hf) (fun f hf => (hbr f hf).1) (fun f hf => ?_)
      rcases List.mem_append.mp hf with hf | hf
      · have := hbi f hf; exact .inr (.inl (by omega))
      · exact .inl hf
    obtain ⟨a1, a2⟩ := parents_prog_ctx_core items (i + 1) hwi G par N CI
    obtain ⟨b1, b2⟩ := parents_prog_ctx_core rest (i + items.size + 2) hwr G par N CR
    simp only [fnsOf, parentsOf, topFnsOf, List.map_append, List.filter_append, a1, a2, b1, b2]
    refine ⟨trivial, ?_⟩
    cases par <;> simp
  | .fn hdr k gap _ _ body rest, i, h, G, par, N, C => by
    have hw := h
    simp only [Prog.wfCore, Bool.and_eq_true, decide_eq_true_eq] at h
    obtain ⟨⟨⟨⟨⟨⟨⟨⟨⟨hsl, hnf⟩, hwh⟩, hk⟩, hnm⟩, hgap⟩, hop⟩, hcl⟩, hwb⟩, hwr⟩ := h
    have hpos := Prog.size_pos_of_startsWithLeaf hsl
    have hbb := fnsOf_bounds_core body (i + hdr.size + gap.length + 1) hwb
    have hbr := fnsOf_bounds_core rest (i + hdr.size + gap.length + body.size + 2) hwr
    simp only [fnsOf, Prog.size] at C
    have hpar := C.parent_head N rfl (by simp only; omega) (by simp only; omega)
      (fun f hf => by have := hbb f hf; omega) (fun f hf => by have := hbr f hf; omega)
    have CB := C.body rfl (by simp only; omega) (by simp only; omega) (by simp only; omega)
      (fun f hf => by have := hbb f hf; simp only; omega)
      (fun f hf => by have := hbr f hf; simp only; omega)
    simp only at CB
    rw [show i + hdr.size + gap.length + body.size + 2 - 1
      = i + hdr.size + gap.length + 1 + body.size by omega] at CB
    have CR : Ctx G (i + hdr.size + gap.length + body.size + 2)
        (i + hdr.size + gap.length + body.size + 2 + rest.size)
        (fnsOf rest (i + hdr.size + gap.length + body.size + 2)) par := by
      refine C.restrict (by omega) (by omega) (by omega)
        (fun f hf => List.mem_cons_of_mem _ (List.mem_append_right _ hf))
        (fun f hf => (hbr f hf).1) (fun f hf => ?_)
      rcases List.mem_cons.mp hf with rfl | hf
      · exact .inr (.inl (by simp only; omega))
      · rcases List.mem_append.mp hf with hf | hf
        · have := hbb f hf; exact .inr (.inl (by omega))
        · exact .inl hf
    obtain ⟨a1, a2⟩ := parents_prog_ctx_core body _ hwb G _ N CB
    obtain ⟨b1, b2⟩ := parents_prog_ctx_core rest _ hwr G par N CR
    simp only [fnsOf, parentsOf, topFnsOf, List.map_cons, List.map_append, List.filter_cons,
      List.filter_append, a1, a2, b1, b2, hpar]
    refine ⟨trivial, ?_⟩
    cases par <;> simp

/-- **nesting of a whole file**: `parent` is the innermost enclosing function node -/
theorem parents_prog_core {p : Prog Tok} (h : p.wfCore = true) (N : Nested p.fns) :
    p.fns.map (parent p.fns) = parentsOf p 0 none :=
  (parents_prog_ctx_core p 0 h p.fns none N (Ctx.top _ _)).1

/-- the top-level functions of a whole file are the function nodes not inside another one -/
theorem topLevel_prog_core {p : Prog Tok} (h : p.wfCore = true) (N : Nested p.fns) :
    topLevel p.fns = topFnsOf p 0 :=
  (parents_prog_ctx_core p 0 h p.fns none N (Ctx.top _ _)).2

/-! ## the same for `wf` forests (corollaries; `noAdj` is not needed for the nesting) -/

theorem fnsOf_bounds (p : Prog Tok) (i : Nat) (h : p.wf = true) :
    ∀ f ∈ fnsOf p i, i ≤ f.hdr.rng.s ∧ f.hdr.rng.s < f.hdr.rng.e ∧ f.hdr.rng.e ≤ f.body.s ∧
      f.body.s + 2 ≤ f.body.e ∧ f.body.e ≤ i + p.size := fnsOf_bounds_core p i ((Prog.wf_iff p).mp h).1

theorem parents_prog_ctx (p : Prog Tok) (i : Nat) (h : p.wf = true)
    (G : List Fn) (par : Option Fn) (N : Nested G) (C : Ctx G i (i + p.size) (fnsOf p i) par) :
    (fnsOf p i).map (parent G) = parentsOf p i par ∧
    (fnsOf p i).filter (fun g => (parent G g).isNone)
      = if par.isNone then topFnsOf p i else [] :=
  parents_prog_ctx_core p i ((Prog.wf_iff p).mp h).1 G par N C

theorem parents_prog {p : Prog Tok} (h : p.wf = true) (N : Nested p.fns) :
    p.fns.map (parent p.fns) = parentsOf p 0 none := parents_prog_core ((Prog.wf_iff p).mp h).1 N

theorem topLevel_prog {p : Prog Tok} (h : p.wf = true) (N : Nested p.fns) :
    topLevel p.fns = topFnsOf p 0 := topLevel_prog_core ((Prog.wf_iff p).mp h).1 N

end CL
