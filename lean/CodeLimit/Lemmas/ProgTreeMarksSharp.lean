import CodeLimit.Lemmas.ProgTreeMarksWeak
import CodeLimit.Lemmas.ProgTreeMarksScan
/-!
# `scan_file` on a forest with markers: the restriction `noAdj` only for the REPORTED functions

`scan_marked_prog` requires that no function of the comment-free forest is directly followed by a
brace group.  Here this is required of the EFFECTIVE forest only: a brace group may directly follow
a suppressed function (`scan_marked_prog_sharp`).
-/
namespace CL.Marks

/-- the function / block invariant needs the structural conditions only
(`CL.tinv_of_wfCore`, `Lemmas/ProgTreeBasic.lean`) -/
theorem tinv_of_wfCore (p : Prog Tok) (i : Nat) (h : p.wfCore = true) :
    TInv i (i + p.size) (fnsOf p i) (blocksOf p i) := CL.tinv_of_wfCore p i h

/-- no function body starts at the token directly after another function's body -/
theorem tinv_bodies_apart {lo hi : Nat} {F : List Fn} {B : List Range} (h : TInv lo hi F B) :
    ∀ f ∈ F, ∀ g ∈ F, g.body.s ≠ f.body.e := by
  intro f hf g hg
  have := h.fb f hf
  have := h.fb g hg
  by_cases hfg : f = g
  · subst hfg; omega
  · have h1 := h.fvb g hg f.body (h.bm f hf)
    rcases pairwise_mem_or h.fs hf hg hfg with h' | h' <;> omega

/-! ## `dissolve`: blocks and structural well-formedness -/

theorem blocksOf_append {α : Type} : ∀ (a b : Prog α) (i : Nat),
    blocksOf (a.followedBy b) i = blocksOf a i ++ blocksOf b (i + a.size)
  | .nil, _, _ => rfl
  | .leaf _ rest, b, i => by
    simp only [Prog.followedBy, blocksOf, Prog.size]
    rw [blocksOf_append rest b (i + 1), show i + 1 + rest.size = i + (rest.size + 1) by omega]
  | .group _ _ items rest, b, i => by
    simp only [Prog.followedBy, blocksOf, Prog.size, List.cons_append, List.append_assoc]
    rw [blocksOf_append rest b _,
      show i + items.size + 2 + rest.size = i + (items.size + rest.size + 2) by omega]
  | .fn hdr _ gap _ _ body rest, b, i => by
    simp only [Prog.followedBy, blocksOf, Prog.size, List.cons_append, List.append_assoc]
    rw [blocksOf_append rest b _,
      show i + hdr.size + gap.length + body.size + 2 + rest.size
        = i + (hdr.size + gap.length + body.size + rest.size + 2) by omega]

theorem blocksOf_toks {α : Type} : ∀ (g : List α) (r : Prog α) (i : Nat),
    blocksOf (Prog.toks g r) i = blocksOf r (i + g.length)
  | [], _, _ => rfl
  | t :: g, r, i => by
    simp only [Prog.toks_cons, blocksOf, List.length_cons]
    rw [blocksOf_toks g r (i + 1), show i + 1 + g.length = i + (g.length + 1) by omega]

/-- dissolving functions does not change the brace blocks -/
theorem blocksOf_dissolve (ls : List Nat) : ∀ (p : Prog Tok) (i : Nat),
    blocksOf (p.dissolve ls) i = blocksOf p i
  | .nil, _ => rfl
  | .leaf _ rest, i => by simp only [Prog.dissolve, blocksOf, blocksOf_dissolve ls rest]
  | .group _ _ items rest, i => by
    simp only [Prog.dissolve, blocksOf, size_dissolve, blocksOf_dissolve ls items,
      blocksOf_dissolve ls rest]
  | .fn hdr k gap op cl body rest, i => by
    simp only [Prog.dissolve]
    split
    · simp only [blocksOf_append, blocksOf_toks, blocksOf, size_dissolve,
        blocksOf_dissolve ls body, blocksOf_dissolve ls rest]
    · simp only [blocksOf, size_dissolve, blocksOf_dissolve ls body, blocksOf_dissolve ls rest]

theorem Prog.wfCore_append_noFn : ∀ (a b : Prog Tok), a.noFn = true → a.wfCore = true →
    b.wfCore = true → (a.followedBy b).wfCore = true
  | .nil, _, _, _, hb => hb
  | .leaf t rest, b, hn, ha, hb => by
    simp only [Prog.wfCore, Bool.and_eq_true] at ha
    simp only [Prog.followedBy, Prog.wfCore, Bool.and_eq_true]
    exact ⟨ha.1, wfCore_append_noFn rest b hn ha.2 hb⟩
  | .group op cl items rest, b, hn, ha, hb => by
    simp only [Prog.noFn, Bool.and_eq_true] at hn
    simp only [Prog.wfCore, Bool.and_eq_true] at ha
    simp only [Prog.followedBy, Prog.wfCore, Bool.and_eq_true]
    exact ⟨ha.1, wfCore_append_noFn rest b hn.2 ha.2 hb⟩
  | .fn .., _, hn, _, _ => by cases hn

theorem Prog.wfCore_toks : ∀ (g : List Tok) (r : Prog Tok), g.all Tok.noBrace = true →
    r.wfCore = true → (Prog.toks g r).wfCore = true
  | [], _, _, hr => hr
  | t :: g, r, hg, hr => by
    simp only [List.all_cons, Bool.and_eq_true] at hg
    simp only [Prog.toks_cons, Prog.wfCore, Bool.and_eq_true]
    exact ⟨hg.1, wfCore_toks g r hg.2 hr⟩

/-- dissolving keeps the structural conditions (no assumption about adjacency) -/
theorem wfCore_dissolve (ls : List Nat) : ∀ (p : Prog Tok), p.wfCore = true →
    (p.dissolve ls).wfCore = true
  | .nil, _ => rfl
  | .leaf t rest, h => by
    simp only [Prog.wfCore, Bool.and_eq_true] at h
    simp only [Prog.dissolve, Prog.wfCore, Bool.and_eq_true]
    exact ⟨h.1, wfCore_dissolve ls rest h.2⟩
  | .group op cl items rest, h => by
    simp only [Prog.wfCore, Bool.and_eq_true] at h
    simp only [Prog.dissolve, Prog.wfCore, Bool.and_eq_true]
    exact ⟨⟨⟨h.1.1.1, h.1.1.2⟩, wfCore_dissolve ls items h.1.2⟩, wfCore_dissolve ls rest h.2⟩
  | .fn hdr k gap op cl body rest, h => by
    simp only [Prog.wfCore, Bool.and_eq_true, decide_eq_true_eq] at h
    obtain ⟨⟨⟨⟨⟨⟨⟨⟨⟨hsl, hnf⟩, hwh⟩, hk⟩, hnm⟩, hgap⟩, hop⟩, hcl⟩, hwb⟩, hwr⟩ := h
    have ihb := wfCore_dissolve ls body hwb
    have ihr := wfCore_dissolve ls rest hwr
    simp only [Prog.dissolve]
    split
    · apply Prog.wfCore_append_noFn _ _ hnf hwh
      apply Prog.wfCore_toks _ _ hgap
      simp only [Prog.wfCore, Bool.and_eq_true]
      exact ⟨⟨⟨hop, hcl⟩, ihb⟩, ihr⟩
    · simp only [Prog.wfCore, Bool.and_eq_true, decide_eq_true_eq]
      exact ⟨⟨⟨⟨⟨⟨⟨⟨⟨hsl, hnf⟩, hwh⟩, hk⟩, hnm⟩, hgap⟩, hop⟩, hcl⟩, ihb⟩, ihr⟩

/-! ## the sharper main lemma -/

/-- **`scan_file` on a located forest with comments and markers**: the comment-free forest is
structurally well-formed; only the EFFECTIVE forest (marked functions dissolved) has to satisfy
"no brace group directly after a function". -/
theorem scan_marked_prog_sharp {L : Language} {p : Prog Tok} (hpy : L.python = false)
    (hw : p.stripComments.wfCore = true) (ha : p.effective.noAdj = true)
    (hpos : PosSorted p.flat) {hs : List Header}
    (hh : extractHeaders L p.stripComments.flat = .ok hs)
    (hperm : hs.Perm (p.stripComments.fns.map (·.hdr))) :
    scanFile L p.flat
      = .ok (if L.nested = true then treeReport p.effective else treeReportFlat p.effective) := by
  have hwe : p.effective.wf = true := Prog.wf_of (wfCore_dissolve _ _ hw) ha
  have hposq := posSorted_strip hw hpos
  have hpose : PosSorted p.effective.flat := by rw [flat_effective]; exact hposq
  have hLe := layout_prog hwe hpose
  have hbe := getBlocks_prog hwe hpose
  have hblocks : p.effective.blocks = p.stripComments.blocks := blocksOf_dissolve _ _ 0
  rw [flat_effective, hblocks] at hbe
  rw [flat_effective, hblocks, fns_effective hw] at hLe
  have hT := tinv_of_wfCore p.stripComments 0 hw
  have hLq : LayoutCore p.stripComments.flat p.stripComments.fns p.stripComments.blocks :=
    ⟨hT.fnLayout, hLe.pos_sorted, hLe.blocks_ok, hLe.blocks_sorted, hLe.laminar⟩
  have hcode := (flat_strip_of_wfCore p hw).symm
  have hN : Nested p.effective.fns := by rw [fns_effective hw]; exact hLe.toLayoutCore.nested
  by_cases hn : L.nested = true
  · obtain ⟨ms, h1, h2⟩ := scan_layout_marked_core hcode hpy hn hh hperm hbe hLq (tinv_bodies_apart hT)
      hLe.no_adjacent
    rw [← fns_effective hw, ← flat_effective, expected_prog hwe hN] at h2
    rw [if_pos hn, h1, map_some_inj h2]
  · obtain ⟨ms, h1, h2⟩ := scan_layout_marked_flat_core hcode hpy (by simpa using hn) hh hperm hbe
      hLq (tinv_bodies_apart hT) hLe.no_adjacent
    rw [← fns_effective hw, ← flat_effective, expectedFlat_prog hwe hN] at h2
    rw [if_neg hn, h1, map_some_inj h2]

end CL.Marks
