import CodeLimit.Lemmas.CodebaseBuild
import CodeLimit.Lemmas.CodebaseTotals
/-!
# The state of a `Codebase` after `add_file` for a list of admissible paths
-/
namespace CL.Codebase

structure Built (es : List FileEntry) (cb : Codebase) : Prop where
  tree : BuiltTree es cb.tree
  totals : TotalsFor es cb.totals
  files : (es.map (·.path)).Nodup → cb.files = es.map fun e => (e.path, e)
  gFiles : sumBy (·.files) cb.totals = es.length
  gLoc : sumBy (·.loc) cb.totals = (es.map (·.loc)).sum
  gFunctions : sumBy (·.functions) cb.totals = (es.map fun e => (e.measurements.length : Int)).sum
  gHard : sumBy (·.hardToMaintain) cb.totals = (es.map fun e => bucketCount 2 e.measurements).sum
  gUnm : sumBy (·.unmaintainable) cb.totals = (es.map fun e => bucketCount 3 e.measurements).sum

theorem built_new : Built [] Codebase.new := by
  refine ⟨builtTree_new, totalsFor_nil, fun _ => rfl, ?_, ?_, ?_, ?_, ?_⟩ <;> simp [Codebase.new, sumBy]

theorem addFile_built {es : List FileEntry} {cb : Codebase} (hB : Built es cb) (e : FileEntry)
    (hadm : admissible e.path = true) :
    ∃ cb', cb.addFile e = .ok cb' ∧ Built (es ++ [e]) cb' := by
  obtain ⟨t', ht, hT⟩ := totalsAdd_spec hB.totals e
  obtain ⟨T', hc, hBT⟩ := addFile_spec hB.tree e hadm ht
  refine ⟨_, hc, ⟨hBT, hT, ?_, ?_, ?_, ?_, ?_, ?_⟩⟩
  · intro hnd
    simp only [List.map_append, List.map_cons, List.map_nil] at hnd ⊢
    rw [List.nodup_append] at hnd
    obtain ⟨h1, _, h3⟩ := hnd
    rw [hB.files h1]
    have : dget? e.path (es.map fun e => (e.path, e)) = none := by
      apply dhas_false_iff.mp
      cases hh : dhas e.path (es.map fun e => (e.path, e)) with
      | false => rfl
      | true =>
        have := mem_keys_iff.mpr hh
        simp only [List.map_map] at this
        exact absurd rfl (h3 _ this e.path (by simp))
    rw [dset_of_not_has _ this]
  · show sumBy (·.files) t' = _
    rw [sumBy_totalsAdd (·.files) (fun _ => 1) (fun _ => rfl) (fun _ _ => rfl) ht, hB.gFiles]
    simp
  · show sumBy (·.loc) t' = _
    rw [sumBy_totalsAdd (·.loc) (·.loc) (fun _ => rfl) (fun _ _ => rfl) ht, hB.gLoc]
    simp [List.sum_append]
  · show sumBy (·.functions) t' = _
    rw [sumBy_totalsAdd (·.functions) (fun e => (e.measurements.length : Int)) (fun _ => rfl)
      (fun _ _ => rfl) ht, hB.gFunctions]
    simp [List.sum_append]
  · show sumBy (·.hardToMaintain) t' = _
    rw [sumBy_totalsAdd (·.hardToMaintain) (fun e => bucketCount 2 e.measurements) (fun _ => rfl)
      (fun t e => by simp [LanguageTotals.add, makeCountProfile_get]) ht, hB.gHard]
    simp [List.sum_append]
  · show sumBy (·.unmaintainable) t' = _
    rw [sumBy_totalsAdd (·.unmaintainable) (fun e => bucketCount 3 e.measurements) (fun _ => rfl)
      (fun t e => by simp [LanguageTotals.add, makeCountProfile_get]) ht, hB.gUnm]
    simp [List.sum_append]

theorem addFiles_built : ∀ (rest done : List FileEntry) (cb : Codebase), Built done cb →
    (∀ e ∈ rest, admissible e.path = true) →
    ∃ cb', cb.addFiles rest = .ok cb' ∧ Built (done ++ rest) cb' := by
  intro rest
  induction rest with
  | nil => intro done cb hB _; exact ⟨cb, rfl, by simpa using hB⟩
  | cons e rest ih =>
    intro done cb hB hadm
    obtain ⟨cb1, h1, hB1⟩ := addFile_built hB e (hadm e (by simp))
    obtain ⟨cb2, h2, hB2⟩ := ih (done ++ [e]) cb1 hB1 (fun x hx => hadm x (by simp [hx]))
    refine ⟨cb2, ?_, by simpa using hB2⟩
    simp only [Codebase.addFiles, bind, Except.bind, h1, h2]

end CL.Codebase
