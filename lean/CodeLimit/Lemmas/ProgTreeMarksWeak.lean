import CodeLimit.Lemmas.ProgTreeMarksLayout
/-!
# Scopes of a layout in which brace blocks may directly follow SUPPRESSED functions

`C01.scopes_of_layout` needs the clause `no_adjacent` for every function.  Here it is needed
only for the functions that are finally reported: a block that directly follows the body of a
marked function is merged into the scope of that function (`C01.adjacent_block_is_merged`), but
that scope is dropped by `_filter_nocl_scopes`, and nobody else needs the merged block.

What remains of `no_adjacent` for all functions is `bodies_apart`: no function BODY starts at the
token directly after another function's body (true of every forest: a header is not empty).
-/
namespace CL.Marks

/-- `s` is the scope built for `f`: its header, a block range that starts with the body and - if
no block directly follows the body - ends with it -/
def ScopeFor (blocks : List Range) (f : Fn) (s : Scope) : Prop :=
  s.hdr = f.hdr ∧ s.blk.s = f.body.s ∧ ((∀ b ∈ blocks, b.s ≠ f.body.e) → s.blk.e = f.body.e)

/-- pointwise relation of two lists (local copy for scopes) -/
inductive ScopesFor (blocks : List Range) : List Fn → List Scope → Prop where
  | nil : ScopesFor blocks [] []
  | cons {f : Fn} {s : Scope} {fs : List Fn} {ss : List Scope} :
      ScopeFor blocks f s → ScopesFor blocks fs ss → ScopesFor blocks (f :: fs) (s :: ss)

theorem maxList_ok_of_ne_nil {l : List Nat} (h : l ≠ []) : ∃ m, maxList l = .ok m := by
  cases l with
  | nil => exact absurd rfl h
  | cons a xs => exact ⟨_, rfl⟩

theorem body_not_taken_core {code : List Tok} {fns : List Fn} {blocks : List Range}
    (L : LayoutCore code fns blocks) (hA : ∀ f ∈ fns, ∀ g ∈ fns, g.body.s ≠ f.body.e)
    {f g : Fn} (hf : f ∈ fns) (hg : g ∈ fns)
    (h : f.hdr.rng.s < g.hdr.rng.s) : ¬ (g.body.s ≤ f.body.s ∧ f.body.s ≤ g.body.e) := by
  intro ⟨h1, h2⟩
  have hfb := L.body_mem f hf
  have hgb := L.body_mem g hg
  have hf1 := L.hdr_ok f hf
  have hg1 := L.hdr_ok g hg
  have hfo := L.blocks_ok _ hfb
  have hgo := L.blocks_ok _ hgb
  by_cases heq : g.body.s = f.body.s
  · exact absurd (L.block_eq_of_start hfb hgb heq.symm) (L.bodies_distinct f hf g hg h)
  · have b1 := L.body_first f hf g.body hgb
    have na := hA g hg f hf
    rcases L.block_vs_fn f hf g.body hgb with h3 | h3 | h3 | h3 <;> omega

theorem buildScopesLoop_core {code : List Tok} {fns : List Fn} {blocks : List Range}
    (L : LayoutCore code fns blocks) (hA : ∀ f ∈ fns, ∀ g ∈ fns, g.body.s ≠ f.body.e) :
    ∀ (P : List Fn) (R : List Range), P.Pairwise (fun f g => g.hdr.rng.s < f.hdr.rng.s) →
      (∀ f ∈ P, f ∈ fns) → R.Sublist blocks → (∀ f ∈ P, f.body ∈ R) →
      ∃ sc, buildScopesLoop (P.map (·.hdr)) R = .ok sc ∧ ScopesFor blocks P sc
  | [], _, _, _, _, _ => ⟨[], rfl, .nil⟩
  | f :: P, R, hP, hfns, hR, hbodies => by
    have hf := hfns f List.mem_cons_self
    have hb := hbodies f List.mem_cons_self
    have hP' := List.pairwise_cons.mp hP
    have hidx := scopeBlockIndices_layout L hf hR hb
    have hb1 := L.fn_bounds hf
    have hself : taken f.body f.body = true :=
      (taken_iff _ _ hb1.2.2.1).mpr ⟨Nat.le_refl _, by omega⟩
    have hmem : f.body ∈ R.filter (taken f.body) := List.mem_filter.mpr ⟨hb, hself⟩
    have hmin : minList ((R.filter (taken f.body)).map (·.s)) = .ok f.body.s := by
      apply minList_eq (List.mem_map_of_mem hmem)
      intro x hx
      obtain ⟨b, hb', rfl⟩ := List.mem_map.mp hx
      obtain ⟨hbR, hbt⟩ := List.mem_filter.mp hb'
      have := (taken_iff _ _ (L.blocks_ok b (hR.subset hbR)).1).mp hbt
      omega
    obtain ⟨e, hmax⟩ := maxList_ok_of_ne_nil (l := (R.filter (taken f.body)).map (·.e))
      (by intro h; have := List.mem_map_of_mem (f := (·.e)) hmem; rw [h] at this; cases this)
    have hmax' : (∀ b ∈ blocks, b.s ≠ f.body.e) → e = f.body.e := by
      intro hna
      have : maxList ((R.filter (taken f.body)).map (·.e)) = .ok f.body.e := by
        apply maxList_eq (List.mem_map_of_mem hmem)
        intro x hx
        obtain ⟨b, hb', rfl⟩ := List.mem_map.mp hx
        obtain ⟨hbR, hbt⟩ := List.mem_filter.mp hb'
        have hbb := hR.subset hbR
        have ht := (taken_iff _ _ (L.blocks_ok b hbb).1).mp hbt
        have hfb := L.body_mem f hf
        by_cases heq : f.body.s = b.s
        · rw [L.block_eq_of_start hfb hbb heq]; exact Nat.le_refl _
        · have := L.laminar' hfb hbb (by omega)
          have := hna b hbb
          omega
      rw [this] at hmax
      cases hmax
      rfl
    obtain ⟨sc, ih, hsc⟩ := buildScopesLoop_core L hA P (R.filter (fun b => !taken f.body b)) hP'.2
      (fun g hg => hfns g (List.mem_cons_of_mem _ hg))
      ((List.filter_sublist).trans hR)
      (fun g hg => by
        have hgf := hfns g (List.mem_cons_of_mem _ hg)
        have hgb := hbodies g (List.mem_cons_of_mem _ hg)
        refine List.mem_filter.mpr ⟨hgb, ?_⟩
        have hnt := body_not_taken_core L hA hgf hf (hP'.1 g hg)
        have hgo := (L.fn_bounds hgf).2.2.1
        cases ht : taken f.body g.body with
        | false => rfl
        | true => exact absurd ((taken_iff _ _ hgo).mp ht) hnt)
    refine ⟨⟨f.hdr, ⟨f.body.s, e⟩⟩ :: sc, ?_, .cons ⟨rfl, rfl, hmax'⟩ hsc⟩
    simp only [List.map_cons, buildScopesLoop, hidx, idxOfSat_isEmpty R _ hb hself,
      Bool.false_eq_true, if_false, idxOfSat_sel, idxOfSat_delete, hmin, hmax, ih]

theorem ScopesFor.reverse {blocks : List Range} : ∀ {fs : List Fn} {ss : List Scope},
    ScopesFor blocks fs ss → ScopesFor blocks fs.reverse ss.reverse := by
  have app : ∀ {a : List Fn} {b : List Scope} {c : List Fn} {d : List Scope},
      ScopesFor blocks a b → ScopesFor blocks c d → ScopesFor blocks (a ++ c) (b ++ d) := by
    intro a b c d h1 h2
    induction h1 with
    | nil => exact h2
    | cons h _ ih => exact .cons h ih
  intro fs ss h
  induction h with
  | nil => exact .nil
  | cons h _ ih =>
    rw [List.reverse_cons, List.reverse_cons]
    exact app ih (.cons h .nil)

/-- **the scopes before suppression**, on a layout in which blocks may directly follow function
bodies: every function gets a scope that starts with its header and its body; the scope ends with
the body if no block directly follows the body -/
theorem buildScopes0_core {code : List Tok} {fns : List Fn} {blocks : List Range}
    (L : LayoutCore code fns blocks) (hA : ∀ f ∈ fns, ∀ g ∈ fns, g.body.s ≠ f.body.e)
    {hs : List Header} (hperm : hs.Perm (fns.map (·.hdr))) :
    ∃ sc, buildScopes0 code hs blocks = .ok sc ∧ ScopesFor blocks fns sc := by
  have hsort : sortDesc code (fun h : Header => h.rng.s) hs
      = .ok (fns.map (·.hdr)).reverse := by
    apply sortDesc_eq_of_perm L.posSorted ((List.reverse_perm _).trans hperm.symm)
    · rw [List.pairwise_reverse, List.pairwise_map]; exact L.fns_sorted
    · intro h hh
      obtain ⟨f, hf, rfl⟩ := List.mem_map.mp (hperm.mem_iff.mp hh)
      have := L.fn_bounds hf
      omega
  obtain ⟨sc, hloop, hsc⟩ := buildScopesLoop_core L hA fns.reverse blocks
    (List.pairwise_reverse.mpr L.fns_sorted) (fun f hf => List.mem_reverse.mp hf)
    (List.Sublist.refl _) (fun f hf => L.body_mem f (List.mem_reverse.mp hf))
  refine ⟨sc.reverse, ?_, by simpa using hsc.reverse⟩
  unfold buildScopes0
  rw [hsort]
  simp only [List.map_reverse] at hloop ⊢
  simp only [hloop]

/-- dropping the marked scopes leaves exactly the scopes of the unmarked functions, if no block
directly follows the body of an UNMARKED function -/
theorem filterNocl_scopesFor {all : List Tok} {blocks : List Range} : ∀ {fns : List Fn}
    {sc : List Scope}, ScopesFor blocks fns sc →
    (∀ f ∈ unmarkedFns all fns, ∀ b ∈ blocks, b.s ≠ f.body.e) →
    filterNocl sc (noclTokens all) = (unmarkedFns all fns).map Fn.toScope := by
  intro fns sc h
  rw [filterNocl_eq_filter]
  induction h with
  | nil => intro _; rfl
  | @cons f s fs ss hfs _ ih =>
    intro hna
    unfold unmarkedFns at hna ih ⊢
    have hsub : ∀ g ∈ fs.filter (fun f => decide (¬ Marked all f.hdr.name.line)),
        g ∈ (f :: fs).filter (fun f => decide (¬ Marked all f.hdr.name.line)) := by
      intro g hg
      rw [List.mem_filter] at hg ⊢
      exact ⟨List.mem_cons_of_mem _ hg.1, hg.2⟩
    have ih' := ih (fun g hg => hna g (hsub g hg))
    simp only [List.filter_cons, hfs.1]
    by_cases hm : Marked all f.hdr.name.line
    · simp only [hm, not_true_eq_false, decide_false, Bool.false_eq_true, if_false]
      exact ih'
    · simp only [hm, not_false_eq_true, decide_true, if_true, List.map_cons]
      rw [ih']
      congr 1
      have hfm : f ∈ (f :: fs).filter (fun f => decide (¬ Marked all f.hdr.name.line)) :=
        List.mem_filter.mpr ⟨List.mem_cons_self, by simp [hm]⟩
      have he := hfs.2.2 (hna f hfm)
      cases s with
      | mk hdr blk =>
        cases blk with
        | mk bs be =>
          simp only [Fn.toScope] at hfs he ⊢
          obtain ⟨h1, h2, _⟩ := hfs
          simp only at h1 h2 he
          subst h1 h2 he
          rfl

/-- the raw scopes of a layout whose `no_adjacent` clause may fail -/
theorem rawScopes_core {L : Language} {code : List Tok} {fns : List Fn} {blocks : List Range}
    (hpy : L.python = false) {hs : List Header} (hh : extractHeaders L code = .ok hs)
    (hperm : hs.Perm (fns.map (·.hdr)))
    (hb : getBlocks code = .ok blocks) (hL : LayoutCore code fns blocks)
    (hA : ∀ f ∈ fns, ∀ g ∈ fns, g.body.s ≠ f.body.e) :
    ∃ sc, rawScopes L code = .ok sc ∧ ScopesFor blocks fns sc := by
  obtain ⟨sc, h1, h2⟩ := buildScopes0_core hL hA hperm
  refine ⟨sc, ?_, h2⟩
  unfold rawScopes
  rw [hh]
  simp only [bind, Except.bind]
  unfold extractBlocks
  rw [hpy]
  simp only [Bool.false_eq_true, if_false, hb]
  exact h1

/-- **`scan_file` on a layout with marked functions; `no_adjacent` only for the unmarked ones**,
languages with nested functions -/
theorem scan_layout_marked_core {L : Language} {all code : List Tok} {fns : List Fn}
    {blocks : List Range} (hcode : filterTokens false all = code) (hpy : L.python = false)
    (hnest : L.nested = true) {hs : List Header} (hh : extractHeaders L code = .ok hs)
    (hperm : hs.Perm (fns.map (·.hdr)))
    (hb : getBlocks code = .ok blocks) (hL : LayoutCore code fns blocks)
    (hA : ∀ f ∈ fns, ∀ g ∈ fns, g.body.s ≠ f.body.e)
    (hna : ∀ f ∈ unmarkedFns all fns, ∀ b ∈ blocks, b.s ≠ f.body.e) :
    ∃ ms, scanFile L all = .ok ms ∧
      ms.map some = (unmarkedFns all fns).map (expected code (unmarkedFns all fns)) := by
  have hL' : LayoutCore code (unmarkedFns all fns) blocks :=
    layoutCore_sublist hL List.filter_sublist
  obtain ⟨ms, h1, h2⟩ := measureAll_layout hL' (unmarkedFns all fns) (fun _ h => h)
  obtain ⟨sc, hraw, hsc⟩ := rawScopes_core hpy hh hperm hb hL hA
  refine ⟨ms, ?_, h2⟩
  unfold scanFile
  rw [buildScopes_eq, hcode, hraw]
  simp only [Except.map, filterNocl_scopesFor hsc hna]
  unfold arrange
  rw [if_pos hnest, withChildren_layout hL'.nested]
  exact h1

/-- the same for languages without nested functions -/
theorem scan_layout_marked_flat_core {L : Language} {all code : List Tok} {fns : List Fn}
    {blocks : List Range} (hcode : filterTokens false all = code) (hpy : L.python = false)
    (hnest : L.nested = false) {hs : List Header} (hh : extractHeaders L code = .ok hs)
    (hperm : hs.Perm (fns.map (·.hdr)))
    (hb : getBlocks code = .ok blocks) (hL : LayoutCore code fns blocks)
    (hA : ∀ f ∈ fns, ∀ g ∈ fns, g.body.s ≠ f.body.e)
    (hna : ∀ f ∈ unmarkedFns all fns, ∀ b ∈ blocks, b.s ≠ f.body.e) :
    ∃ ms, scanFile L all = .ok ms ∧
      ms.map some = (topLevel (unmarkedFns all fns)).map (expectedFlat code) := by
  have hL' : LayoutCore code (unmarkedFns all fns) blocks :=
    layoutCore_sublist hL List.filter_sublist
  obtain ⟨ms, h1, h2⟩ := measureAll_layout_flat hL' (topLevel (unmarkedFns all fns))
    (fun f hf => (List.mem_filter.mp hf).1)
  obtain ⟨sc, hraw, hsc⟩ := rawScopes_core hpy hh hperm hb hL hA
  refine ⟨ms, ?_, h2⟩
  unfold scanFile
  rw [buildScopes_eq, hcode, hraw]
  simp only [Except.map, filterNocl_scopesFor hsc hna]
  unfold arrange
  simp only [hnest, Bool.false_eq_true, if_false]
  rw [filterNested_layout hL'.nested, List.map_map]
  exact h1

end CL.Marks
