import CodeLimit.Spec.ProgTreeCanon
import CodeLimit.Lemmas.SynHeaderList
/-!
# List-level facts for the canonical fragment (`Spec/ProgTreeCanon.lean`)

* braces are no parentheses and no names;
* `parenBal` / `groupsOnly` pieces are transparent for the pass `groupsLen`;
* `synHdrsG fol bad pb toks i`: the list of ALL syntactic headers `Name ( … )+` of `toks` that pass
  the follow-up test `fol` and do not follow a `bad` token, in source order, as `Header`s with
  offsets shifted by `i`; a canonical header contributes exactly itself (`synHdrsG_header`).
-/
namespace CL
open CL.Syn

/-! ## tokens -/

theorem isSymbol_iff {t : Tok} {s : Str} : t.isSymbol s = true ↔ t.kind = 3 ∧ t.val = s := by
  simp [Tok.isSymbol]

theorem lbrace_facts {t : Tok} (h : t.isSymbol [123] = true) :
    isOpen t = false ∧ isClose t = false ∧ t.isName = false := by
  obtain ⟨h1, h2⟩ := isSymbol_iff.1 h
  simp [isOpen, isClose, Tok.isName, Tok.isSymbol, h1, h2]

theorem rbrace_facts {t : Tok} (h : t.isSymbol [125] = true) :
    isOpen t = false ∧ isClose t = false ∧ t.isName = false ∧ t.isSymbol [123] = false := by
  obtain ⟨h1, h2⟩ := isSymbol_iff.1 h
  simp [isOpen, isClose, Tok.isName, Tok.isSymbol, h1, h2]

theorem name_not_symbol {t : Tok} (h : t.isName = true) (s : Str) : t.isSymbol s = false := by
  simp only [Tok.isName, beq_iff_eq] at h
  simp [Tok.isSymbol, h]

theorem name_noParen {t : Tok} (h : t.isName = true) : isOpen t = false ∧ isClose t = false :=
  ⟨isName_not_isOpen h, isName_not_isClose h⟩

theorem noParen_iff {t : Tok} : t.noParen = true ↔ isOpen t = false ∧ isClose t = false := by
  simp [Tok.noParen]

/-! ## `parenBal` -/

theorem parenBal_open {t : Tok} (ts : List Tok) (d : Nat) (h : isOpen t = true) :
    parenBal (t :: ts) d = parenBal ts (d + 1) := by
  simp [parenBal, h]

theorem parenBal_close {t : Tok} (ts : List Tok) (d : Nat) (h : isOpen t = false)
    (hc : isClose t = true) : parenBal (t :: ts) (d + 1) = parenBal ts d := by
  simp [parenBal, h, hc]

theorem parenBal_close_zero {t : Tok} (ts : List Tok) (h : isOpen t = false)
    (hc : isClose t = true) : parenBal (t :: ts) 0 = false := by
  simp [parenBal, h, hc]

theorem parenBal_other {t : Tok} (ts : List Tok) (d : Nat) (h : isOpen t = false)
    (hc : isClose t = false) : parenBal (t :: ts) d = parenBal ts d := by
  simp [parenBal, h, hc]

/-- a balanced piece in front does not change the balance of what follows -/
theorem parenBal_append {x : List Tok} (y : List Tok) (D : Nat) :
    ∀ {d : Nat}, parenBal x d = true → parenBal (x ++ y) (D + d) = parenBal y D := by
  induction x with
  | nil =>
    intro d h
    simp only [parenBal, beq_iff_eq] at h
    subst h; rfl
  | cons t ts ih =>
    intro d h
    rw [List.cons_append]
    cases ho : isOpen t
    · cases hc : isClose t
      · rw [parenBal_other _ _ ho hc] at h ⊢
        exact ih h
      · cases d with
        | zero => rw [parenBal_close_zero _ ho hc] at h; cases h
        | succ d' =>
          rw [parenBal_close _ _ ho hc] at h
          rw [show D + (d' + 1) = (D + d') + 1 by omega, parenBal_close _ _ ho hc]
          exact ih h
    · rw [parenBal_open _ _ ho] at h
      rw [parenBal_open _ _ ho, show D + d + 1 = D + (d + 1) by omega]
      exact ih h

/-- a balanced piece that is read inside at least one open parenthesis is read completely, and
the pass goes on after it at the same depth -/
theorem groupsLen_parenBal {x : List Tok} (Y : List Tok) (r : Nat) :
    ∀ {d : Nat}, parenBal x d = true →
      groupsLen (x ++ Y) (r + 1 + d) = x.length + groupsLen Y (r + 1) := by
  induction x with
  | nil =>
    intro d h
    simp only [parenBal, beq_iff_eq] at h
    subst h; simp
  | cons t ts ih =>
    intro d h
    rw [List.cons_append]
    cases ho : isOpen t
    · cases hc : isClose t
      · rw [parenBal_other _ _ ho hc] at h
        rw [show r + 1 + d = (r + d) + 1 by omega, groupsLen_other _ _ ho hc,
          show r + d + 1 = r + 1 + d by omega, ih h]
        simp only [List.length_cons]; omega
      · cases d with
        | zero => rw [parenBal_close_zero _ ho hc] at h; cases h
        | succ d' =>
          rw [parenBal_close _ _ ho hc] at h
          rw [show r + 1 + (d' + 1) = (r + 1 + d') + 1 by omega, groupsLen_close _ _ ho hc, ih h]
          simp only [List.length_cons]; omega
    · rw [parenBal_open _ _ ho] at h
      rw [groupsLen_open _ _ ho, show r + 1 + d + 1 = r + 1 + (d + 1) by omega, ih h]
      simp only [List.length_cons]; omega

/-! ## `groupsOnly` -/

theorem groupsOnly_open {t : Tok} (ts : List Tok) (d : Nat) (h : isOpen t = true) :
    groupsOnly (t :: ts) d = groupsOnly ts (d + 1) := by
  simp [groupsOnly, h]

theorem groupsOnly_zero {t : Tok} (ts : List Tok) (h : isOpen t = false) :
    groupsOnly (t :: ts) 0 = false := by
  simp [groupsOnly, h]

theorem groupsOnly_close {t : Tok} (ts : List Tok) (d : Nat) (h : isOpen t = false)
    (hc : isClose t = true) : groupsOnly (t :: ts) (d + 1) = groupsOnly ts d := by
  simp [groupsOnly, h, hc]

theorem groupsOnly_other {t : Tok} (ts : List Tok) (d : Nat) (h : isOpen t = false)
    (hc : isClose t = false) : groupsOnly (t :: ts) (d + 1) = groupsOnly ts (d + 1) := by
  simp [groupsOnly, h, hc]

/-- parenthesis groups are balanced -/
theorem parenBal_of_groupsOnly {g : List Tok} : ∀ {d : Nat}, groupsOnly g d = true →
    parenBal g d = true := by
  induction g with
  | nil => intro d h; exact h
  | cons t ts ih =>
    intro d h
    cases ho : isOpen t
    · cases d with
      | zero => rw [groupsOnly_zero _ ho] at h; cases h
      | succ d' =>
        cases hc : isClose t
        · rw [groupsOnly_other _ _ ho hc] at h
          rw [parenBal_other _ _ ho hc]; exact ih h
        · rw [groupsOnly_close _ _ ho hc] at h
          rw [parenBal_close _ _ ho hc]; exact ih h
    · rw [groupsOnly_open _ _ ho] at h
      rw [parenBal_open _ _ ho]; exact ih h

/-- the pass reads a piece that consists of groups only completely and is outside all
parentheses after it -/
theorem groupsLen_groupsOnly {g : List Tok} (Y : List Tok) : ∀ {d : Nat}, groupsOnly g d = true →
    groupsLen (g ++ Y) d = g.length + groupsLen Y 0 := by
  induction g with
  | nil =>
    intro d h
    simp only [groupsOnly, beq_iff_eq] at h
    subst h; simp
  | cons t ts ih =>
    intro d h
    rw [List.cons_append]
    cases ho : isOpen t
    · cases d with
      | zero => rw [groupsOnly_zero _ ho] at h; cases h
      | succ d' =>
        cases hc : isClose t
        · rw [groupsOnly_other _ _ ho hc] at h
          rw [groupsLen_other _ _ ho hc, ih h]
          simp only [List.length_cons]; omega
        · rw [groupsOnly_close _ _ ho hc] at h
          rw [groupsLen_close _ _ ho hc, ih h]
          simp only [List.length_cons]; omega
    · rw [groupsOnly_open _ _ ho] at h
      rw [groupsLen_open _ _ ho, ih h]
      simp only [List.length_cons]; omega

/-! ## heads -/

/-- the list is empty or its first token does not have the text `(` -/
def NoOpenHead (k : List Tok) : Prop := ∀ t ∈ k.head?, isOpen t = false

/-- the list is empty or its first token is not the symbol `{` -/
def NoBraceHead (k : List Tok) : Prop := ∀ t ∈ k.head?, t.isSymbol [123] = false

theorem NoOpenHead.nil : NoOpenHead [] := by intro t h; cases h

theorem NoBraceHead.nil : NoBraceHead [] := by intro t h; cases h

theorem NoOpenHead.cons {t : Tok} {k : List Tok} (h : isOpen t = false) : NoOpenHead (t :: k) := by
  intro u hu
  simp only [List.head?_cons, Option.mem_def, Option.some.injEq] at hu
  subst hu; exact h

theorem NoBraceHead.cons {t : Tok} {k : List Tok} (h : t.isSymbol [123] = false) :
    NoBraceHead (t :: k) := by
  intro u hu
  simp only [List.head?_cons, Option.mem_def, Option.some.injEq] at hu
  subst hu; exact h

theorem groupsLen_noOpenHead {k : List Tok} (h : NoOpenHead k) : groupsLen k 0 = 0 := by
  cases k with
  | nil => rfl
  | cons t ts => exact groupsLen_zero ts (h t (by simp))

/-! ## all syntactic headers of a token list -/

/-- the tokens `ts` follow a name token: they start with `(`, and the tokens after the maximal run
of parenthesis groups pass the follow-up test `fol` -/
def hdrFollowsG (fol : List Tok → Bool) (ts : List Tok) : Bool :=
  ts.head?.any isOpen && fol (ts.drop (groupsLen ts 0))

/-- ALL syntactic headers `Name ( … )+` of `toks` that pass the follow-up test `fol` and whose
previous token is not `bad`, in source order; `i` = the index of the first token of `toks`, `pb` =
the token in front of `toks` is `bad` -/
def synHdrsG (fol : List Tok → Bool) (bad : Tok → Bool) : Bool → List Tok → Nat → List Header
  | _, [], _ => []
  | pb, t :: ts, i =>
    if t.isName && !pb && hdrFollowsG fol ts then
      ⟨t, ⟨i, i + 1 + groupsLen ts 0⟩⟩ :: synHdrsG fol bad (bad t) ts (i + 1)
    else synHdrsG fol bad (bad t) ts (i + 1)

/-- is the last token of `l` (of what precedes, if `l` is empty) `bad`? -/
def flagAfter (bad : Tok → Bool) (pb : Bool) (l : List Tok) : Bool := l.foldl (fun _ t => bad t) pb

theorem flagAfter_nil (bad : Tok → Bool) (pb : Bool) : flagAfter bad pb [] = pb := rfl

theorem flagAfter_cons (bad : Tok → Bool) (pb : Bool) (t : Tok) (l : List Tok) :
    flagAfter bad pb (t :: l) = flagAfter bad (bad t) l := rfl

theorem flagAfter_append (bad : Tok → Bool) (pb : Bool) (a b : List Tok) :
    flagAfter bad pb (a ++ b) = flagAfter bad (flagAfter bad pb a) b := by
  unfold flagAfter; rw [List.foldl_append]

theorem flagAfter_snoc (bad : Tok → Bool) (pb : Bool) (a : List Tok) (t : Tok) :
    flagAfter bad pb (a ++ [t]) = bad t := by
  rw [flagAfter_append]; rfl

section
variable {fol : List Tok → Bool} {bad : Tok → Bool}

theorem synHdrsG_cons_false {t : Tok} {ts : List Tok} {pb : Bool} (i : Nat)
    (h : (t.isName && !pb && hdrFollowsG fol ts) = false) :
    synHdrsG fol bad pb (t :: ts) i = synHdrsG fol bad (bad t) ts (i + 1) := by
  simp [synHdrsG, h]

theorem synHdrsG_cons_true {t : Tok} {ts : List Tok} {pb : Bool} (i : Nat)
    (h : (t.isName && !pb && hdrFollowsG fol ts) = true) :
    synHdrsG fol bad pb (t :: ts) i
      = ⟨t, ⟨i, i + 1 + groupsLen ts 0⟩⟩ :: synHdrsG fol bad (bad t) ts (i + 1) := by
  simp only [synHdrsG, h, if_true]

theorem synHdrsG_not_name {t : Tok} (ts : List Tok) (pb : Bool) (i : Nat) (h : t.isName = false) :
    synHdrsG fol bad pb (t :: ts) i = synHdrsG fol bad (bad t) ts (i + 1) :=
  synHdrsG_cons_false i (by rw [h]; rfl)

theorem hdrFollowsG_noOpenHead {k : List Tok} (h : NoOpenHead k) : hdrFollowsG fol k = false := by
  cases k with
  | nil => rfl
  | cons t ts => simp [hdrFollowsG, h t (by simp)]

/-- a piece without call-shaped pairs, followed by a token that is not `(`, contains no header -/
theorem synHdrsG_noCall {Z : List Tok} (hZ : NoOpenHead Z) :
    ∀ (l : List Tok) (pb : Bool) (i : Nat), noCall l = true →
      synHdrsG fol bad pb (l ++ Z) i = synHdrsG fol bad (flagAfter bad pb l) Z (i + l.length)
  | [], pb, i, _ => rfl
  | [t], pb, i, _ => by
    have : hdrFollowsG fol Z = false := hdrFollowsG_noOpenHead hZ
    rw [List.singleton_append, synHdrsG_cons_false i (by rw [this]; simp)]
    rfl
  | t :: u :: ts, pb, i, h => by
    simp only [noCall, Bool.and_eq_true, Bool.not_eq_true'] at h
    have h1 : (t.isName && !pb && hdrFollowsG fol (u :: ts ++ Z)) = false := by
      cases hn : t.isName
      · rfl
      · have hu : isOpen u = false := by simpa [hn] using h.1
        simp [hdrFollowsG, hu]
    rw [List.cons_append, synHdrsG_cons_false i h1, synHdrsG_noCall hZ (u :: ts) _ (i + 1) h.2,
      flagAfter_cons]
    simp only [List.length_cons]
    congr 1; omega

/-- tokens that are no Name tokens start no header -/
theorem synHdrsG_skipNames (X : List Tok) :
    ∀ (l : List Tok) (pb : Bool) (i : Nat), (∀ t ∈ l, t.isName = false) →
      synHdrsG fol bad pb (l ++ X) i = synHdrsG fol bad (flagAfter bad pb l) X (i + l.length)
  | [], pb, i, _ => rfl
  | t :: ts, pb, i, h => by
    rw [List.cons_append, synHdrsG_not_name _ _ _ (h t (by simp)),
      synHdrsG_skipNames X ts _ _ (fun x hx => h x (List.mem_cons_of_mem _ hx)), flagAfter_cons]
    simp only [List.length_cons]
    congr 1; omega

theorem flagAfter_false_of_all : ∀ (l : List Tok), (∀ t ∈ l, bad t = false) →
    flagAfter bad false l = false
  | [], _ => rfl
  | t :: ts, h => by
    rw [flagAfter_cons, h t (by simp)]
    exact flagAfter_false_of_all ts (fun x hx => h x (List.mem_cons_of_mem _ hx))

theorem noCall_of_noOpen : ∀ (l : List Tok), (∀ t ∈ l, isOpen t = false) → noCall l = true
  | [], _ => rfl
  | [_], _ => rfl
  | t :: u :: ts, h => by
    have hu : isOpen u = false := h u (by simp)
    simp only [noCall, hu, Bool.and_false, Bool.not_false, Bool.true_and]
    exact noCall_of_noOpen (u :: ts) (fun x hx => h x (List.mem_cons_of_mem _ hx))

/-- a canonical header whose following tokens pass the follow-up test contributes exactly itself -/
theorem synHdrsG_header {h Z : List Tok} (i : Nat) (hh : headerOK h = true)
    (hZ : NoOpenHead Z) (hf : fol Z = true) :
    synHdrsG fol bad false (h ++ Z) i
      = ⟨h.headD default, ⟨i, i + h.length⟩⟩ :: synHdrsG fol bad (flagAfter bad false h) Z
          (i + h.length) := by
  match h, hh with
  | n :: o :: g, hh =>
    simp only [headerOK, headerShape, Bool.and_eq_true, List.tail_cons] at hh
    obtain ⟨⟨⟨hn, ho⟩, hg⟩, hnc⟩ := hh
    have hlen : groupsLen (o :: g ++ Z) 0 = g.length + 1 := by
      rw [List.cons_append, groupsLen_open _ _ ho, groupsLen_groupsOnly _ hg,
        groupsLen_noOpenHead hZ]
    have hfo : hdrFollowsG fol (o :: g ++ Z) = true := by
      unfold hdrFollowsG
      rw [hlen]
      simp only [List.cons_append, List.head?_cons, Option.any_some, ho, Bool.true_and,
        List.drop_succ_cons]
      rw [List.drop_left' rfl]
      exact hf
    rw [List.cons_append, synHdrsG_cons_true i (by rw [hn, hfo]; rfl), hlen,
      synHdrsG_noCall hZ (o :: g) _ (i + 1) hnc, flagAfter_cons]
    simp only [List.headD_cons, List.length_cons]
    rw [show i + 1 + (g.length + 1) = i + (g.length + 1 + 1) by omega]
    rfl

/-- every syntactic header that passes the follow-up test and whose previous token is not `bad` is
listed -/
theorem mem_synHdrsG {t : Tok} {ts : List Tok} (ht : t.isName = true)
    (hf : hdrFollowsG fol ts = true) :
    ∀ (pre : List Tok) (pb : Bool) (i : Nat), flagAfter bad pb pre = false →
      (⟨t, ⟨i + pre.length, i + pre.length + 1 + groupsLen ts 0⟩⟩ : Header)
        ∈ synHdrsG fol bad pb (pre ++ t :: ts) i
  | [], pb, i, hpb => by
    rw [flagAfter_nil] at hpb
    rw [List.nil_append, synHdrsG_cons_true i (by rw [ht, hf, hpb]; rfl)]
    exact List.mem_cons_self
  | a :: pre, pb, i, hpb => by
    rw [flagAfter_cons] at hpb
    have := mem_synHdrsG ht hf pre (bad a) (i + 1) hpb
    rw [List.cons_append]
    simp only [List.length_cons]
    rw [show i + (pre.length + 1) = i + 1 + pre.length by omega]
    simp only [synHdrsG]
    split
    · exact List.mem_cons_of_mem _ this
    · exact this

theorem mem_synHdrsG_of_synHeader {toks : List Tok} {s e : Nat} {n : Tok}
    (hsyn : SynHeader toks s e) (hfol : fol (toks.drop e) = true) (hn : toks[s]? = some n)
    (hprev : s = 0 ∨ ∃ t, toks[s - 1]? = some t ∧ bad t = false) :
    (⟨n, ⟨s, e⟩⟩ : Header) ∈ synHdrsG fol bad false toks 0 := by
  obtain ⟨⟨n', hn', hnn⟩, ⟨o, ho, hoo⟩, he⟩ := hsyn
  rw [hn] at hn'; cases hn'
  have hsl := (List.getElem?_eq_some_iff.1 hn).1
  have hdrop : toks.drop (s + 1) = o :: toks.drop (s + 1 + 1) := drop_eq_cons ho
  have htoks : toks = toks.take s ++ n :: toks.drop (s + 1) := by
    rw [← drop_eq_cons hn, List.take_append_drop]
  have hlt : (toks.take s).length = s := by rw [List.length_take]; omega
  unfold groupsEnd at he
  have hf : hdrFollowsG fol (toks.drop (s + 1)) = true := by
    unfold hdrFollowsG
    have h1 : (toks.drop (s + 1)).head?.any isOpen = true := by rw [hdrop]; simpa using hoo
    rw [h1, List.drop_drop, ← he, hfol]; rfl
  have hflag : flagAfter bad false (toks.take s) = false := by
    rcases hprev with rfl | ⟨t, ht, hb⟩
    · rfl
    · rcases Nat.eq_zero_or_pos s with rfl | hpos
      · rfl
      · have : toks.take s = toks.take (s - 1) ++ [t] := by
          have h1 : s = (s - 1) + 1 := by omega
          rw [h1, List.take_add_one, ht]
          simp
        rw [this, flagAfter_snoc]; exact hb
  have := mem_synHdrsG (fol := fol) (bad := bad) hnn hf (toks.take s) false 0 hflag
  rw [← htoks, hlt] at this
  simp only [Nat.zero_add] at this
  rw [he]; exact this

end

/-! ## from a canonical header in context to the hypotheses of the completeness theorems -/

theorem noCall_get : ∀ (l : List Tok), noCall l = true → ∀ (j : Nat) (a c : Tok),
    l[j]? = some a → l[j + 1]? = some c → ¬ (a.isName = true ∧ isOpen c = true)
  | [], _, j, a, c, h1, _ => by simp at h1
  | [t], _, j, a, c, _, h2 => by simp at h2
  | t :: u :: ts, h, 0, a, c, h1, h2 => by
    simp only [noCall, Bool.and_eq_true, Bool.not_eq_true'] at h
    simp only [List.getElem?_cons_zero, Option.some.injEq, Nat.zero_add,
      List.getElem?_cons_succ] at h1 h2
    subst h1; subst h2
    intro ⟨ha, hc⟩
    simp [ha, hc] at h
  | t :: u :: ts, h, j + 1, a, c, h1, h2 => by
    simp only [noCall, Bool.and_eq_true] at h
    exact noCall_get (u :: ts) h.2 j a c (by simpa using h1) (by simpa using h2)

/-- a canonical header `h`, preceded by `pre` and followed by tokens `Z` that do not start with `(`,
is a syntactic header of the whole token list that satisfies the hypotheses of the completeness
theorems `C01syn.c_header_complete` / `java_header_complete`; the tokens after it are `Z` -/
theorem header_in_context {pre h Z : List Tok} (hh : headerOK h = true) (hZ : NoOpenHead Z) :
    let toks := pre ++ (h ++ Z)
    SynHeader toks pre.length (pre.length + h.length) ∧
    toks.drop (pre.length + h.length) = Z ∧
    toks[pre.length]? = some (h.headD default) ∧
    isClose (h.headD default) = false ∧
    (∀ q, pre.length < q → q + 2 < pre.length + h.length →
      ¬ (NameAt toks q ∧ OpenAt toks (q + 1))) := by
  match h, hh with
  | n :: o :: g, hh =>
    simp only [headerOK, headerShape, Bool.and_eq_true, List.tail_cons] at hh
    obtain ⟨⟨⟨hn, ho⟩, hg⟩, hnc⟩ := hh
    intro toks
    have hget : ∀ j, toks[pre.length + j]? = (n :: o :: g ++ Z)[j]? := by
      intro j
      show (pre ++ _)[pre.length + j]? = _
      rw [List.getElem?_append_right (by omega)]
      congr 1; omega
    have h0 : toks[pre.length]? = some n := by simpa using hget 0
    have h1 : toks[pre.length + 1]? = some o := by simpa using hget 1
    have hdrop : toks.drop (pre.length + 1) = o :: (g ++ Z) := by
      show (pre ++ _).drop _ = _
      rw [← List.drop_drop, List.drop_left' rfl]
      rfl
    have hlen : groupsLen (o :: (g ++ Z)) 0 = g.length + 1 := by
      rw [groupsLen_open _ _ ho, groupsLen_groupsOnly _ hg, groupsLen_noOpenHead hZ]
    refine ⟨⟨⟨n, h0, hn⟩, ⟨o, h1, ho⟩, ?_⟩, ?_, by simpa using h0, ?_, ?_⟩
    · unfold groupsEnd
      rw [hdrop, hlen]
      simp only [List.length_cons]; omega
    · show (pre ++ _).drop _ = _
      rw [← List.drop_drop, List.drop_left' rfl, List.drop_left' rfl]
    · simp only [List.headD_cons]
      exact isName_not_isClose hn
    · intro q hq1 hq2 ⟨⟨a, ha, han⟩, ⟨c, hc, hco⟩⟩
      simp only [List.length_cons] at hq2
      obtain ⟨j, rfl⟩ : ∃ j, q = pre.length + (j + 1) := ⟨q - pre.length - 1, by omega⟩
      have hj : j + 1 < g.length + 1 := by omega
      rw [hget] at ha
      rw [show pre.length + (j + 1) + 1 = pre.length + (j + 1 + 1) by omega, hget] at hc
      have ha' : (o :: g)[j]? = some a := by
        rw [← ha]
        simp only [List.cons_append, List.getElem?_cons_succ]
        rw [← List.cons_append, List.getElem?_append_left (by simp; omega)]
      have hc' : (o :: g)[j + 1]? = some c := by
        rw [← hc]
        simp only [List.cons_append, List.getElem?_cons_succ]
        rw [List.getElem?_append_left (by omega)]
      exact noCall_get (o :: g) hnc j a c ha' hc' ⟨han, hco⟩

end CL
