import CodeLimit.Lemmas.CodebaseSums
/-!
# `aggregate`: every folder ends up with the sum of the profiles beneath it; fuel suffices
-/
namespace CL.Codebase

/-- the tree without the profiles: keys and entries in order -/
def Shape (T : Tree) : List (Str × List Entry) := T.map fun x => (x.1, x.2.entries)

/-- `tree[k].profile` if the folder exists -/
def profileAt (T : Tree) (k : Str) : Option Profile := (dget? k T).map (·.profile)

theorem dget?_map {α β : Type} (g : α → β) (l : List (Str × α)) (k : Str) :
    dget? k (l.map fun x => (x.1, g x.2)) = (dget? k l).map g := by
  induction l with
  | nil => rfl
  | cons x t ih =>
    obtain ⟨kx, vx⟩ := x
    by_cases h : kx = k <;> simp [dget?, h, ih]

theorem entries_of_shape {T T0 : Tree} (h : Shape T = Shape T0) (k : Str) :
    (dget? k T).map (·.entries) = (dget? k T0).map (·.entries) := by
  have := congrArg (dget? k) h
  simpa [Shape, dget?_map] using this

theorem folder_of_shape {T T0 : Tree} (h : Shape T = Shape T0) {k : Str} {f0 : Folder}
    (hf0 : dget? k T0 = some f0) : ∃ f, dget? k T = some f ∧ f.entries = f0.entries := by
  have := entries_of_shape h k
  rw [hf0] at this
  cases hf : dget? k T with
  | none => simp [hf] at this
  | some f => exact ⟨f, rfl, by simpa [hf] using this⟩

theorem keys_of_shape {T T0 : Tree} (h : Shape T = Shape T0) : T.map Prod.fst = T0.map Prod.fst := by
  have := congrArg (List.map Prod.fst) h
  simpa [Shape, List.map_map, Function.comp_def] using this

theorem shape_dset_profile {T : Tree} {k : Str} {f : Folder} (hf : dget? k T = some f) (p : Profile) :
    Shape (dset k { f with profile := p } T) = Shape T := by
  induction T with
  | nil => simp [dget?] at hf
  | cons x t ih =>
    obtain ⟨kx, vx⟩ := x
    by_cases h : kx = k
    · simp only [dget?, h, if_true, Option.some.injEq] at hf
      subst hf
      simp [Shape, dset, h]
    · simp only [dget?, h, if_false] at hf
      have := ih hf
      simp only [Shape] at this ⊢
      simp [dset, h, this]

theorem shape_setProfile (k : Str) (p : Profile) (T : Tree) : Shape (setProfile k p T) = Shape T := by
  unfold setProfile
  split
  · rename_i f hf; exact shape_dset_profile hf p
  · rfl

theorem profileAt_setProfile (k : Str) (p : Profile) (T : Tree) (k' : Str) :
    profileAt (setProfile k p T) k' = if k' = k then (profileAt T k).map (fun _ => p) else profileAt T k' := by
  unfold setProfile profileAt
  cases hf : dget? k T with
  | none =>
    by_cases h : k' = k
    · subst h; simp [hf]
    · simp [h]
  | some f =>
    simp only [dget?_dset]
    by_cases h : k' = k
    · subst h; simp
    · simp [h]

/-- names of the sub-folder entries in a list of entries -/
def namesOf (l : List Entry) : List Str := l.filterMap fun | .folder n => some n | .file _ => none

theorem folderNames_eq (f : Folder) : folderNames f = namesOf f.entries := rfl

/-- what an entry of the folder `k` adds to the folder's profile -/
def contrib (es : List FileEntry) (k : Str) : Entry → Profile
  | .file e => e.profile
  | .folder n => sumUnder es (childKey k n)

theorem psum_contrib_split (es : List FileEntry) (k : Str) (l : List Entry) :
    psum (l.map (contrib es k)) =
      mergeProfiles (psum ((l.filterMap fun | .file e => some e | .folder _ => none).map (·.profile)))
        (psum ((namesOf l).map fun n => sumUnder es (childKey k n))) := by
  induction l with
  | nil => simp [psum, namesOf, merge_zero]
  | cons x t ih =>
    cases x with
    | file e =>
      simp only [List.map_cons, psum, ih, contrib, List.filterMap_cons, namesOf]
      rw [merge_assoc]
    | folder n =>
      simp only [List.map_cons, psum, ih, contrib, List.filterMap_cons, namesOf]
      rw [← merge_assoc, merge_comm (sumUnder es (childKey k n)), merge_assoc]

/-- the contract of a call `aggregate_folder(c)` -/
def AggSpec (es : List FileEntry) (T0 : Tree) (recurse : Str → Tree → Except Err (Tree × Profile))
    (c : Str) : Prop :=
  ∀ T, Shape T = Shape T0 →
    (∀ k', under c k' = true → ∀ p, profileAt T k' = some p → p = Profile.zero) →
    ∃ T', recurse c T = .ok (T', sumUnder es c) ∧ Shape T' = Shape T0 ∧
      ∀ k', profileAt T' k' =
        if under c k' = true then (profileAt T k').map (fun _ => sumUnder es k') else profileAt T k'

/-- the profiles while the entries `done` of the folder `k` have been processed -/
def St (es : List FileEntry) (k : Str) (Tin : Tree) (done : List Entry) (k' : Str) : Option Profile :=
  if k' = k then (profileAt Tin k).map (fun _ => psum (done.map (contrib es k)))
  else if (namesOf done).any (fun n => under (childKey k n) k') = true
    then (profileAt Tin k').map (fun _ => sumUnder es k')
    else profileAt Tin k'

end CL.Codebase

namespace CL.Codebase

theorem namesOf_append (a b : List Entry) : namesOf (a ++ b) = namesOf a ++ namesOf b := by
  simp [namesOf, List.filterMap_append]

theorem St_self (es : List FileEntry) (k : Str) (Tin : Tree) (done : List Entry) :
    St es k Tin done k = (profileAt Tin k).map (fun _ => psum (done.map (contrib es k))) := by
  simp [St]

theorem St_map_const (es : List FileEntry) (k : Str) (Tin : Tree) (done : List Entry) {k' : Str}
    (h : k' ≠ k) (x : Profile) :
    (St es k Tin done k').map (fun _ => x) = (profileAt Tin k').map (fun _ => x) := by
  unfold St
  rw [if_neg h]
  split <;> simp [Option.map_map, Function.comp_def]

section
variable {es : List FileEntry} {T0 : Tree}

theorem aggregateEntries_spec (hB : BuiltTree es T0) {k : Str} {f0 : Folder} (hf0 : dget? k T0 = some f0)
    (recurse : Str → Tree → Except Err (Tree × Profile))
    (hrec : ∀ n ∈ folderNames f0, AggSpec es T0 recurse (childKey k n))
    (Tin : Tree) (hTin : Shape Tin = Shape T0)
    (hzero : ∀ k', under k k' = true → ∀ p, profileAt Tin k' = some p → p = Profile.zero) :
    ∀ (rest done : List Entry) (T : Tree), done ++ rest = f0.entries → Shape T = Shape T0 →
      (∀ k', profileAt T k' = St es k Tin done k') →
      ∃ T', aggregateEntries recurse k rest T = .ok T' ∧ Shape T' = Shape T0 ∧
        ∀ k', profileAt T' k' = St es k Tin f0.entries k' := by
  intro rest
  induction rest with
  | nil =>
    intro done T hd hS hP
    simp only [List.append_nil] at hd
    subst hd
    exact ⟨T, rfl, hS, hP⟩
  | cons x rest ih =>
    intro done T hd hS hP
    obtain ⟨f, hf, _⟩ := folder_of_shape hS hf0
    obtain ⟨fin, hfin, _⟩ := folder_of_shape hTin hf0
    have hold : f.profile = psum (done.map (contrib es k)) := by
      have := hP k
      rw [St_self] at this
      simpa [profileAt, hf, hfin] using this
    have hd' : (done ++ [x]) ++ rest = f0.entries := by rw [← hd]; simp
    cases x with
    | folder n =>
      have hnames : folderNames f0 = namesOf done ++ n :: namesOf rest := by
        rw [folderNames_eq, ← hd, namesOf_append]; rfl
      have hn : n ∈ folderNames f0 := by rw [hnames]; simp
      obtain ⟨hchild, hhas, hname⟩ := names_children hB hf0 hn
      have hnd : (folderNames f0).Nodup := (hB.j.names k f0 hf0).1
      have hfresh : ∀ k', under (childKey k n) k' = true →
          (namesOf done).any (fun n' => under (childKey k n') k') = false := by
        intro k' hu
        cases hany : (namesOf done).any (fun n' => under (childKey k n') k') with
        | false => rfl
        | true =>
          exfalso
          obtain ⟨n', hn', hu'⟩ := List.any_eq_true.mp hany
          have hn'f : n' ∈ folderNames f0 := by rw [hnames]; simp [hn']
          obtain ⟨hchild', _, hname'⟩ := names_children hB hf0 hn'f
          have heq := hchild'.unique hchild hu' hu
          have : n' = n := by rw [← hname', heq, hname]
          subst this
          rw [hnames, List.nodup_append] at hnd
          exact hnd.2.2 n' hn' n' (by simp) rfl
      have hpre : ∀ k', under (childKey k n) k' = true → ∀ p, profileAt T k' = some p → p = Profile.zero := by
        intro k' hu p hp
        have hk : k' ≠ k := by
          rintro rfl
          rw [hchild.not_under] at hu; cases hu
        rw [hP k'] at hp
        unfold St at hp
        rw [if_neg hk, hfresh k' hu] at hp
        exact hzero k' (hchild.under_trans hu) p (by simpa using hp)
      obtain ⟨T1, e1, hS1, hP1⟩ := hrec n hn T hS hpre
      have hP' : ∀ k', profileAt (setProfile k (mergeProfiles f.profile (sumUnder es (childKey k n))) T1) k' =
          St es k Tin (done ++ [Entry.folder n]) k' := by
        intro k'
        rw [profileAt_setProfile]
        by_cases hk : k' = k
        · subst hk
          rw [if_pos rfl, hP1, hchild.not_under, St_self]
          simp only [Bool.false_eq_true, if_false]
          rw [hP, St_self, Option.map_map]
          simp [psum_append, psum_singleton, contrib, hold, Function.comp_def]
        · rw [if_neg hk, hP1]
          cases hu : under (childKey k n) k' with
          | true =>
            simp only [if_true]
            rw [hP, St_map_const _ _ _ _ hk]
            unfold St
            rw [if_neg hk, namesOf_append]
            simp [namesOf, hu]
          | false =>
            simp only [Bool.false_eq_true, if_false]
            rw [hP]
            unfold St
            rw [if_neg hk, if_neg hk, namesOf_append]
            simp [namesOf, hu]
      obtain ⟨T', e', hS', hPf⟩ := ih (done ++ [Entry.folder n]) _ hd'
        ((shape_setProfile _ _ _).trans hS1) hP'
      refine ⟨T', ?_, hS', hPf⟩
      unfold childKey at e1
      simp only [aggregateEntries, dgetE_ok hf, bind, Except.bind, e1]
      exact e'
    | file e =>
      have hP' : ∀ k', profileAt (setProfile k (mergeProfiles f.profile e.profile) T) k' =
          St es k Tin (done ++ [Entry.file e]) k' := by
        intro k'
        rw [profileAt_setProfile]
        by_cases hk : k' = k
        · subst hk
          rw [if_pos rfl, hP, St_self, St_self, Option.map_map]
          simp [psum_append, psum_singleton, contrib, hold, Function.comp_def]
        · rw [if_neg hk, hP]
          unfold St
          rw [if_neg hk, if_neg hk, namesOf_append]
          simp [namesOf]
      obtain ⟨T', e', hS', hPf⟩ := ih (done ++ [Entry.file e]) _ hd'
        ((shape_setProfile _ _ _).trans hS) hP'
      refine ⟨T', ?_, hS', hPf⟩
      simp only [aggregateEntries, dgetE_ok hf, bind, Except.bind]
      exact e'

end

end CL.Codebase

namespace CL.Codebase

theorem filter_length_lt {α : Type} (l : List α) (P Q : α → Bool) (hPQ : ∀ x, P x = true → Q x = true)
    (c : α) (hc : c ∈ l) (hQ : Q c = true) (hP : P c = false) :
    (l.filter P).length + 1 ≤ (l.filter Q).length := by
  induction l with
  | nil => cases hc
  | cons a t ih =>
    have hmono : (t.filter P).length ≤ (t.filter Q).length := by
      clear ih hc
      induction t with
      | nil => simp
      | cons b s ih2 =>
        simp only [List.filter_cons]
        cases hb : P b with
        | true => simp [hPQ b hb]; exact ih2
        | false =>
          cases Q b <;> simp <;> omega
    simp only [List.filter_cons]
    rcases List.mem_cons.mp hc with rfl | hc'
    · simp [hQ, hP]; exact hmono
    · have := ih hc'
      cases ha : P a with
      | true => simp [hPQ a ha]; exact this
      | false => cases Q a <;> simp <;> omega

/-- number of folders strictly beneath the folder `k` -/
def descCount (T0 : Tree) (k : Str) : Nat :=
  ((T0.map Prod.fst).filter fun k' => under k k' && k' != k).length

theorem descCount_le (T0 : Tree) (k : Str) : descCount T0 k ≤ T0.length := by
  unfold descCount
  have := List.length_filter_le (fun k' => under k k' && k' != k) (T0.map Prod.fst)
  simpa using this

theorem descCount_child {T0 : Tree} {k c : Str} (hc : IsChild k c) (hh : dhas c T0 = true) :
    descCount T0 c + 1 ≤ descCount T0 k := by
  unfold descCount
  apply filter_length_lt _ _ _ _ c (mem_keys_iff.mpr hh)
  · have : under c c = true := under_iff.mpr (Or.inr List.prefix_rfl)
    simp [hc.under_trans this, hc.ne]
  · simp
  · intro x hx
    simp only [Bool.and_eq_true, bne_iff_ne, ne_eq] at hx ⊢
    refine ⟨hc.under_trans hx.1, ?_⟩
    rintro rfl
    rw [hc.not_under] at hx
    exact absurd hx.1 (by simp)

section
variable {es : List FileEntry} {T0 : Tree}

/-- a folder strictly beneath `k` lies beneath (or is) one of the sub-folder entries of `k` -/
theorem key_place (hB : BuiltTree es T0)
    {k : Str} {f0 : Folder} (hf0 : dget? k T0 = some f0) {k' : Str} (hh : dhas k' T0 = true)
    (hne : k' ≠ k) (hu : under k k' = true) :
    ∃ n ∈ folderNames f0, under (childKey k n) k' = true := by
  have hk := key_like hB hf0
  have hg' : GoodNR k' := by
    rcases hB.j.good k' hh with rfl | h
    · exfalso
      rcases hk with rfl | hk
      · exact hne rfl
      · rcases under_iff.mp hu with h | h
        · exact hk.ne_root h
        · exact goodNR_not_prefix_root hk h
    · exact h
  have hkey := (hB.keys k').mp hh
  obtain ⟨e, he, hpe⟩ := hkey.resolve_left hg'.ne_root
  have ek := hg'.eq_concat
  generalize k'.dropLast = F at ek
  subst ek
  have huF : under k F = true := by rw [← under_key_iff hk hne]; exact hu
  have hFadm : ¬ rootKey <+: F := fun h => hg'.2 (h.trans (List.prefix_append _ _))
  rcases next_dir hk hFadm huF with hd | ⟨c, hc, hp⟩
  · have hchild : IsChild k (F ++ [sl]) := ⟨hg', by simpa [parentKeyOf] using hd⟩
    obtain ⟨hn, hck⟩ := children_names hB hf0 hchild hh
    exact ⟨_, hn, by rw [hck]; exact under_iff.mpr (Or.inr List.prefix_rfl)⟩
  · have hpre : F <+: e.path := (List.prefix_append F [sl]).trans hpe.1
    have hhc : dhas c T0 = true := (hB.keys c).mpr (Or.inr ⟨e, he, hp.trans hpre⟩)
    obtain ⟨hn, hck⟩ := children_names hB hf0 hc hhc
    exact ⟨_, hn, by rw [hck]; exact under_iff.mpr (Or.inr (hp.1.trans (List.prefix_append _ _)))⟩

theorem aggregateFolder_spec (hB : BuiltTree es T0) (hadm : ∀ e ∈ es, admissible e.path = true) :
    ∀ (fuel : Nat) (k : Str), dhas k T0 = true → descCount T0 k < fuel →
      AggSpec es T0 (aggregateFolder fuel) k := by
  intro fuel
  induction fuel with
  | zero => intro k _ h; omega
  | succ fuel ih =>
    intro k hk hcount T hS hzero
    obtain ⟨f0, hf0⟩ := dhas_iff.mp hk
    obtain ⟨f, hf, hent⟩ := folder_of_shape hS hf0
    have hrec : ∀ n ∈ folderNames f0, AggSpec es T0 (aggregateFolder fuel) (childKey k n) := by
      intro n hn
      obtain ⟨hchild, hhas, _⟩ := names_children hB hf0 hn
      have := descCount_child hchild hhas
      exact ih _ hhas (by omega)
    have hkk : under k k = true := under_iff.mpr (Or.inr List.prefix_rfl)
    have hfz : f.profile = Profile.zero := hzero k hkk f.profile (by simp [profileAt, hf])
    have hP0 : ∀ k', profileAt T k' = St es k T [] k' := by
      intro k'
      unfold St
      by_cases h : k' = k
      · subst h; simp [profileAt, hf, hfz, psum]
      · simp [h, namesOf]
    obtain ⟨T', e', hS', hP'⟩ := aggregateEntries_spec hB hf0 (aggregateFolder fuel) hrec T hS hzero
      f0.entries [] T (by simp) hS hP0
    obtain ⟨f', hf', _⟩ := folder_of_shape hS' hf0
    have hsum : psum (f0.entries.map (contrib es k)) = sumUnder es k := by
      rw [psum_contrib_split, sum_decomp hB hadm hf0]; rfl
    have hfp : f'.profile = sumUnder es k := by
      have := hP' k
      rw [St_self, hsum] at this
      simpa [profileAt, hf, hf'] using this
    refine ⟨T', ?_, hS', ?_⟩
    · simp only [aggregateFolder, dgetE_ok hf, bind, Except.bind, hent, e', dgetE_ok hf', pure,
        Except.pure, hfp]
    · intro k'
      rw [hP']
      by_cases h : k' = k
      · subst h; rw [St_self, hsum, hkk]; simp
      · unfold St
        rw [if_neg h]
        cases hany : (namesOf f0.entries).any (fun n => under (childKey k n) k') with
        | true =>
          obtain ⟨n, hn, hun⟩ := List.any_eq_true.mp hany
          have := (names_children hB hf0 (n := n) hn).1.under_trans hun
          simp [this]
        | false =>
          simp only [Bool.false_eq_true, if_false]
          cases hu : under k k' with
          | false => simp
          | true =>
            simp only [if_true]
            cases hp : profileAt T k' with
            | none => rfl
            | some p =>
              exfalso
              have hh : dhas k' T0 = true := by
                have h1 : dhas k' T = true := by
                  cases hd : dget? k' T with
                  | none => simp [profileAt, hd] at hp
                  | some g => exact dhas_iff.mpr ⟨g, hd⟩
                have := keys_of_shape hS
                exact mem_keys_iff.mp (this ▸ mem_keys_iff.mpr h1)
              obtain ⟨n, hn, hun⟩ := key_place hB hf0 hh h hu
              have : (namesOf f0.entries).any (fun n => under (childKey k n) k') = true :=
                List.any_eq_true.mpr ⟨n, hn, hun⟩
              rw [this] at hany; cases hany

/-- `aggregate` on a freshly built tree: no error, same keys and entries, every folder's
profile is the sum beneath it -/
theorem aggregate_spec (hB : BuiltTree es T0) (hadm : ∀ e ∈ es, admissible e.path = true)
    (files : List (Str × FileEntry)) (totals : Totals) :
    ∃ T', Codebase.aggregate ⟨T0, files, totals⟩ = .ok ⟨T', files, totals⟩ ∧ Shape T' = Shape T0 ∧
      ∀ k f, dget? k T' = some f → f.profile = sumUnder es k := by
  have hspec := aggregateFolder_spec hB hadm (T0.length + 1) rootKey hB.j.root
    (by have := descCount_le T0 rootKey; omega)
  obtain ⟨T', e', hS', hP'⟩ := hspec T0 rfl (by
    intro k' _ p hp
    cases hd : dget? k' T0 with
    | none => simp [profileAt, hd] at hp
    | some g =>
      have := hB.j.zero k' g hd
      simp [profileAt, hd] at hp
      rw [← hp, this])
  refine ⟨T', ?_, hS', ?_⟩
  · simp only [Codebase.aggregate, bind, Except.bind, e', pure, Except.pure]
  · intro k f hf
    have := hP' k
    have hr : under rootKey k = true := by simp [under]
    rw [hr] at this
    simp only [profileAt, hf, Option.map_some, if_true] at this
    cases hd : dget? k T0 with
    | none => simp [hd] at this
    | some g => simpa [hd] using this

end

end CL.Codebase
