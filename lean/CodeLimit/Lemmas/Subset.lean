import CodeLimit.Lemmas.SubsetSem
import CodeLimit.Lemmas.SubsetInv
import CodeLimit.Lemmas.SubsetTerm
import CodeLimit.Lemmas.DfaRun
import CodeLimit.Lemmas.Consume
import CodeLimit.Lemmas.MatchRun
/-!
# The subset construction: termination and partial correctness (umbrella file)

* `SubsetSem`  - `mem_startSet_iff`, `mem_delta_iff`, `mem_transitions`, `Represents`
* `SubsetInv`  - worklist invariant, `nfaToDfa_good`
* `SubsetTerm` - `nfaToDfa_terminates`
* `DfaRun`     - `dfaRun`, `dfaRun_some`, `dfaRun_none_iff`, `isAcc_iff`, `row_nodup`
* `Consume`    - `consume_id`
* `MatchRun`   - `matchM_eq`, `startsWithM_some_iff`, `startsWithM_none_iff`, `accRun_start_iff`
-/
