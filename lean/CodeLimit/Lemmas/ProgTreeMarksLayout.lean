import CodeLimit.Lemmas.LayoutScan
/-!
# Canonical layouts with suppressed functions (stage A of C01 combined with C17)

`build_scopes` computes the scopes of ALL functions, drops the marked ones and only then folds and
counts.  All clauses of `LayoutCore` are statements about every function of the list, hence they
survive the removal of functions (`layoutCore_sublist`): the unmarked functions form a layout of
their own, over the same tokens and the same blocks, and `scan_file` reports what the specification
expects for THAT layout (`scan_layout_marked`, `scan_layout_marked_flat`).
-/
namespace CL.Marks

theorem fnLayout_sublist {fns fns' : List Fn} {blocks : List Range} (h : FnLayout fns blocks)
    (hs : fns'.Sublist fns) : FnLayout fns' blocks :=
  ⟨h.fns_sorted.sublist hs,
   fun f hf => h.hdr_ok f (hs.subset hf),
   fun f hf => h.body_mem f (hs.subset hf),
   fun f hf => h.body_first f (hs.subset hf),
   fun f hf => h.block_vs_fn f (hs.subset hf),
   fun f hf g hg => h.hdrs_laminar f (hs.subset hf) g (hs.subset hg),
   fun f hf g hg => h.hdr_outside_gap f (hs.subset hf) g (hs.subset hg),
   fun f hf g hg => h.bodies_distinct f (hs.subset hf) g (hs.subset hg)⟩

/-- a layout stays a layout when functions are removed from the list (the blocks stay) -/
theorem layoutCore_sublist {code : List Tok} {fns fns' : List Fn} {blocks : List Range}
    (h : LayoutCore code fns blocks) (hs : fns'.Sublist fns) : LayoutCore code fns' blocks :=
  ⟨fnLayout_sublist h.toFnLayout hs, h.pos_sorted, h.blocks_ok, h.blocks_sorted, h.laminar⟩

theorem layout_sublist {code : List Tok} {fns fns' : List Fn} {blocks : List Range}
    (h : Layout code fns blocks) (hs : fns'.Sublist fns) : Layout code fns' blocks :=
  ⟨layoutCore_sublist h.toLayoutCore hs, fun f hf => h.no_adjacent f (hs.subset hf)⟩

/-- the unmarked functions of a list -/
def unmarkedFns (all : List Tok) (fns : List Fn) : List Fn :=
  fns.filter (fun f => decide (¬ Marked all f.hdr.name.line))

theorem filterNocl_fns (all : List Tok) (fns : List Fn) :
    filterNocl (fns.map Fn.toScope) (noclTokens all) = (unmarkedFns all fns).map Fn.toScope := by
  rw [filterNocl_eq_filter, unmarkedFns, List.filter_map]
  rfl

/-- **`scan_file` on a canonical layout with marked functions, languages with nested functions**:
the report is the expected report of the layout formed by the UNMARKED functions alone. -/
theorem scan_layout_marked {L : Language} {all code : List Tok} {fns : List Fn}
    {blocks : List Range} (hcode : filterTokens false all = code) (hpy : L.python = false)
    (hnest : L.nested = true) {hs : List Header} (hh : extractHeaders L code = .ok hs)
    (hperm : hs.Perm (fns.map (·.hdr)))
    (hb : getBlocks code = .ok blocks) (hL : Layout code fns blocks) :
    ∃ ms, scanFile L all = .ok ms ∧
      ms.map some = (unmarkedFns all fns).map (expected code (unmarkedFns all fns)) := by
  have hL' : LayoutCore code (unmarkedFns all fns) blocks :=
    layoutCore_sublist hL.toLayoutCore List.filter_sublist
  obtain ⟨ms, h1, h2⟩ := measureAll_layout hL' (unmarkedFns all fns) (fun _ h => h)
  refine ⟨ms, ?_, h2⟩
  unfold scanFile
  rw [buildScopes_eq, hcode, rawScopes_layout hpy hh hperm hb hL]
  simp only [Except.map, filterNocl_fns]
  unfold arrange
  rw [if_pos hnest, withChildren_layout hL'.nested]
  exact h1

/-- **the same for languages without nested functions**: the report lists the unmarked functions
that are not nested in another UNMARKED function, each with all its lines. -/
theorem scan_layout_marked_flat {L : Language} {all code : List Tok} {fns : List Fn}
    {blocks : List Range} (hcode : filterTokens false all = code) (hpy : L.python = false)
    (hnest : L.nested = false) {hs : List Header} (hh : extractHeaders L code = .ok hs)
    (hperm : hs.Perm (fns.map (·.hdr)))
    (hb : getBlocks code = .ok blocks) (hL : Layout code fns blocks) :
    ∃ ms, scanFile L all = .ok ms ∧
      ms.map some = (topLevel (unmarkedFns all fns)).map (expectedFlat code) := by
  have hL' : LayoutCore code (unmarkedFns all fns) blocks :=
    layoutCore_sublist hL.toLayoutCore List.filter_sublist
  obtain ⟨ms, h1, h2⟩ := measureAll_layout_flat hL' (topLevel (unmarkedFns all fns))
    (fun f hf => (List.mem_filter.mp hf).1)
  refine ⟨ms, ?_, h2⟩
  unfold scanFile
  rw [buildScopes_eq, hcode, rawScopes_layout hpy hh hperm hb hL]
  simp only [Except.map, filterNocl_fns]
  unfold arrange
  simp only [hnest, Bool.false_eq_true, if_false]
  rw [filterNested_layout hL'.nested, List.map_map]
  exact h1

end CL.Marks
