import CodeLimit.Lemmas.Closure
import CodeLimit.Lemmas.NfaWF
/-!
# Semantics of the building blocks of the subset construction

`move`, `transitions`, `delta`, `startSet` in terms of `Path`; the reachable-set
characterisation `Represents N T u` ("`T` is the set of states reachable on `u`").
-/
namespace CL

variable {α : Type}

/-! ## paths -/

theorem Path.split {E : List (Edge α)} {p r : Nat} {u v : List α} :
    Path E p (u ++ v) r → ∃ q, Path E p u q ∧ Path E q v r := by
  intro h
  generalize hw : u ++ v = w at h
  induction h generalizing u with
  | nil q =>
    have hu : u = [] := (List.append_eq_nil_iff.1 hw).1
    have hv : v = [] := (List.append_eq_nil_iff.1 hw).2
    subst hu hv
    exact ⟨q, .nil q, .nil q⟩
  | eps he _ ih =>
    obtain ⟨q, h1, h2⟩ := ih hw
    exact ⟨q, .eps he h1, h2⟩
  | @sym p q r a w he hp ih =>
    cases u with
    | nil =>
      simp only [List.nil_append] at hw
      subst hw
      exact ⟨p, .nil p, .sym he hp⟩
    | cons b u' =>
      simp only [List.cons_append, List.cons.injEq] at hw
      obtain ⟨hb, hw'⟩ := hw
      subst hb
      obtain ⟨q', h1, h2⟩ := ih hw'
      exact ⟨q', .sym he h1, h2⟩

theorem Path.single {E : List (Edge α)} {m r : Nat} {a : α} :
    Path E m [a] r → ∃ p p', EpsReach E m p ∧ Edge.sym p a p' ∈ E ∧ EpsReach E p' r := by
  intro h
  generalize hw : [a] = w at h
  induction h with
  | nil q => cases hw
  | eps he _ ih =>
    obtain ⟨p, p', h1, h2, h3⟩ := ih hw
    exact ⟨p, p', .eps he h1, h2, h3⟩
  | @sym p q r b w he hp _ =>
    simp only [List.cons.injEq] at hw
    obtain ⟨hb, hw'⟩ := hw
    subst hb; subst hw'
    exact ⟨p, q, .nil p, he, hp⟩

theorem Path.snoc_iff {E : List (Edge α)} {s r : Nat} {u : List α} {a : α} :
    Path E s (u ++ [a]) r ↔
      ∃ p p', Path E s u p ∧ Edge.sym p a p' ∈ E ∧ EpsReach E p' r := by
  constructor
  · intro h
    obtain ⟨m, h1, h2⟩ := Path.split h
    obtain ⟨p, p', h3, h4, h5⟩ := Path.single h2
    refine ⟨p, p', ?_, h4, h5⟩
    have := Path.trans h1 h3
    simpa using this
  · rintro ⟨p, p', h1, h2, h3⟩
    exact Path.trans h1 (.sym h2 h3)

/-- the endpoint of a path is its origin (and the word is empty) or the target of an edge -/
theorem Path.end_cases {E : List (Edge α)} {p q : Nat} {w : List α} :
    Path E p w q → (q = p ∧ w = []) ∨ ∃ e ∈ E, e.dst = q := by
  intro h
  induction h with
  | nil q => exact .inl ⟨rfl, rfl⟩
  | eps he _ ih =>
    rcases ih with ⟨h1, _⟩ | h
    · exact .inr ⟨_, he, by simp [Edge.dst, h1]⟩
    · exact .inr h
  | sym he _ ih =>
    rcases ih with ⟨h1, _⟩ | h
    · exact .inr ⟨_, he, by simp [Edge.dst, h1]⟩
    · exact .inr h

theorem Path.lt_next {N : Nfa α} (hN : N.WF) {p q : Nat} {w : List α}
    (h : Path N.edges p w q) (hp : p < N.next) : q < N.next := by
  rcases h.end_cases with ⟨h1, _⟩ | ⟨e, he, h1⟩
  · omega
  · have := hN.dst_lt e he
    omega

/-! ## `eraseDups` -/

theorem nodup_eraseDups_aux {β : Type} [BEq β] [LawfulBEq β] (n : Nat) :
    ∀ l : List β, l.length ≤ n → l.eraseDups.Nodup := by
  induction n with
  | zero =>
    intro l hl
    have : l = [] := List.eq_nil_of_length_eq_zero (by omega)
    subst this
    simp
  | succ n ih =>
    intro l hl
    cases l with
    | nil => simp
    | cons a as =>
      rw [List.eraseDups_cons, List.nodup_cons]
      constructor
      · intro hmem
        rw [List.mem_eraseDups, List.mem_filter] at hmem
        simp at hmem
      · apply ih
        have := List.length_filter_le (fun b => !b == a) as
        simp only [List.length_cons] at hl
        omega

theorem nodup_eraseDups {β : Type} [BEq β] [LawfulBEq β] (l : List β) : l.eraseDups.Nodup :=
  nodup_eraseDups_aux l.length l (Nat.le_refl _)

variable [DecidableEq α]

/-! ## `move`, `transitions` -/

theorem mem_move (E : List (Edge α)) (T : List Nat) (a : α) (r : Nat) :
    r ∈ move E T a ↔ ∃ p, p ∈ T ∧ Edge.sym p a r ∈ E := by
  unfold move
  simp only [List.mem_flatMap, List.mem_filterMap]
  constructor
  · rintro ⟨p, hp, ⟨b, r'⟩, hbr, h⟩
    simp only at h
    split at h
    · rename_i hb
      cases h
      subst hb
      exact ⟨p, hp, (mem_symOut E p b r).1 hbr⟩
    · cases h
  · rintro ⟨p, hp, h⟩
    exact ⟨p, hp, (a, r), (mem_symOut E p a r).2 h, by simp⟩

theorem mem_transitions (E : List (Edge α)) (T : List Nat) (a : α) :
    a ∈ transitions E T ↔ ∃ p, p ∈ T ∧ ∃ r, Edge.sym p a r ∈ E := by
  unfold transitions
  rw [List.mem_eraseDups]
  simp only [List.mem_flatMap, List.mem_map]
  constructor
  · rintro ⟨p, hp, ⟨b, r⟩, hbr, h⟩
    simp only at h
    subst h
    exact ⟨p, hp, r, (mem_symOut E p b r).1 hbr⟩
  · rintro ⟨p, hp, r, h⟩
    exact ⟨p, hp, (a, r), (mem_symOut E p a r).2 h, rfl⟩

theorem nodup_transitions (E : List (Edge α)) (T : List Nat) : (transitions E T).Nodup :=
  nodup_eraseDups _

theorem transitions_nil (E : List (Edge α)) : transitions E [] = [] := by
  simp [transitions]

/-! ## `startSet`, `delta` -/

omit [DecidableEq α] in
theorem mem_startSet_iff (N : Nfa α) (q : Nat) :
    q ∈ startSet N ↔ q < N.next ∧ EpsReach N.edges N.start q := by
  unfold startSet
  rw [mem_canon_iff, mem_closure_iff]
  simp

theorem mem_delta_iff_lt (N : Nfa α) (T : List Nat) (a : α) (q : Nat) :
    q ∈ delta N T a ↔
      q < N.next ∧ ∃ p, p ∈ T ∧ ∃ p', Edge.sym p a p' ∈ N.edges ∧ EpsReach N.edges p' q := by
  unfold delta
  rw [mem_canon_iff, mem_closure_iff]
  simp only [mem_move]
  constructor
  · rintro ⟨hq, p', ⟨p, hp, he⟩, hr⟩
    exact ⟨hq, p, hp, p', he, hr⟩
  · rintro ⟨hq, p, hp, p', he, hr⟩
    exact ⟨hq, p', ⟨p, hp, he⟩, hr⟩

/-- the requested form: for a well-formed NFA all ids are `< next`, so the bound is implied -/
theorem mem_delta_iff {N : Nfa α} (hN : N.WF) (T : List Nat) (a : α) (q : Nat) :
    q ∈ delta N T a ↔
      ∃ p, p ∈ T ∧ ∃ p', Edge.sym p a p' ∈ N.edges ∧ EpsReach N.edges p' q := by
  rw [mem_delta_iff_lt]
  constructor
  · exact fun h => h.2
  · rintro ⟨p, hp, p', he, hr⟩
    refine ⟨?_, p, hp, p', he, hr⟩
    exact hr.lt_next hN (hN.dst_lt _ he)

omit [DecidableEq α] in
theorem start_mem_startSet {N : Nfa α} (hN : N.WF) : N.start ∈ startSet N :=
  (mem_startSet_iff N N.start).2 ⟨hN.start_lt, .nil _⟩

theorem start_not_mem_delta {N : Nfa α} (hN : N.WF) (T : List Nat) (a : α) :
    N.start ∉ delta N T a := by
  intro h
  obtain ⟨_, p, _, p', he, hr⟩ := (mem_delta_iff_lt N T a N.start).1 h
  rcases hr.end_cases with ⟨h1, _⟩ | ⟨e, he', h1⟩
  · exact hN.no_in_start _ he (by simp [Edge.dst, h1])
  · exact hN.no_in_start e he' h1

theorem delta_ne_startSet {N : Nfa α} (hN : N.WF) (T : List Nat) (a : α) :
    delta N T a ≠ startSet N := by
  intro h
  exact start_not_mem_delta hN T a (h ▸ start_mem_startSet hN)

theorem delta_nonempty {N : Nfa α} (hN : N.WF) {T : List Nat} {a : α}
    (ha : a ∈ transitions N.edges T) : ∃ q, q ∈ delta N T a := by
  obtain ⟨p, hp, r, he⟩ := (mem_transitions N.edges T a).1 ha
  exact ⟨r, (mem_delta_iff hN T a r).2 ⟨p, hp, r, he, .nil r⟩⟩

/-! ## reachable sets -/

/-- `T` is (a listing of) the set of NFA states reachable from the start state on `u` -/
def Represents (N : Nfa α) (T : List Nat) (u : List α) : Prop :=
  ∀ q, q ∈ T ↔ q < N.next ∧ Path N.edges N.start u q

omit [DecidableEq α] in
theorem represents_startSet (N : Nfa α) : Represents N (startSet N) [] :=
  fun q => mem_startSet_iff N q

theorem represents_delta {N : Nfa α} (hN : N.WF) {T : List Nat} {u : List α} (a : α)
    (hT : Represents N T u) : Represents N (delta N T a) (u ++ [a]) := by
  intro q
  rw [mem_delta_iff_lt, Path.snoc_iff]
  constructor
  · rintro ⟨hq, p, hp, p', he, hr⟩
    exact ⟨hq, p, p', ((hT p).1 hp).2, he, hr⟩
  · rintro ⟨hq, p, p', hp, he, hr⟩
    exact ⟨hq, p, (hT p).2 ⟨hN.src_lt _ he, hp⟩, p', he, hr⟩

/-- the letter `a` is enabled in `T` iff some state is reachable on `u ++ [a]` -/
theorem mem_transitions_iff_path {N : Nfa α} (hN : N.WF) {T : List Nat} {u : List α} (a : α)
    (hT : Represents N T u) :
    a ∈ transitions N.edges T ↔ ∃ q, Path N.edges N.start (u ++ [a]) q := by
  rw [mem_transitions]
  constructor
  · rintro ⟨p, hp, r, he⟩
    exact ⟨r, Path.snoc_iff.2 ⟨p, r, ((hT p).1 hp).2, he, .nil r⟩⟩
  · rintro ⟨q, hq⟩
    obtain ⟨p, p', hp, he, _⟩ := Path.snoc_iff.1 hq
    exact ⟨p, (hT p).2 ⟨hN.src_lt _ he, hp⟩, p', he⟩

end CL
