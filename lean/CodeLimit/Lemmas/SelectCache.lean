import CodeLimit.Lemmas.SelectScan
import CodeLimit.Model.SelectCache
/-!
# `scan_path(path, cached_report)` = treating the selected files one after the other, each either
taken from the cache or analysed

The cached counterpart of `Lemmas/SelectScan.lean`: `scanPathCached` on a well-formed tree is a
sequential run (`runSelC`) over the SAME selection as `scanPath`; per file the entry is `entryC`
(the cached entry under the file's printed path if its checksum matches, else the analysis).
-/
namespace CL.Sel

/-! ## the dictionary lookup and the cache test -/

theorem dictGet_mem {β : Type} {d : List (Str × β)} {k : Str} {v : β} (h : dictGet d k = some v) :
    (k, v) ∈ d := by
  unfold dictGet at h
  cases hf : d.find? (fun kv => kv.1 == k) with
  | none => simp [hf] at h
  | some kv =>
    simp only [hf, Option.map_some, Option.some.injEq] at h
    have hm := List.mem_of_find?_eq_some hf
    have hk := List.find?_some hf
    simp only [beq_iff_eq] at hk
    obtain ⟨k', v'⟩ := kv
    simp only at hk h
    subst hk; subst h
    exact hm

theorem dictGet_eq_none {β : Type} {d : List (Str × β)} {k : Str} :
    dictGet d k = none ↔ k ∉ d.map (·.1) := by
  unfold dictGet
  simp only [Option.map_eq_none_iff, List.find?_eq_none, beq_iff_eq, List.mem_map, not_exists, not_and]

theorem dictGet_of_mem_nodup {β : Type} : ∀ {d : List (Str × β)} {k : Str} {v : β},
    (d.map (·.1)).Nodup → (k, v) ∈ d → dictGet d k = some v
  | [], _, _, _, h => by cases h
  | (k', v') :: r, k, v, hnd, h => by
    simp only [List.map_cons, List.nodup_cons] at hnd
    rcases List.mem_cons.1 h with e | hm
    · cases e
      simp [dictGet]
    · have hne : k' ≠ k := by
        rintro rfl
        exact hnd.1 (List.mem_map.2 ⟨_, hm, rfl⟩)
      have ih := dictGet_of_mem_nodup hnd.2 hm
      simp only [dictGet] at ih ⊢
      rw [List.find?_cons_of_neg (by simpa using hne)]
      exact ih

theorem cacheHit_none (k h : Str) : cacheHit none k h = none := rfl

theorem cacheHit_nil (k h : Str) : cacheHit (some []) k h = none := rfl

/-- **what a cache hit is**: there is a cached report, its `codebase.files` has an entry under the
very path string, and the checksum of that entry is the file's -/
theorem cacheHit_eq_some {cached : Option CachedFiles} {k h : Str} {ce : FileEntry} :
    cacheHit cached k h = some ce ↔
      ∃ files, cached = some files ∧ dictGet files k = some ce ∧ ce.checksum = h := by
  cases cached with
  | none => simp [cacheHit]
  | some files =>
    simp only [cacheHit, Option.some.injEq, exists_eq_left']
    cases hg : dictGet files k with
    | none => simp
    | some ce' =>
      by_cases hc : ce'.checksum = h
      · simp only [hc, if_true, Option.some.injEq]
        constructor
        · rintro rfl; exact ⟨rfl, hc⟩
        · rintro ⟨rfl, _⟩; rfl
      · simp only [hc, if_false, Option.some.injEq, reduceCtorEq, false_iff]
        rintro ⟨rfl, h'⟩
        exact hc h'

theorem cacheHit_eq_none {cached : Option CachedFiles} {k h : Str} :
    cacheHit cached k h = none ↔
      ∀ files ce, cached = some files → dictGet files k = some ce → ce.checksum ≠ h := by
  constructor
  · intro hn files ce hc hg he
    have := cacheHit_eq_some.2 ⟨files, hc, hg, he⟩
    rw [hn] at this
    cases this
  · intro hall
    cases hh : cacheHit cached k h with
    | none => rfl
    | some ce =>
      obtain ⟨files, hc, hg, he⟩ := cacheHit_eq_some.1 hh
      exact absurd he (hall files ce hc hg)

/-! ## without a cache the function is the one of `Model/Select.lean` -/

theorem scanFileC_none (O : Oracles) : scanFileC O none = scanFile O := by
  funext rel lang content st
  rfl

theorem scanFileC_nil (O : Oracles) : scanFileC O (some []) = scanFile O := by
  funext rel lang content st
  rfl

theorem scanBodyC_none (O : Oracles) : scanBodyC O none = scanBody O := by
  funext pre f st
  rfl

theorem scanBodyC_nil (O : Oracles) : scanBodyC O (some []) = scanBody O := by
  funext pre f st
  rfl

theorem scanDirBodyC_none (O : Oracles) : scanDirBodyC O none = scanDirBody O := by
  funext step st
  rfl

theorem scanDirBodyC_nil (O : Oracles) : scanDirBodyC O (some []) = scanDirBody O := by
  funext step st
  rfl

/-! ## the two loops are one loop over the selection -/

theorem scan_loops_flatC (O : Oracles) (cached : Option CachedFiles) (pre : List Str) (ch : List Node)
    (st : ScanSt) :
    forE (scanDirBodyC O cached) (walkTop keepV pre ch) st =
      forE (fun (x : List Str × Nat × Str) s => scanFileC O cached x.1 x.2.1 x.2.2 s)
        ((cands pre ch).filterMap (passes O)) st := by
  rw [forE_filterMap, cands, forE_flatMap]
  apply forE_congr
  intro step _ s
  simp only [scanDirBodyC, stepFiles, forE_map]
  apply forE_congr
  intro f _ s
  simp only [scanBodyC, passes, baseName_append_singleton]
  by_cases hx : O.excluded (step.1 ++ [f.1]) = true
  · simp [hx]
  · simp only [hx]
    rcases O.langOf f.1 with _ | l <;> simp

/-! ## one file -/

/-- the cached entry `_scan_file` reuses for an item of the selection, if any -/
def hitOf (O : Oracles) (cached : Option CachedFiles) (x : List Str × Nat × Str) : Option FileEntry :=
  cacheHit cached (keyOf x) (O.checksum x.2.2)

/-- the entry `_scan_file` files for an item of the selection (or the exception of the analysis) -/
def entryC (O : Oracles) (cached : Option CachedFiles) (x : List Str × Nat × Str) : Except Err FileEntry :=
  match hitOf O cached x with
  | some ce => .ok (reuseEntry (keyOf x) (O.checksum x.2.2) ce)
  | none => analysisOf O x

/-- the contribution of an item to the instrumentation `analysed` -/
def missKeys (O : Oracles) (cached : Option CachedFiles) (x : List Str × Nat × Str) : List Str :=
  if (hitOf O cached x).isSome then [] else [keyOf x]

theorem analysisOf_fields {O : Oracles} {x : List Str × Nat × Str} {en : FileEntry}
    (h : analysisOf O x = .ok en) : en.path = keyOf x ∧ en.checksum = O.checksum x.2.2 ∧ en.lang = x.2.1 := by
  obtain ⟨ms, _, rfl⟩ := analysisOf_ok.1 h
  exact ⟨rfl, rfl, rfl⟩

theorem entryC_fields {O : Oracles} {cached : Option CachedFiles} {x : List Str × Nat × Str} {en : FileEntry}
    (h : entryC O cached x = .ok en) : en.path = keyOf x ∧ en.checksum = O.checksum x.2.2 := by
  unfold entryC at h
  split at h
  · cases h; exact ⟨rfl, rfl⟩
  · exact ⟨(analysisOf_fields h).1, (analysisOf_fields h).2.1⟩

theorem entryC_none (O : Oracles) (x : List Str × Nat × Str) : entryC O none x = analysisOf O x := rfl

theorem scanFileC_step (O : Oracles) (cached : Option CachedFiles) (x : List Str × Nat × Str) (st : ScanSt)
    (hfresh : keyOf x ∉ st.files.map (·.1)) :
    scanFileC O cached x.1 x.2.1 x.2.2 st =
      match entryC O cached x with
      | .error e => (⟨st.analysed ++ missKeys O cached x, st.files⟩, some e)
      | .ok en => (⟨st.analysed ++ missKeys O cached x, st.files ++ [(keyOf x, en)]⟩, none) := by
  have hk : keyOf x = joinPath x.1 := rfl
  cases hh : cacheHit cached (keyOf x) (O.checksum x.2.2) with
  | some ce =>
    have e1 : entryC O cached x = .ok (reuseEntry (keyOf x) (O.checksum x.2.2) ce) := by
      simp only [entryC, hitOf, hh]
    have e2 : missKeys O cached x = [] := by simp [missKeys, hitOf, hh]
    rw [e1, e2]
    rw [hk] at hh hfresh
    simp only [scanFileC, hh, List.append_nil, reuseEntry, hk]
    rw [dictSet_fresh _ hfresh]
  | none =>
    have e1 : entryC O cached x = analysisOf O x := by simp only [entryC, hitOf, hh]
    have e2 : missKeys O cached x = [keyOf x] := by simp [missKeys, hitOf, hh]
    rw [e1, e2]
    rw [hk] at hh hfresh
    simp only [scanFileC, hh, analysisOf, hk]
    cases ha : analyzeFile O (joinPath x.1) (O.checksum x.2.2) x.2.1 x.2.2 with
    | error e => rfl
    | ok en =>
      have hp : en.path = joinPath x.1 :=
        (analysisOf_fields (O := O) (x := x) (en := en) (by simpa [analysisOf, keyOf] using ha)).1
      simp only [hp]
      rw [dictSet_fresh _ hfresh]

/-! ## running the loop -/

/-- treating the selected files one after the other: the paths handed to `_analyze_file`, and the
entries (or the first exception) -/
def runSelC (O : Oracles) (cached : Option CachedFiles) :
    List (List Str × Nat × Str) → List Str × Except Err (List FileEntry)
  | [] => ([], .ok [])
  | x :: r =>
    match entryC O cached x with
    | .error e => (missKeys O cached x, .error e)
    | .ok en =>
      (missKeys O cached x ++ (runSelC O cached r).1,
        match (runSelC O cached r).2 with
        | .ok es => .ok (en :: es)
        | .error e => .error e)

theorem scan_runC (O : Oracles) (cached : Option CachedFiles) :
    ∀ (sel : List (List Str × Nat × Str)) (st : ScanSt),
    (sel.map keyOf).Nodup → (∀ x ∈ sel, keyOf x ∉ st.files.map (·.1)) →
    (forE (fun (x : List Str × Nat × Str) s => scanFileC O cached x.1 x.2.1 x.2.2 s) sel st).1.analysed
        = st.analysed ++ (runSelC O cached sel).1 ∧
    (match (runSelC O cached sel).2 with
     | .ok es =>
        (forE (fun (x : List Str × Nat × Str) s => scanFileC O cached x.1 x.2.1 x.2.2 s) sel st).2 = none ∧
        (forE (fun (x : List Str × Nat × Str) s => scanFileC O cached x.1 x.2.1 x.2.2 s) sel st).1.files
          = st.files ++ asDict es
     | .error e =>
        (forE (fun (x : List Str × Nat × Str) s => scanFileC O cached x.1 x.2.1 x.2.2 s) sel st).2 = some e)
  | [], st, _, _ => by simp [forE, runSelC, asDict]
  | x :: r, st, hnd, hdis => by
    simp only [List.map_cons, List.nodup_cons] at hnd
    have hfresh : keyOf x ∉ st.files.map (·.1) := hdis x (by simp)
    have step := scanFileC_step O cached x st hfresh
    rcases he : entryC O cached x with e | en
    · simp only [he] at step
      simp [forE, runSelC, step, he]
    · simp only [he] at step
      have ih := scan_runC O cached r ⟨st.analysed ++ missKeys O cached x, st.files ++ [(keyOf x, en)]⟩
        hnd.2 (by
          intro y hy
          simp only [List.map_append, List.map_cons, List.map_nil, List.mem_append, List.mem_singleton,
            not_or]
          refine ⟨hdis y (List.mem_cons_of_mem _ hy), fun e => hnd.1 ?_⟩
          exact List.mem_map.2 ⟨y, hy, e⟩)
      simp only [forE, step, runSelC, he]
      refine ⟨by simp [ih.1], ?_⟩
      have ih2 := ih.2
      rcases hr : (runSelC O cached r).2 with e | es
      · simp only [hr] at ih2 ⊢; exact ih2
      · simp only [hr] at ih2 ⊢
        exact ⟨ih2.1, by rw [ih2.2]; simp [asDict, (entryC_fields he).1]⟩

/-- **`scan_path(path, cached_report)` on a well-formed tree** is the sequential treatment of the
selection of `scan_path(path)`; nothing is overwritten in `Codebase.files` -/
theorem scanPathCached_eq (O : Oracles) (cached : Option CachedFiles) (rn : Str) (ch : List Node)
    (h : wfDir ch = true) :
    scanPathCached O cached (.dir rn ch) =
      ⟨(runSelC O cached (selection O ch)).1,
        match (runSelC O cached (selection O ch)).2 with
        | .ok es => .ok (asDict es)
        | .error e => .error e⟩ := by
  have hrun := scan_runC O cached (selection O ch) ⟨[], []⟩ (nodup_keys_selection h) (by simp)
  have hflat := scan_loops_flatC O cached [] ch ⟨[], []⟩
  simp only [scanPathCached]
  change (match forE (scanDirBodyC O cached) (walkTop keepV [] ch) ⟨[], []⟩ with
    | (st, none) => (⟨st.analysed, .ok st.files⟩ : ScanOut)
    | (st, some e) => ⟨st.analysed, .error e⟩) = _
  rw [hflat]
  simp only [selection] at hrun ⊢
  generalize forE (fun (x : List Str × Nat × Str) s => scanFileC O cached x.1 x.2.1 x.2.2 s)
    (List.filterMap (passes O) (cands [] ch)) ⟨[], []⟩ = out at hrun
  obtain ⟨st, err⟩ := out
  simp only [List.nil_append] at hrun
  rcases hr : (runSelC O cached (List.filterMap (passes O) (cands [] ch))).2 with e | es
  · simp only [hr] at hrun
    obtain ⟨h1, h2⟩ := hrun
    subst h2
    simp [h1]
  · simp only [hr] at hrun
    obtain ⟨h1, h2, h3⟩ := hrun
    subst h2
    simp [h1, h3]

/-! ## what the sequential run returns -/

/-- the selected files that are NOT served from the cache -/
def misses (O : Oracles) (cached : Option CachedFiles) (sel : List (List Str × Nat × Str)) :
    List (List Str × Nat × Str) :=
  sel.filter (fun x => (hitOf O cached x).isNone)

theorem missKeys_append_misses (O : Oracles) (cached : Option CachedFiles) (x : List Str × Nat × Str)
    (r : List (List Str × Nat × Str)) :
    missKeys O cached x ++ (misses O cached r).map keyOf = (misses O cached (x :: r)).map keyOf := by
  unfold missKeys misses
  cases hh : hitOf O cached x <;> simp [hh]

/-- success: every item was treated, in order; the analysed ones are exactly the misses -/
theorem runSelC_ok {O : Oracles} {cached : Option CachedFiles} :
    ∀ {sel : List (List Str × Nat × Str)} {es : List FileEntry},
    (runSelC O cached sel).2 = .ok es →
      (runSelC O cached sel).1 = (misses O cached sel).map keyOf ∧
        sel.map (entryC O cached) = es.map Except.ok ∧ es.map (·.path) = sel.map keyOf
  | [], es, h => by simp [runSelC] at h; subst h; simp [runSelC, misses]
  | x :: r, es, h => by
    simp only [runSelC] at h ⊢
    rcases he : entryC O cached x with e | en
    · simp [he] at h
    · simp only [he] at h ⊢
      rcases hr : (runSelC O cached r).2 with e | es'
      · simp [hr] at h
      · simp only [hr, Except.ok.injEq] at h
        subst h
        obtain ⟨h1, h2, h3⟩ := runSelC_ok hr
        refine ⟨by rw [h1]; exact missKeys_append_misses O cached x r, ?_, by simp [h3, (entryC_fields he).1]⟩
        simp only [List.map_cons, h2, he]

/-- failure: the analysis of some item raised (that item had no usable cache entry), everything
before it succeeded, nothing after it was treated -/
theorem runSelC_error {O : Oracles} {cached : Option CachedFiles} :
    ∀ {sel : List (List Str × Nat × Str)} {e : Err},
    (runSelC O cached sel).2 = .error e →
      ∃ pre x post, sel = pre ++ x :: post ∧ (∀ y ∈ pre, ∃ en, entryC O cached y = .ok en) ∧
        hitOf O cached x = none ∧ analysisOf O x = .error e ∧
        (runSelC O cached sel).1 = (misses O cached (pre ++ [x])).map keyOf
  | [], e, h => by simp [runSelC] at h
  | x :: r, e, h => by
    simp only [runSelC] at h ⊢
    rcases he : entryC O cached x with e' | en
    · simp only [he, Except.error.injEq] at h
      subst h
      have hh : hitOf O cached x = none := by
        unfold entryC at he
        cases hh : hitOf O cached x with
        | none => rfl
        | some ce => simp [hh] at he
      have ha : analysisOf O x = .error e' := by simpa [entryC, hh] using he
      refine ⟨[], x, r, rfl, by simp, hh, ha, ?_⟩
      simp [missKeys, misses, hh]
    · simp only [he] at h ⊢
      rcases hr : (runSelC O cached r).2 with e' | es'
      · simp only [hr, Except.error.injEq] at h
        subst h
        obtain ⟨pre, y, post, rfl, h1, h2, h3, h4⟩ := runSelC_error hr
        refine ⟨x :: pre, y, post, rfl, ?_, h2, h3, ?_⟩
        · intro z hz
          rcases List.mem_cons.1 hz with rfl | hz
          · exact ⟨_, he⟩
          · exact h1 z hz
        · rw [h4]
          exact missKeys_append_misses O cached x (pre ++ [y])
      · simp [hr] at h

/-- the paths handed to `_analyze_file` are always an initial segment of the misses' keys -/
theorem runSelC_analysed_prefix (O : Oracles) (cached : Option CachedFiles) (sel : List (List Str × Nat × Str)) :
    (runSelC O cached sel).1 <+: (misses O cached sel).map keyOf := by
  rcases hr : (runSelC O cached sel).2 with e | es
  · obtain ⟨pre, x, post, rfl, _, _, _, h⟩ := runSelC_error hr
    rw [h]
    refine ⟨(misses O cached post).map keyOf, ?_⟩
    have : pre ++ x :: post = (pre ++ [x]) ++ post := by simp
    rw [this]
    simp only [misses, List.filter_append, List.map_append]
  · rw [(runSelC_ok hr).1]
    exact List.prefix_refl _

/-- the result depends on the per-file entries only -/
theorem runSelC_result_congr {O : Oracles} {cached cached' : Option CachedFiles} :
    ∀ {sel : List (List Str × Nat × Str)},
    (∀ x ∈ sel, entryC O cached x = entryC O cached' x) →
      (runSelC O cached sel).2 = (runSelC O cached' sel).2
  | [], _ => rfl
  | x :: r, h => by
    have ih := runSelC_result_congr (O := O) (cached := cached) (cached' := cached')
      (fun y hy => h y (List.mem_cons_of_mem _ hy))
    simp only [runSelC, ← h x (by simp)]
    rcases entryC O cached x with e | en
    · rfl
    · simp only [ih]

/-- without a cache the run is the run of `Lemmas/SelectScan.lean` -/
theorem runSelC_none (O : Oracles) : ∀ sel : List (List Str × Nat × Str), runSelC O none sel = runSel O sel
  | [] => rfl
  | x :: r => by
    have ih := runSelC_none O r
    simp only [runSelC, runSel, entryC_none, missKeys, hitOf, cacheHit_none, Option.isSome_none,
      Bool.false_eq_true, if_false, analysisOf, analyzeFile, ih]
    rcases O.analyze x.2.1 (O.decode x.2.2) with e | ms
    · rfl
    · simp only [entryOf, keyOf, List.cons_append, List.nil_append]
      rfl

theorem runSelC_total {O : Oracles} {cached : Option CachedFiles} {sel : List (List Str × Nat × Str)}
    (h : ∀ x ∈ sel, ∃ en, entryC O cached x = .ok en) : ∃ es, (runSelC O cached sel).2 = .ok es := by
  rcases hr : (runSelC O cached sel).2 with e | es
  · obtain ⟨pre, x, post, rfl, _, h2, h3, _⟩ := runSelC_error hr
    obtain ⟨en, hen⟩ := h x (by simp)
    simp [entryC, h2, h3] at hen
  · exact ⟨es, rfl⟩

/-- a successful cached scan holds the sequential entries of the selection -/
theorem entries_of_okC (O : Oracles) (cached : Option CachedFiles) (rn : Str) (ch : List Node)
    (hwf : wfDir ch = true) {files : List (Str × FileEntry)}
    (h : (scanPathCached O cached (.dir rn ch)).result = .ok files) :
    ∃ es, files = asDict es ∧ (runSelC O cached (selection O ch)).2 = .ok es := by
  rw [scanPathCached_eq O cached rn ch hwf] at h
  rcases hr : (runSelC O cached (selection O ch)).2 with e | es
  · simp [hr] at h
  · simp only [hr, Except.ok.injEq] at h
    exact ⟨es, h.symm, rfl⟩

/-- when does `_scan_file` file the entry `e` for an item: the cached entry with the current path and
checksum, or the analysis -/
theorem entryC_ok_iff {O : Oracles} {cached : Option CachedFiles} {x : List Str × Nat × Str} {e : FileEntry} :
    entryC O cached x = .ok e ↔
      (∃ ce, hitOf O cached x = some ce ∧ e = reuseEntry (keyOf x) (O.checksum x.2.2) ce) ∨
      (hitOf O cached x = none ∧ analysisOf O x = .ok e) := by
  unfold entryC
  cases hitOf O cached x with
  | some ce => simp [eq_comm]
  | none => simp

/-- the analysed paths read off the entries: those whose (path, checksum) misses the cache -/
theorem runSelC_analysed_of_entries {O : Oracles} {cached : Option CachedFiles} :
    ∀ {sel : List (List Str × Nat × Str)} {es : List FileEntry},
    (runSelC O cached sel).2 = .ok es →
      (runSelC O cached sel).1 =
        (es.filter (fun e => (cacheHit cached e.path e.checksum).isNone)).map (·.path)
  | [], es, h => by simp [runSelC] at h; subst h; simp [runSelC]
  | x :: r, es, h => by
    simp only [runSelC] at h ⊢
    rcases he : entryC O cached x with e | en
    · simp [he] at h
    · simp only [he] at h ⊢
      rcases hr : (runSelC O cached r).2 with e | es'
      · simp [hr] at h
      · simp only [hr, Except.ok.injEq] at h
        subst h
        rw [runSelC_analysed_of_entries hr]
        obtain ⟨hp, hc⟩ := entryC_fields he
        have hh : cacheHit cached en.path en.checksum = hitOf O cached x := by rw [hp, hc]; rfl
        simp only [missKeys, List.filter_cons, hh]
        cases hitOf O cached x <;> simp [hp]

/-- the run depends on the cached report through the lookups only -/
theorem runSelC_congr {O : Oracles} {cached cached' : Option CachedFiles} :
    ∀ {sel : List (List Str × Nat × Str)},
    (∀ x ∈ sel, hitOf O cached x = hitOf O cached' x) → runSelC O cached sel = runSelC O cached' sel
  | [], _ => rfl
  | x :: r, h => by
    have ih := runSelC_congr (O := O) (cached := cached) (cached' := cached')
      (fun y hy => h y (List.mem_cons_of_mem _ hy))
    have hx := h x (by simp)
    simp only [runSelC, entryC, missKeys, hx, ih]

end CL.Sel
