import CodeLimit.Model.Scopes
/-!
# Relabelling, part 1: the pattern engine does not look at what it cannot see

If a map `g` on items does not change how the machine judges them
(`A.step s (g x) = A.step s x`), then `findAll` / `startsWithM` commute with `List.map g`:
same match positions, recorded items mapped by `g`.  Instantiated with
`g = Tok.rl f` (changing the `line` of a token) for `dfaMachine D tokAcceptor`, because
`Pred.eval` only reads `kind` and `val`.
-/
namespace CL

@[simp] theorem Except.map_ok' {ε α β : Type} (f : α → β) (a : α) :
    Except.map f (.ok a : Except ε α) = .ok (f a) := rfl
@[simp] theorem Except.map_error' {ε α β : Type} (f : α → β) (e : ε) :
    Except.map f (.error e : Except ε α) = .error e := rfl

section Generic
variable {β σ : Type}

def Match.map (g : β → β) (m : Match β) : Match β := ⟨m.s, m.e, m.toks.map g⟩
def Att.map (g : β → β) (p : Att β σ) : Att β σ := ⟨p.start, p.st, p.toks.map g⟩
def FS.map (g : β → β) (fs : FS β σ) : FS β σ := ⟨fs.ms.map (Match.map g), fs.next.map (Att.map g)⟩

@[simp] theorem Match.map_s (g : β → β) (m : Match β) : (m.map g).s = m.s := rfl
@[simp] theorem Match.map_e (g : β → β) (m : Match β) : (m.map g).e = m.e := rfl
@[simp] theorem Match.map_toks (g : β → β) (m : Match β) : (m.map g).toks = m.toks.map g := rfl

@[simp] theorem lastEnd_map (g : β → β) (ms : List (Match β)) :
    lastEnd (ms.map (Match.map g)) = lastEnd ms := by
  cases ms <;> simp [lastEnd]

theorem Att.toMatch_map (g : β → β) (p : Att β σ) (e : Nat) :
    (p.map g).toMatch e = (p.toMatch e).map g := by
  simp [Att.map, Att.toMatch, Match.map]

variable (A : Machine β σ) (g : β → β) (hstep : ∀ s x, A.step s (g x) = A.step s x)
include hstep

theorem procOne_map (idx : Nat) (x : β) (fs : FS β σ) (p : Att β σ) :
    procOne A idx (g x) (fs.map g) (p.map g) = (procOne A idx x fs p).map (FS.map g) := by
  unfold procOne
  have h1 : (fs.map g).ms.isEmpty = fs.ms.isEmpty := by simp [FS.map]
  have h2 : lastEnd (fs.map g).ms = lastEnd fs.ms := by simp [FS.map]
  have h3 : (p.map g).start = p.start := rfl
  have h4 : (p.map g).st = p.st := rfl
  rw [h1, h2, h3, h4, hstep]
  split
  · rfl
  · split
    · simp [FS.map, Att.toMatch_map]
    · rcases A.step p.st x with e | (_ | q)
      · rfl
      · dsimp only
        split <;> simp [FS.map, Att.toMatch_map]
      · simp [FS.map, Att.map]

theorem procAll_map (idx : Nat) (x : β) (ps : List (Att β σ)) (fs : FS β σ) :
    procAll A idx (g x) (ps.map (Att.map g)) (fs.map g) = (procAll A idx x ps fs).map (FS.map g) := by
  induction ps generalizing fs with
  | nil => rfl
  | cons p ps ih =>
    simp only [List.map_cons, procAll, procOne_map A g hstep]
    rcases procOne A idx x fs p with e | fs'
    · rfl
    · simp only [Except.map_ok']; exact ih fs'

theorem outer_map (idx : Nat) (xs : List β) (ms : List (Match β)) (act : List (Att β σ)) :
    outer A idx (xs.map g) (ms.map (Match.map g)) (act.map (Att.map g)) =
      (outer A idx xs ms act).map (fun r => (r.1.map (Match.map g), r.2.map (Att.map g))) := by
  induction xs generalizing idx ms act with
  | nil => rfl
  | cons x xs ih =>
    simp only [List.map_cons, outer]
    have h := procAll_map A g hstep idx x (act ++ [⟨idx, A.init, []⟩]) ⟨ms, []⟩
    simp only [List.map_append, List.map_cons, List.map_nil] at h
    have h5 : (Att.map g ⟨idx, A.init, []⟩ : Att β σ) = ⟨idx, A.init, []⟩ := rfl
    have h6 : (FS.map g ⟨ms, []⟩ : FS β σ) = ⟨ms.map (Match.map g), []⟩ := rfl
    rw [h5, h6] at h
    rw [h]
    generalize procAll A idx x (act ++ [⟨idx, A.init, []⟩]) ⟨ms, []⟩ = r
    rcases r with e | fs
    · rfl
    · simp only [Except.map_ok']
      have := ih (idx + 1) fs.ms fs.next.reverse
      simpa [FS.map, List.map_reverse] using this

omit hstep in
theorem finalize_map (n : Nat) (ms : List (Match β)) (act : List (Att β σ)) :
    finalize A n (ms.map (Match.map g)) (act.map (Att.map g)) =
      (finalize A n ms act).map (Match.map g) := by
  unfold finalize
  induction act generalizing ms with
  | nil => rfl
  | cons p ps ih =>
    simp only [List.map_cons, List.foldl_cons]
    have h3 : (p.map g).start = p.start := rfl
    have h4 : (p.map g).st = p.st := rfl
    rw [h3, h4, lastEnd_map, List.isEmpty_map]
    split
    · exact ih ms
    · split
      · rw [Att.toMatch_map, ← List.map_cons]; exact ih _
      · exact ih ms

/-- `find_all` commutes with a map the machine cannot observe -/
theorem findAll_map (xs : List β) :
    findAll A (xs.map g) = (findAll A xs).map (List.map (Match.map g)) := by
  unfold findAll
  have h := outer_map A g hstep 0 xs [] []
  simp only [List.map_nil] at h
  rw [h]
  rcases outer A 0 xs [] [] with e | ⟨ms, act⟩
  · rfl
  · simp [finalize_map, List.map_reverse]

theorem startsWithM_map (s : σ) (xs : List β) (n : Nat) :
    startsWithM A s (xs.map g) n = startsWithM A s xs n := by
  induction xs generalizing s n with
  | nil => rfl
  | cons x xs ih =>
    simp only [List.map_cons, startsWithM, hstep]
    rcases A.step s x with e | (_ | s')
    · rfl
    · rfl
    · dsimp only; rw [ih]

end Generic

/-! ## tokens -/

/-- replace the line number of a token -/
def Tok.rl (f : Nat → Nat) (t : Tok) : Tok := { t with line := f t.line }

/-- apply `f` to the line number of every token -/
def relabel (f : Nat → Nat) (toks : List Tok) : List Tok := toks.map (Tok.rl f)

variable (f : Nat → Nat)

@[simp] theorem Tok.rl_kind (t : Tok) : (t.rl f).kind = t.kind := rfl
@[simp] theorem Tok.rl_ty (t : Tok) : (t.rl f).ty = t.ty := rfl
@[simp] theorem Tok.rl_val (t : Tok) : (t.rl f).val = t.val := rfl
@[simp] theorem Tok.rl_col (t : Tok) : (t.rl f).col = t.col := rfl
@[simp] theorem Tok.rl_line (t : Tok) : (t.rl f).line = f t.line := rfl
@[simp] theorem Tok.rl_isName (t : Tok) : (t.rl f).isName = t.isName := rfl
@[simp] theorem Tok.rl_isKeyword (t : Tok) : (t.rl f).isKeyword = t.isKeyword := rfl
@[simp] theorem Tok.rl_isComment (t : Tok) : (t.rl f).isComment = t.isComment := rfl
@[simp] theorem Tok.rl_isString (t : Tok) : (t.rl f).isString = t.isString := rfl
@[simp] theorem Tok.rl_isWhitespace (t : Tok) : (t.rl f).isWhitespace = t.isWhitespace := rfl
@[simp] theorem Tok.rl_isSymbol (t : Tok) (s : Str) : (t.rl f).isSymbol s = t.isSymbol s := rfl
@[simp] theorem Tok.rl_isOperator (t : Tok) (s : Str) : (t.rl f).isOperator s = t.isOperator s := rfl

@[simp] theorem Pred.eval_rl (p : Pred) (t : Tok) : p.eval (t.rl f) = p.eval t := by
  induction p with
  | not p ih => simp [Pred.eval, ih]
  | and p q ihp ihq => simp [Pred.eval, ihp, ihq]
  | or p q ihp ihq => simp [Pred.eval, ihp, ihq]
  | _ => simp [Pred.eval]

@[simp] theorem acceptTok_rl (p : Pred) (ds : Depths) (t : Tok) :
    acceptTok p ds (t.rl f) = acceptTok p ds t := by
  cases p <;> simp [acceptTok]

theorem consumeAux_rl (t : Tok) (row : List (Pred × DState)) (o : Option DState) (ds : Depths) :
    consumeAux tokAcceptor (t.rl f) row o ds = consumeAux tokAcceptor t row o ds := by
  induction row generalizing o ds with
  | nil => rfl
  | cons pt rest ih =>
    obtain ⟨p, q⟩ := pt
    have hacc : tokAcceptor.accept p ds (t.rl f) = tokAcceptor.accept p ds t := acceptTok_rl f p ds t
    simp only [consumeAux, hacc, ih]

theorem tokMachine_step_rl (D : Dfa Pred) (s : DState × Depths) (t : Tok) :
    (dfaMachine D tokAcceptor).step s (t.rl f) = (dfaMachine D tokAcceptor).step s t := by
  simp [dfaMachine, consume, consumeAux_rl]

@[simp] theorem relabel_nil : relabel f [] = [] := rfl
@[simp] theorem relabel_cons (t : Tok) (ts : List Tok) : relabel f (t :: ts) = t.rl f :: relabel f ts := rfl
@[simp] theorem relabel_length (ts : List Tok) : (relabel f ts).length = ts.length := by simp [relabel]
@[simp] theorem relabel_getElem? (ts : List Tok) (i : Nat) :
    (relabel f ts)[i]? = (ts[i]?).map (Tok.rl f) := by simp [relabel]
theorem relabel_drop (ts : List Tok) (n : Nat) : (relabel f ts).drop n = relabel f (ts.drop n) := by
  simp [relabel, List.map_drop]

theorem findAll_tok_relabel (D : Dfa Pred) (toks : List Tok) :
    findAll (dfaMachine D tokAcceptor) (relabel f toks) =
      (findAll (dfaMachine D tokAcceptor) toks).map (List.map (Match.map (Tok.rl f))) :=
  findAll_map _ _ (tokMachine_step_rl f D) toks

theorem startsWithM_tok_relabel (D : Dfa Pred) (s : DState × Depths) (toks : List Tok) (n : Nat) :
    startsWithM (dfaMachine D tokAcceptor) s (relabel f toks) n =
      startsWithM (dfaMachine D tokAcceptor) s toks n :=
  startsWithM_map _ _ (tokMachine_step_rl f D) s toks n

end CL
