import CodeLimit.Lemmas.Entry
import CodeLimit.Props.C11pat
/-!
# Exclusion lines as a set: parsing, order, repetitions; the commands depend on the lines only
through the decision `Gi.excludedWith`
-/
namespace CL.Entry

open CL CL.Sel

/-- `Gi.parseAll` skips the lines pathspec ignores (blank lines, `#` comments) and reads every
other line with `Gi.Pat.parse` (`Lemmas/Gitignore.lean`) -/
theorem parseAll_eq_some_iff {l : List Str} {ps : List Gi.Pat} :
    Gi.parseAll l = some ps ↔ (l.filter (fun s => !Gi.ignoredLine s)).map Gi.Pat.parse = ps.map some :=
  Gi.parseAll_eq_some_iff l ps

/-- the patterns of a parsed list are the parsed lines -/
theorem mem_of_parseAll {l : List Str} {ps : List Gi.Pat} (h : Gi.parseAll l = some ps) (q : Gi.Pat) :
    q ∈ ps ↔ ∃ x ∈ l, Gi.Pat.parse x = some q := by
  have hm := parseAll_eq_some_iff.1 h
  constructor
  · intro hq
    have : some q ∈ ps.map some := List.mem_map.2 ⟨q, hq, rfl⟩
    rw [← hm] at this
    obtain ⟨x, hx, hxq⟩ := List.mem_map.1 this
    exact ⟨x, (List.mem_filter.1 hx).1, hxq⟩
  · rintro ⟨x, hx, hxq⟩
    have hni : Gi.ignoredLine x = false := Gi.parse_some_not_ignored hxq
    have : some q ∈ (l.filter (fun s => !Gi.ignoredLine s)).map Gi.Pat.parse :=
      List.mem_map.2 ⟨x, List.mem_filter.2 ⟨hx, by simp [hni]⟩, hxq⟩
    rw [hm] at this
    obtain ⟨q', hq', h'⟩ := List.mem_map.1 this
    cases h'; exact hq'

theorem parseAll_isSome_iff {l : List Str} :
    (Gi.parseAll l).isSome ↔ ∀ x ∈ l, Gi.ignoredLine x = true ∨ (Gi.Pat.parse x).isSome := by
  induction l with
  | nil => simp [Gi.parseAll]
  | cons s r ih =>
    simp only [List.mem_cons, forall_eq_or_imp]
    cases hi : Gi.ignoredLine s with
    | true => rw [Gi.parseAll_cons_ignored hi, ih]; simp
    | false =>
      rw [Gi.parseAll_cons_kept hi]
      cases hs : Gi.Pat.parse s with
      | none => simp
      | some q =>
        cases hr : Gi.parseAll r with
        | none => rw [hr] at ih; simp only [Option.isSome_none, Bool.false_eq_true, false_iff] at ih; simp [ih]
        | some qs => rw [hr] at ih; simp only [Option.isSome_some, true_iff] at ih; simpa using ih

/-- **two lists with the same lines (in any order, with any repetitions) parse to pattern lists
with the same patterns** -/
theorem parseAll_of_same_lines {l l' : List Str} (hl : ∀ x, x ∈ l ↔ x ∈ l') {ps : List Gi.Pat}
    (h : Gi.parseAll l = some ps) : ∃ ps', Gi.parseAll l' = some ps' ∧ ∀ q, q ∈ ps ↔ q ∈ ps' := by
  have h1 : (Gi.parseAll l').isSome := by
    rw [parseAll_isSome_iff]
    intro x hx
    exact (parseAll_isSome_iff.1 (by rw [h]; rfl)) x ((hl x).2 hx)
  obtain ⟨ps', hps'⟩ := Option.isSome_iff_exists.1 h1
  refine ⟨ps', hps', fun q => ?_⟩
  rw [mem_of_parseAll h, mem_of_parseAll hps']
  constructor <;> rintro ⟨x, hx, hxq⟩
  · exact ⟨x, (hl x).1 hx, hxq⟩
  · exact ⟨x, (hl x).2 hx, hxq⟩

/-- the decision of `generate_exclude_spec` depends on the SET of user patterns only -/
theorem excludedWith_congr {ps ps' : List Gi.Pat} (h : ∀ q, q ∈ ps ↔ q ∈ ps') :
    Gi.excludedWith ps = Gi.excludedWith ps' := by
  unfold Gi.excludedWith
  apply C11pat.excluded_order_irrelevant
  intro q
  simp only [List.mem_append, h q]

/-! ## `scan_command` and `check_command` use the lines only through the decision -/

theorem scan_congr_decision (E : Pipeline.Env) {ps ps' : List Gi.Pat} (h : Gi.excludedWith ps = Gi.excludedWith ps')
    (root uuid now : Str) (repo : Option Json.Repo) (node : Node) (prev : Option Str) :
    Pipeline.scan E ⟨ps, root, uuid, now, repo⟩ node prev = Pipeline.scan E ⟨ps', root, uuid, now, repo⟩ node prev := by
  have hr : Pipeline.scanRows E ps node prev = Pipeline.scanRows E ps' node prev := by
    simp only [Pipeline.scanRows, Cache.scan, Cache.report, Cache.scanLog, Cache.walk, Pipeline.cacheState,
      Pipeline.cacheParams, Pipeline.selectedKey, h]
  simp only [Pipeline.scan, hr, Pipeline.reportOf]

theorem oracles_congr_decision (E : Pipeline.Env) {ps ps' : List Gi.Pat} (h : Gi.excludedWith ps = Gi.excludedWith ps') :
    Pipeline.oracles E ps = Pipeline.oracles E ps' := by
  simp only [Pipeline.oracles, h]

theorem check_congr_decision (E : Pipeline.Env) {ps ps' : List Gi.Pat} (h : Gi.excludedWith ps = Gi.excludedWith ps')
    (fs : Node) (cwd : List Str) (args : List CheckArg) (quiet : Bool) :
    Pipeline.check E ps fs cwd args quiet = Pipeline.check E ps' fs cwd args quiet := by
  simp only [Pipeline.check, oracles_congr_decision E h]

end CL.Entry
