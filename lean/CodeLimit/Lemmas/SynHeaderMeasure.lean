import CodeLimit.Lemmas.SynHeaderDisc
/-!
# Every measurement comes from an extracted header - with its end and its length

`Compose.measurement_from_header` ties the START and the NAME of every measurement to a header
returned by `extract_headers`.  Here the same scope also gives the END (just past a code token
behind the header) and the bounds on the length; and distinct measurements come from headers with
distinct start tokens.
-/
namespace CL.Compose

/-- every measurement of `scan_file` belongs to a header `hd` returned by `extract_headers` on the
code tokens: it starts at the location of the first header token, carries the header's name, ends
just past a code token `code[e - 1]` that lies behind the header (`hd.rng.e < e`), and its length is
between 1 and the number of distinct lines of the tokens `[hd.rng.s, e)` -/
theorem measurement_from_header_full (L : Language) (hL : L ∈ Gen.all.map (·.2)) (all : List Tok)
    (hp : L.python = false ∨ PosOrdered (filterTokens false all))
    {ms : List Measurement} (h : scanFile L all = .ok ms) :
    ∀ m ∈ ms, ∃ hs hd e first last,
      extractHeaders L (filterTokens false all) = .ok hs ∧ hd ∈ hs ∧
      hd.rng.e < e ∧ e ≤ (filterTokens false all).length ∧
      (filterTokens false all)[hd.rng.s]? = some first ∧
      (filterTokens false all)[e - 1]? = some last ∧
      (m.sl, m.sc) = (first.line, first.col) ∧ m.name = hd.name.val ∧
      (m.el, m.ec) = last.endPos ∧ 1 ≤ m.len ∧
      m.len ≤ countDistinct ((((filterTokens false all).drop hd.rng.s).take
        (e - hd.rng.s)).map (·.line)) := by
  obtain ⟨scs, hscs, hms⟩ := scanFile_decomp h
  intro m hm
  obtain ⟨p, hp', hpm⟩ := measureAll_mem_ok hms m hm
  have hg := buildScopes_good L hL all hp hscs p hp'
  have hslt := hg.start_lt
  have h1 : p.1.hdr.rng.s < (filterTokens false all).length := by
    have := hg.le; omega
  have hch : ∀ c ∈ p.2, c.s < (filterTokens false all).length := fun c hc => (hg.children c hc).2.1
  obtain ⟨m', first, last, hm', hf, hl, hn, hs', he, hlen⟩ :=
    measure_spec h1 (by omega) hg.le hch
  rw [hpm] at hm'; cases hm'
  obtain ⟨len, hlen', hle, hpos⟩ :=
    countLines_spec (toks := filterTokens false all) (s := p.1) h1 hg.le hch
  rw [hlen] at hlen'; cases hlen'
  -- the header of the scope is one of the extracted headers
  obtain ⟨hs, bs, sc, hhs, hbs, hsc, rfl⟩ := buildScopes_decomp hscs
  have hwf := extractHeaders_wf' L hL hhs
  obtain ⟨bs', hbs', hbok⟩ := extractBlocks_ok L hwf
  rw [hbs] at hbs'; cases hbs'
  obtain ⟨sc', hsc', hok⟩ := buildScopes0_ok hwf hbok
  rw [hsc] at hsc'; cases hsc'
  have hfl : ∀ s ∈ filterNocl sc (noclTokens all), ScopeOK (filterTokens false all).length s :=
    fun s hs'' => (hok s ((filterNocl_sub _ _).subset hs'')).2
  obtain ⟨hmem, _, _⟩ := reportScopes_ok L hfl p hp'
  have hhdr := (hok p.1 ((filterNocl_sub _ _).subset hmem)).1
  exact ⟨hs, p.1.hdr, p.1.blk.e, first, last, hhs, hhdr, hg.lt, hg.le, hf, hl, hs', hn, he,
    hpos hslt (fun c hc => (hg.children c hc).1), hle⟩

end CL.Compose
