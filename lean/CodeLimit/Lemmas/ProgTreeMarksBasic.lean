import CodeLimit.Spec.ProgTreeMarks
import CodeLimit.Lemmas.ProgTreeBasic
import CodeLimit.Lemmas.ProgTreeLocate
/-!
# Program trees with comments and markers: `append`, `toks`, `strip`, `dissolve`

* `flat_strip_of_wfCore` - the token sequence of the comment-free forest is `filter_tokens` of the
  token sequence;
* `flat_dissolve`, `size_dissolve` - dissolving functions does not change the token sequence;
* `fnsOf_dissolve` - the function nodes left are those named on other lines, with the same ranges;
* `wf_dissolve` - well-formedness (structure and the canonical-fragment restriction) survives.
-/
namespace CL.Marks

/-! ## `append`, `toks` -/

theorem Prog.flat_append {α : Type} : ∀ (a b : Prog α), (a.followedBy b).flat = a.flat ++ b.flat
  | .nil, _ => rfl
  | .leaf t rest, b => by simp only [Prog.followedBy, Prog.flat, flat_append rest b, List.cons_append]
  | .group op cl items rest, b => by
    simp only [Prog.followedBy, Prog.flat, flat_append rest b, List.cons_append, List.append_assoc]
  | .fn hdr k gap op cl body rest, b => by
    simp only [Prog.followedBy, Prog.flat, flat_append rest b, List.cons_append, List.append_assoc]

theorem Prog.toks_nil {α : Type} (r : Prog α) : Prog.toks [] r = r := rfl

theorem Prog.toks_cons {α : Type} (t : α) (g : List α) (r : Prog α) :
    Prog.toks (t :: g) r = .leaf t (Prog.toks g r) := rfl

theorem Prog.flat_toks {α : Type} : ∀ (g : List α) (r : Prog α), (Prog.toks g r).flat = g ++ r.flat
  | [], _ => rfl
  | t :: g, r => by simp only [Prog.toks_cons, Prog.flat, flat_toks g r, List.cons_append]

theorem Prog.size_append {α : Type} (a b : Prog α) : (a.followedBy b).size = a.size + b.size := by
  rw [← Prog.size_eq, ← Prog.size_eq, ← Prog.size_eq, Prog.flat_append, List.length_append]

theorem Prog.size_toks {α : Type} (g : List α) (r : Prog α) :
    (Prog.toks g r).size = g.length + r.size := by
  rw [← Prog.size_eq, ← Prog.size_eq, Prog.flat_toks, List.length_append]

theorem fnsOf_append_noFn : ∀ (a b : Prog Tok) (i : Nat), a.noFn = true →
    fnsOf (a.followedBy b) i = fnsOf b (i + a.size)
  | .nil, _, _, _ => rfl
  | .leaf _ rest, b, i, h => by
    simp only [Prog.followedBy, fnsOf, Prog.size]
    rw [fnsOf_append_noFn rest b (i + 1) h, show i + 1 + rest.size = i + (rest.size + 1) by omega]
  | .group _ _ items rest, b, i, h => by
    simp only [Prog.noFn, Bool.and_eq_true] at h
    simp only [Prog.followedBy, fnsOf, Prog.size, fnsOf_noFn items _ h.1, List.nil_append]
    rw [fnsOf_append_noFn rest b _ h.2,
      show i + items.size + 2 + rest.size = i + (items.size + rest.size + 2) by omega]
  | .fn .., _, _, h => by cases h

theorem fnsOf_toks : ∀ (g : List Tok) (r : Prog Tok) (i : Nat),
    fnsOf (Prog.toks g r) i = fnsOf r (i + g.length)
  | [], _, _ => rfl
  | t :: g, r, i => by
    simp only [Prog.toks_cons, fnsOf, List.length_cons]
    rw [fnsOf_toks g r (i + 1), show i + 1 + g.length = i + (g.length + 1) by omega]

theorem Prog.startsWithGroup_append_of_leaf {α : Type} {a : Prog α} (h : a.startsWithLeaf = true)
    (b : Prog α) : (a.followedBy b).startsWithGroup = false := by
  cases a with
  | leaf t rest => rfl
  | nil => cases h
  | group => cases h
  | fn => cases h

theorem Prog.wf_append_noFn : ∀ (a b : Prog Tok), a.noFn = true → a.wf = true → b.wf = true →
    (a.followedBy b).wf = true
  | .nil, _, _, _, hb => hb
  | .leaf t rest, b, hn, ha, hb => by
    simp only [Prog.wf, Bool.and_eq_true] at ha
    simp only [Prog.followedBy, Prog.wf, Bool.and_eq_true]
    exact ⟨ha.1, wf_append_noFn rest b hn ha.2 hb⟩
  | .group op cl items rest, b, hn, ha, hb => by
    simp only [Prog.noFn, Bool.and_eq_true] at hn
    simp only [Prog.wf, Bool.and_eq_true] at ha
    simp only [Prog.followedBy, Prog.wf, Bool.and_eq_true]
    exact ⟨ha.1, wf_append_noFn rest b hn.2 ha.2 hb⟩
  | .fn .., _, hn, _, _ => by cases hn

theorem Prog.wf_toks : ∀ (g : List Tok) (r : Prog Tok), g.all Tok.noBrace = true → r.wf = true →
    (Prog.toks g r).wf = true
  | [], _, _, hr => hr
  | t :: g, r, hg, hr => by
    simp only [List.all_cons, Bool.and_eq_true] at hg
    simp only [Prog.toks_cons, Prog.wf, Bool.and_eq_true]
    exact ⟨hg.1, wf_toks g r hg.2 hr⟩

/-! ## `dissolve` -/

theorem flat_dissolve (ls : List Nat) : ∀ (p : Prog Tok), (p.dissolve ls).flat = p.flat
  | .nil => rfl
  | .leaf t rest => by simp only [Prog.dissolve, Prog.flat, flat_dissolve ls rest]
  | .group op cl items rest => by
    simp only [Prog.dissolve, Prog.flat, flat_dissolve ls items, flat_dissolve ls rest]
  | .fn hdr k gap op cl body rest => by
    simp only [Prog.dissolve]
    split
    · simp only [Prog.flat_append, Prog.flat_toks, Prog.flat, flat_dissolve ls body,
        flat_dissolve ls rest]
    · simp only [Prog.flat, flat_dissolve ls body, flat_dissolve ls rest]

theorem size_dissolve (ls : List Nat) (p : Prog Tok) : (p.dissolve ls).size = p.size := by
  rw [← Prog.size_eq, ← Prog.size_eq, flat_dissolve]

/-- the test of `dissolve` on a function record -/
def Fn.keptBy (ls : List Nat) (f : Fn) : Bool := !ls.contains f.hdr.name.line

/-- **the function nodes of the dissolved forest** are the function nodes of the forest that are
named on other lines, with the same header and body ranges -/
theorem fnsOf_dissolve (ls : List Nat) : ∀ (p : Prog Tok) (i : Nat), p.wfCore = true →
    fnsOf (p.dissolve ls) i = (fnsOf p i).filter (Fn.keptBy ls)
  | .nil, _, _ => rfl
  | .leaf t rest, i, h => by
    simp only [Prog.wfCore, Bool.and_eq_true] at h
    simp only [Prog.dissolve, fnsOf, fnsOf_dissolve ls rest (i + 1) h.2]
  | .group op cl items rest, i, h => by
    simp only [Prog.wfCore, Bool.and_eq_true] at h
    simp only [Prog.dissolve, fnsOf, size_dissolve, List.filter_append,
      fnsOf_dissolve ls items (i + 1) h.1.2, fnsOf_dissolve ls rest _ h.2]
  | .fn hdr k gap op cl body rest, i, h => by
    simp only [Prog.wfCore, Bool.and_eq_true, decide_eq_true_eq] at h
    obtain ⟨⟨⟨⟨⟨⟨⟨⟨⟨hsl, hnf⟩, hwh⟩, hk⟩, hnm⟩, hgap⟩, hop⟩, hcl⟩, hwb⟩, hwr⟩ := h
    have ihb := fnsOf_dissolve ls body (i + hdr.size + gap.length + 1) hwb
    have ihr := fnsOf_dissolve ls rest (i + hdr.size + gap.length + body.size + 2) hwr
    simp only [Prog.dissolve]
    by_cases hm : ls.contains (hdr.flat.getD k default).line = true
    · rw [if_pos hm, fnsOf_append_noFn _ _ _ hnf, fnsOf_toks]
      simp only [fnsOf, size_dissolve, List.filter_cons, Fn.keptBy, hm, Bool.not_true,
        Bool.false_eq_true, if_false, List.filter_append]
      rw [ihb, ihr]
    · rw [if_neg hm]
      simp only [fnsOf, size_dissolve, List.filter_cons, Fn.keptBy, hm, Bool.not_false, if_true,
        List.filter_append]
      rw [ihb, ihr]

theorem startsWithGroup_dissolve (ls : List Nat) {p : Prog Tok} (h : p.wfCore = true) :
    (p.dissolve ls).startsWithGroup = p.startsWithGroup := by
  cases p with
  | nil => rfl
  | leaf => rfl
  | group => rfl
  | fn hdr k gap op cl body rest =>
    simp only [Prog.wfCore, Bool.and_eq_true] at h
    simp only [Prog.dissolve]
    split
    · exact Prog.startsWithGroup_append_of_leaf h.1.1.1.1.1.1.1.1.1 _
    · rfl

/-- **dissolving functions keeps the forest well-formed**: the structural conditions and the
canonical-fragment restriction "no brace group directly after a function" both survive (the new
brace group of a dissolved function follows header or gap TOKENS, never a function node; and the
item after a remaining function starts with a brace group only if it did before, since headers
start with a token) -/
theorem wf_dissolve (ls : List Nat) : ∀ (p : Prog Tok), p.wf = true → (p.dissolve ls).wf = true
  | .nil, _ => rfl
  | .leaf t rest, h => by
    simp only [Prog.wf, Bool.and_eq_true] at h
    simp only [Prog.dissolve, Prog.wf, Bool.and_eq_true]
    exact ⟨h.1, wf_dissolve ls rest h.2⟩
  | .group op cl items rest, h => by
    simp only [Prog.wf, Bool.and_eq_true] at h
    simp only [Prog.dissolve, Prog.wf, Bool.and_eq_true]
    exact ⟨⟨⟨h.1.1.1, h.1.1.2⟩, wf_dissolve ls items h.1.2⟩, wf_dissolve ls rest h.2⟩
  | .fn hdr k gap op cl body rest, h => by
    simp only [Prog.wf, Bool.and_eq_true, decide_eq_true_eq] at h
    obtain ⟨⟨⟨⟨⟨⟨⟨⟨⟨⟨hsl, hnf⟩, hwh⟩, hk⟩, hnm⟩, hgap⟩, hop⟩, hcl⟩, hwb⟩, hadj⟩, hwr⟩ := h
    have ihb := wf_dissolve ls body hwb
    have ihr := wf_dissolve ls rest hwr
    simp only [Prog.dissolve]
    split
    · apply Prog.wf_append_noFn _ _ hnf hwh
      apply Prog.wf_toks _ _ hgap
      simp only [Prog.wf, Bool.and_eq_true]
      exact ⟨⟨⟨hop, hcl⟩, ihb⟩, ihr⟩
    · simp only [Prog.wf, Bool.and_eq_true, decide_eq_true_eq]
      rw [startsWithGroup_dissolve ls ((Prog.wf_iff rest).mp hwr).1]
      exact ⟨⟨⟨⟨⟨⟨⟨⟨⟨⟨hsl, hnf⟩, hwh⟩, hk⟩, hnm⟩, hgap⟩, hop⟩, hcl⟩, ihb⟩, hadj⟩, ihr⟩

/-! ## `strip` -/

theorem filterTokens_eq_filter_isCode (l : List Tok) :
    filterTokens false l = l.filter Tok.isCode := by
  unfold filterTokens
  apply List.filter_congr
  intro t _
  unfold Tok.isCode
  cases t.isWhitespace <;> cases t.isComment <;> rfl

theorem Tok.isCode_of_isSymbol {t : Tok} {s : Str} (h : t.isSymbol s = true) :
    t.isCode = true := by
  simp only [Tok.isSymbol, Bool.and_eq_true, beq_iff_eq] at h
  simp [Tok.isCode, Tok.isWhitespace, Tok.isComment, h.1]

/-- **the token sequence of the comment-free forest** (whose braces are brace symbols) is what
`filter_tokens` leaves of the token sequence of the forest -/
theorem flat_strip_of_wfCore : ∀ (p : Prog Tok), p.stripComments.wfCore = true →
    p.stripComments.flat = filterTokens false p.flat := by
  intro p h
  rw [filterTokens_eq_filter_isCode]
  revert h
  unfold Prog.stripComments
  induction p with
  | nil => intro _; rfl
  | leaf t rest ih =>
    intro h
    simp only [Prog.strip] at h ⊢
    by_cases hk : t.isCode = true
    · rw [if_pos hk] at h ⊢
      simp only [Prog.wfCore, Bool.and_eq_true] at h
      simp only [Prog.flat, List.filter_cons, hk, if_true, ih h.2]
    · rw [if_neg hk] at h ⊢
      simp only [Prog.flat, List.filter_cons, hk, Bool.false_eq_true, if_false, ih h]
  | group op cl items rest ih1 ih2 =>
    intro h
    simp only [Prog.strip, Prog.wfCore, Bool.and_eq_true] at h
    simp only [Prog.strip, Prog.flat, List.filter_cons, List.filter_append,
      Tok.isCode_of_isSymbol h.1.1.1, Tok.isCode_of_isSymbol h.1.1.2, if_true, ih1 h.1.2, ih2 h.2]
  | fn hdr k gap op cl body rest ih1 ih2 ih3 =>
    intro h
    simp only [Prog.strip, Prog.wfCore, Bool.and_eq_true, decide_eq_true_eq] at h
    obtain ⟨⟨⟨⟨⟨⟨⟨⟨⟨hsl, hnf⟩, hwh⟩, hk⟩, hnm⟩, hgap⟩, hop⟩, hcl⟩, hwb⟩, hwr⟩ := h
    simp only [Prog.strip, Prog.flat, List.filter_cons, List.filter_append,
      Tok.isCode_of_isSymbol hop, Tok.isCode_of_isSymbol hcl, if_true, ih1 hwh, ih2 hwb, ih3 hwr]

/-- the name token of a stripped header is the name token of the header, if that is kept -/
theorem getD_filter_take {α : Type} (keep : α → Bool) (d : α) : ∀ (l : List α) (k : Nat),
    k < l.length → keep (l.getD k d) = true →
    (l.filter keep).getD ((l.take k).filter keep).length d = l.getD k d
  | [], _, h, _ => by cases h
  | a :: l, 0, _, hk => by
    simp only [List.getD_cons_zero] at hk
    simp [hk]
  | a :: l, k + 1, h, hk => by
    simp only [List.getD_cons_succ] at hk ⊢
    simp only [List.length_cons, Nat.add_lt_add_iff_right] at h
    have ih := getD_filter_take keep d l k h hk
    by_cases ha : keep a = true
    · simp only [List.take_succ_cons, List.filter_cons, ha, if_true, List.length_cons,
        List.getD_cons_succ, ih]
    · simp only [List.take_succ_cons, List.filter_cons, ha, Bool.false_eq_true, if_false, ih]

end CL.Marks
