import CodeLimit.Lemmas.PyLayoutBlocks
import CodeLimit.Lemmas.PyLayoutScopes
/-!
# Stage C of C01, part 3: the suites of a canonical Python layout are properly nested

From the indentation clauses of `PyLayout` (no algorithm involved):

* `PyLayout.laminar` - the suite of an earlier function ends before a later function starts, or
  after that function ends: indentation blocks are properly nested;
* `PyLayout.nested`, `PyLayout.scopeLayout` - hence the premises of stage A hold for the
  functions with `blocks := fns.map (·.body)`;
* `rawScopes_pyLayout` - the scopes built for a canonical Python file.
-/
namespace CL

namespace PyLayout

variable {code : List Tok} {fns : List Fn}

theorem posSorted (L : PyLayout code fns) : PosSorted code := L.pos_sorted

/-- for two different functions, one comes first: the other starts in or after its suite -/
theorem order_or (L : PyLayout code fns) {f g : Fn} (hf : f ∈ fns) (hg : g ∈ fns) (hne : f ≠ g) :
    f.body.s ≤ g.hdr.rng.s ∨ g.body.s ≤ f.hdr.rng.s :=
  pairwise_mem_or L.fns_order hf hg hne

theorem fns_sorted (L : PyLayout code fns) : fns.Pairwise (fun f g => f.hdr.rng.s < g.hdr.rng.s) :=
  L.fns_order.imp_of_mem (fun {f _} hf _ h => by have := L.fn_ok f hf; omega)

/-- **Indentation blocks are properly nested**: if `f` starts inside or after the suite of `g`,
then the suite of `g` ends before `f` starts or after `f` ends. -/
theorem laminar (L : PyLayout code fns) {f g : Fn} (hf : f ∈ fns) (hg : g ∈ fns)
    (h : g.body.s ≤ f.hdr.rng.s) : g.body.e ≤ f.hdr.rng.s ∨ f.body.e ≤ g.body.e := by
  rcases Nat.lt_or_ge f.hdr.rng.s g.body.e with h1 | h1
  · rcases Nat.lt_or_ge g.body.e f.body.e with h2 | h2
    · exfalso
      have hfo := L.fn_ok f hf
      have hgo := L.fn_ok g hg
      -- the suite of `g` ends at a line that is not indented deeper than `g`'s line ...
      have hend : startsLine code g.body.e = true ∧ colNo code g.body.e ≤ indentAt code g.hdr.rng.s := by
        rcases L.suite_end g hg with h | h
        · omega
        · exact h
      -- ... it does not cut `f`'s header, so it is a line of `f`'s suite, indented deeper than
      -- `f`'s line
      have hw := L.hdr_whole f hf g hg
      have hd1 := L.suite_deeper f hf g.body.e h2 (by omega) hend.1
      -- the line of `f`'s header begins inside the suite of `g`, so it is indented deeper than `g`'s
      have hj0 := le_lineStartOf (L.suite_start g hg).1 f.hdr.rng.s h
      have hj1 := lineStartOf_le code f.hdr.rng.s
      have hd2 := L.suite_deeper g hg (lineStartOf code f.hdr.rng.s) (by omega) hj0
        (startsLine_lineStartOf code _)
      have : colNo code (lineStartOf code f.hdr.rng.s) = indentAt code f.hdr.rng.s := rfl
      omega
    · exact .inr h2
  · exact .inl h1

theorem nested (L : PyLayout code fns) : Nested fns := by
  refine ⟨L.fns_sorted, fun f hf => by have := L.fn_ok f hf; omega, ?_⟩
  intro f hf g hg h
  have hne : f ≠ g := fun e => by subst e; omega
  rcases L.order_or hf hg hne with h1 | h1
  · exact L.laminar hg hf h1
  · have := L.fn_ok g hg; omega

theorem fnBounds (L : PyLayout code fns) : FnBounds code fns :=
  fun f hf => by have := L.fn_ok f hf; omega

/-- **The premises of stage A1 hold for the suites.** -/
theorem scopeLayout (L : PyLayout code fns) : ScopeLayout code fns (fns.map (·.body)) := by
  refine ⟨L.pos_sorted, L.fns_sorted, fun f hf => by have := L.fn_ok f hf; omega,
    fun f hf => List.mem_map_of_mem hf, ?_, ?_, ?_, ?_, ?_⟩
  · intro b hb
    obtain ⟨g, hg, rfl⟩ := List.mem_map.1 hb
    exact (L.fn_ok g hg).2.2.1
  · rw [List.pairwise_map]
    exact L.fns_order.imp_of_mem (fun {f g} _ hg h => by have := L.fn_ok g hg; omega)
  · intro f hf b hb
    obtain ⟨g, hg, rfl⟩ := List.mem_map.1 hb
    have := L.fn_ok f hf
    have := L.fn_ok g hg
    by_cases hne : f = g
    · subst hne; omega
    · rcases L.order_or hf hg hne with h | h <;> omega
  · intro f hf b hb h1 h2
    obtain ⟨g, hg, rfl⟩ := List.mem_map.1 hb
    have := L.fn_ok f hf
    have := L.fn_ok g hg
    by_cases hne : f = g
    · subst hne; omega
    · rcases L.order_or hf hg hne with h | h
      · rcases L.laminar hg hf h with h3 | h3 <;> omega
      · omega
  · intro f hf g hg h
    have := L.fn_ok f hf
    have := L.fn_ok g hg
    have hne : f ≠ g := fun e => by subst e; omega
    rcases L.order_or hf hg hne with h1 | h1 <;> omega

/-- **All clauses of the brace-block `Layout` hold for the suites, except that an enclosing
block may start AT the header of a nested function** (`b.s ≤ f.hdr.rng.s` where
`FnLayout.block_vs_fn` has `<`): the suite of an outer function may begin with the `def` of an
inner one, whereas a brace block begins with its `{`. -/
theorem layout_clauses (L : PyLayout code fns) :
    fns.Pairwise (fun f g => f.hdr.rng.s < g.hdr.rng.s)
    ∧ (∀ f ∈ fns, f.hdr.rng.s < f.hdr.rng.e ∧ f.hdr.rng.e ≤ f.body.s)
    ∧ (∀ f ∈ fns, f.body ∈ fns.map (·.body))
    ∧ (∀ f ∈ fns, ∀ b ∈ fns.map (·.body), ¬ (f.hdr.rng.e ≤ b.s ∧ b.s < f.body.s))
    ∧ (∀ f ∈ fns, ∀ b ∈ fns.map (·.body),
          (b.s ≤ f.hdr.rng.s ∧ f.body.e ≤ b.e) ∨ (f.hdr.rng.s < b.s ∧ b.e ≤ f.hdr.rng.e)
        ∨ b.e ≤ f.hdr.rng.s ∨ f.hdr.rng.e ≤ b.s)
    ∧ (∀ f ∈ fns, ∀ g ∈ fns, f.hdr.rng.s < g.hdr.rng.s →
          f.hdr.rng.e ≤ g.hdr.rng.s ∨ g.hdr.rng.e ≤ f.hdr.rng.e)
    ∧ (∀ f ∈ fns, ∀ g ∈ fns, ¬ (f.hdr.rng.e ≤ g.hdr.rng.s ∧ g.hdr.rng.s < f.body.s))
    ∧ (∀ f ∈ fns, ∀ g ∈ fns, f.hdr.rng.s < g.hdr.rng.s → f.body ≠ g.body)
    ∧ code.Pairwise (fun a b => a.line < b.line ∨ (a.line = b.line ∧ a.col < b.col))
    ∧ (∀ b ∈ fns.map (·.body), b.s < b.e ∧ b.e ≤ code.length)
    ∧ (fns.map (·.body)).Pairwise (fun a b => a.s < b.s)
    ∧ (fns.map (·.body)).Pairwise (fun a b => a.e ≤ b.s ∨ b.e ≤ a.e)
    ∧ (∀ f ∈ fns, ∀ b ∈ fns.map (·.body), b.s ≠ f.body.e) := by
  have S := L.scopeLayout
  -- how two functions lie to each other
  have key : ∀ f ∈ fns, ∀ g ∈ fns, f = g ∨
      (f.body.s ≤ g.hdr.rng.s ∧ (f.body.e ≤ g.hdr.rng.s ∨ g.body.e ≤ f.body.e)) ∨
      (g.body.s ≤ f.hdr.rng.s ∧ (g.body.e ≤ f.hdr.rng.s ∨ f.body.e ≤ g.body.e)) := by
    intro f hf g hg
    by_cases hne : f = g
    · exact .inl hne
    · rcases L.order_or hf hg hne with h | h
      · exact .inr (.inl ⟨h, L.laminar hg hf h⟩)
      · exact .inr (.inr ⟨h, L.laminar hf hg h⟩)
  refine ⟨L.fns_sorted, fun f hf => by have := L.fn_ok f hf; omega, S.body_mem, S.body_first,
    ?_, ?_, ?_, ?_, L.pos_sorted, ?_, S.blocks_sorted, ?_, ?_⟩
  · intro f hf b hb
    obtain ⟨g, hg, rfl⟩ := List.mem_map.1 hb
    have := L.fn_ok f hf
    have := L.fn_ok g hg
    rcases key f hf g hg with rfl | h | h <;> omega
  · intro f hf g hg h
    have := L.fn_ok f hf
    have := L.fn_ok g hg
    rcases key f hf g hg with rfl | h | h <;> omega
  · intro f hf g hg
    have := L.fn_ok f hf
    have := L.fn_ok g hg
    rcases key f hf g hg with rfl | h | h <;> omega
  · intro f hf g hg h e
    have := L.fn_ok f hf
    have := L.fn_ok g hg
    have : f.body.s = g.body.s := by rw [e]
    rcases key f hf g hg with rfl | h | h <;> omega
  · intro b hb
    obtain ⟨g, hg, rfl⟩ := List.mem_map.1 hb
    have := L.fn_ok g hg
    omega
  · rw [List.pairwise_map]
    refine L.fns_order.imp_of_mem (fun {f g} hf hg h => ?_)
    have := L.fn_ok f hf
    have := L.fn_ok g hg
    rcases L.laminar hg hf h with h1 | h1 <;> omega
  · intro f hf b hb
    obtain ⟨g, hg, rfl⟩ := List.mem_map.1 hb
    have := L.fn_ok f hf
    have := L.fn_ok g hg
    rcases key f hf g hg with rfl | h | h <;> omega

end PyLayout

/-- a sufficient condition for the clause `hdr_whole`, in terms of indentation only: the
continuation lines of every multi-line header (and `-> T :`) are indented deeper than the line
on which the header begins (PEP 8 "hanging indent"; the `black` style, with `):` at the column
of `def`, does not satisfy it but satisfies `hdr_whole` directly) -/
theorem PyLayout.of_deeper_headers {code : List Tok} {fns : List Fn}
    (pos_sorted : code.Pairwise (fun a b => a.line < b.line ∨ (a.line = b.line ∧ a.col < b.col)))
    (fn_ok : ∀ f ∈ fns, f.hdr.rng.s < f.hdr.rng.e ∧ f.hdr.rng.e < f.body.s ∧ f.body.s < f.body.e ∧
      f.body.e ≤ code.length)
    (fns_order : fns.Pairwise (fun f g => f.body.s ≤ g.hdr.rng.s))
    (suite_start : ∀ f ∈ fns, startsLine code f.body.s = true ∧
      lineNo code f.hdr.rng.e < lineNo code f.body.s)
    (suite_first : ∀ f ∈ fns, ∀ j < f.body.s, startsLine code j = true →
      lineNo code j ≤ lineNo code f.hdr.rng.e)
    (suite_deeper : ∀ f ∈ fns, ∀ j < f.body.e, f.body.s ≤ j → startsLine code j = true →
      indentAt code f.hdr.rng.s < colNo code j)
    (suite_end : ∀ f ∈ fns, f.body.e = code.length ∨
      (startsLine code f.body.e = true ∧ colNo code f.body.e ≤ indentAt code f.hdr.rng.s))
    (hdr_deeper : ∀ f ∈ fns, ∀ j < f.body.s, f.hdr.rng.s < j → startsLine code j = true →
      indentAt code f.hdr.rng.s < colNo code j) :
    PyLayout code fns := by
  refine ⟨pos_sorted, fn_ok, fns_order, suite_start, suite_first, suite_deeper, suite_end, ?_⟩
  intro f hf g hg ⟨h1, h2⟩
  have hfo := fn_ok f hf
  have hgo := fn_ok g hg
  have hend : startsLine code g.body.e = true ∧ colNo code g.body.e ≤ indentAt code g.hdr.rng.s := by
    rcases suite_end g hg with h | h
    · omega
    · exact h
  have hd1 := hdr_deeper f hf g.body.e h2 h1 hend.1
  by_cases hne : f = g
  · subst hne; omega
  · rcases pairwise_mem_or fns_order hf hg hne with h | h
    · omega
    · have hj0 := le_lineStartOf (suite_start g hg).1 f.hdr.rng.s h
      have hj1 := lineStartOf_le code f.hdr.rng.s
      have hd2 := suite_deeper g hg (lineStartOf code f.hdr.rng.s) (by omega) hj0
        (startsLine_lineStartOf code _)
      have : colNo code (lineStartOf code f.hdr.rng.s) = indentAt code f.hdr.rng.s := rfl
      omega

/-- the scopes found in a canonical Python file, before suppression -/
theorem rawScopes_pyLayout {L : Language} {code : List Tok} {fns : List Fn}
    (hpy : L.python = true) (hh : extractHeaders L code = .ok (fns.map (·.hdr)))
    (hL : PyLayout code fns) : rawScopes L code = .ok (fns.map Fn.toScope) := by
  unfold rawScopes
  rw [hh]
  simp only [bind, Except.bind]
  unfold extractBlocks
  rw [hpy]
  simp only [if_true, pyBlocks_layout hL]
  exact buildScopes0_scopeLayout hL.scopeLayout (List.Perm.refl _)

end CL
