import CodeLimit.Lemmas.JsonStr
/-!
# `json.loads` reads back the decimal text of a Python `int`
-/
namespace CL.Json

theorem digitChar_toNat (d : Nat) (h : d < 10) : (Nat.digitChar d).toNat = 48 + d := by
  revert d; decide

theorem natText_lt {n : Nat} (h : n < 10) : natText n = [48 + n] := by
  simp [natText, Nat.toDigits_of_lt_base h, digitChar_toNat n h]

theorem natText_ge {n : Nat} (h : 10 ≤ n) : natText n = natText (n / 10) ++ [48 + n % 10] := by
  simp [natText, Nat.toDigits_of_base_le (by decide : 1 < 10) h,
    digitChar_toNat (n % 10) (Nat.mod_lt _ (by decide))]

/-- the text after a number does not continue it -/
def numEnd : List Nat → Bool
  | [] => false
  | c :: _ => !(isDigit c || c == 46 || c == 101 || c == 69)

@[simp] theorem numEnd_comma (r : List Nat) : numEnd (44 :: r) = true := rfl
@[simp] theorem numEnd_rbrace (r : List Nat) : numEnd (125 :: r) = true := rfl
@[simp] theorem numEnd_rbracket (r : List Nat) : numEnd (93 :: r) = true := rfl
@[simp] theorem numEnd_nl (r : List Nat) : numEnd (10 :: r) = true := rfl
@[simp] theorem numEnd_blank (r : List Nat) : numEnd (32 :: r) = true := rfl

theorem stepCompleted_complete (v : JVal) (K : List Frame) (c : Nat) :
    stepCompleted (complete v K) c = step (complete v K) c := by
  unfold complete
  split <;> rfl

/-- a state in which a number may begin (`value`, or just after `-`) -/
structure NumStart (st : St) (neg : Bool) (K : List Frame) : Prop where
  digit : ∀ c, 49 ≤ c → c ≤ 57 → ∃ txt, step st c = ⟨.num neg (c - 48) txt .int, K⟩
  zero : ∃ txt, step st 48 = ⟨.num neg 0 txt .zero, K⟩

theorem numStart_value (b : Bool) (K : List Frame) : NumStart ⟨.value b, K⟩ false K where
  digit c h1 h2 := by
    refine ⟨[c], ?_⟩
    have hws : isWs c = false := by simp [isWs]; omega
    have h93 : ¬ (c = 93) := by omega
    have hsv : startValue K c = ⟨.num false (c - 48) [c] .int, K⟩ := by
      unfold startValue
      repeat (split; omega)
      rw [if_pos ⟨h1, h2⟩]
    simp [step, hws, h93, hsv]
  zero := ⟨[48], by simp [step, isWs, startValue]⟩

theorem numStart_minus (K : List Frame) : NumStart ⟨.num true 0 [45] .minus, K⟩ true K where
  digit c h1 h2 := by
    refine ⟨[c, 45], ?_⟩
    have : ¬ c = 48 := by omega
    simp [step, stepNum, this, h1, h2]
  zero := ⟨[48, 45], by simp [step, stepNum]⟩

@[simp] theorem step_num (neg : Bool) (val : Nat) (txt : Str) (ph : NumPhase) (K : List Frame) (c : Nat) :
    step ⟨.num neg val txt ph, K⟩ c = stepNum neg val txt ph K c := rfl

theorem run_natText_pos {st : St} {neg : Bool} {K : List Frame} (hst : NumStart st neg K) :
    ∀ m : Nat, 1 ≤ m → ∃ txt, ∀ r, run st (natText m ++ r) = run ⟨.num neg m txt .int, K⟩ r := by
  intro m
  induction m using Nat.strongRecOn with
  | _ m ih =>
    intro hm
    by_cases h : m < 10
    · obtain ⟨txt, ht⟩ := hst.digit (48 + m) (by omega) (by omega)
      refine ⟨txt, fun r => ?_⟩
      simp [natText_lt h, ht]
    · obtain ⟨txt, ht⟩ := ih (m / 10) (by omega) (by omega)
      refine ⟨(48 + m % 10) :: txt, fun r => ?_⟩
      rw [natText_ge (by omega), List.append_assoc, ht]
      have hd : isDigit (48 + m % 10) = true := by simp [isDigit]; omega
      have hv : m / 10 * 10 + m % 10 = m := by omega
      simp [stepNum, hd, hv]

theorem run_num_end (neg : Bool) (m : Nat) (txt : Str) (ph : NumPhase) (hph : ph = .int ∨ ph = .zero)
    (K : List Frame) (r : List Nat) (hr : numEnd r = true) :
    run ⟨.num neg m txt ph, K⟩ r = run (complete (.num (if neg then -(m : Int) else (m : Int))) K) r := by
  cases r with
  | nil => simp [numEnd] at hr
  | cons c r =>
    simp only [numEnd, Bool.not_eq_true', Bool.or_eq_false_iff, beq_eq_false_iff_ne, ne_eq] at hr
    obtain ⟨⟨⟨h1, h2⟩, h3⟩, h4⟩ := hr
    have hE : (decide (c = 101) || decide (c = 69)) = false := by simp [h3, h4]
    rcases hph with rfl | rfl <;>
      simp only [run_cons, step_num, stepNum, h1, h2, hE, numDone, stepCompleted_complete, if_false,
        Bool.false_eq_true]

/-- **`json.loads` reads back the text of an `int`** (followed by something that ends a number) -/
theorem run_intText (n : Int) (b : Bool) (K : List Frame) (r : List Nat) (hr : numEnd r = true) :
    run ⟨.value b, K⟩ (intText n ++ r) = run (complete (.num n) K) r := by
  cases n with
  | ofNat m =>
    simp only [intText]
    by_cases hm : m = 0
    · subst hm
      obtain ⟨txt, ht⟩ := (numStart_value b K).zero
      rw [natText_lt (by decide)]
      simp only [List.cons_append, List.nil_append, run_cons, Nat.add_zero, ht]
      rw [run_num_end _ _ _ _ (Or.inr rfl) _ _ hr]
      simp
    · obtain ⟨txt, ht⟩ := run_natText_pos (numStart_value b K) m (by omega)
      rw [ht, run_num_end _ _ _ _ (Or.inl rfl) _ _ hr]
      simp
  | negSucc m =>
    simp only [intText, List.cons_append, run_cons]
    have h45 : step ⟨.value b, K⟩ 45 = ⟨.num true 0 [45] .minus, K⟩ := by
      simp [step, isWs, startValue]
    obtain ⟨txt, ht⟩ := run_natText_pos (numStart_minus K) (m + 1) (by omega)
    rw [h45, ht, run_num_end _ _ _ _ (Or.inl rfl) _ _ hr]
    simp [Int.negSucc_eq]

end CL.Json
