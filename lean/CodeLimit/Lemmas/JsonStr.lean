import CodeLimit.Spec.Json
/-!
# `json.loads` reads back what `json.dumps` wrote for a string

`run_dumpsStr`: from a state that expects a value, the text `dumpsStr s` leads to the state in
which the value `.str s` is complete - for every Python string without a high surrogate
immediately followed by a low one.
-/
namespace CL.Json

@[simp] theorem run_nil (s : St) : run s [] = s := rfl
@[simp] theorem run_cons (s : St) (c : Nat) (cs : List Nat) : run s (c :: cs) = run (step s c) cs := rfl
theorem run_append (s : St) (a b : List Nat) : run s (a ++ b) = run (run s a) b := by
  simp [run, List.foldl_append]

@[simp] theorem step_error (c : Nat) : step St.error c = St.error := rfl

@[simp] theorem run_error (cs : List Nat) : run St.error cs = St.error := by
  induction cs with
  | nil => rfl
  | cons c cs ih => simp [ih]

theorem hexVal_hexDigit (n : Nat) (h : n < 16) : hexVal (hexDigit n) = some n := by
  revert n; decide

theorem hex4 (u : Nat) (h : u < 65536) :
    ((u / 4096 % 16 * 16 + u / 256 % 16) * 16 + u / 16 % 16) * 16 + u % 16 = u := by omega

@[simp] theorem step_str (k : Bool) (acc : Str) (ss : SState) (K : List Frame) (c : Nat) :
    step ⟨.str k acc ss, K⟩ c = stepStr k acc ss K c := rfl

/-- a `\uXXXX` escape read in the plain state -/
theorem run_uEsc_plain (k : Bool) (acc : Str) (K : List Frame) (u : Nat) (hu : u < 65536) (r : List Nat) :
    run ⟨.str k acc .plain, K⟩ (uEsc u ++ r) = run (afterU k acc K u) r := by
  have h1 := hexVal_hexDigit (u / 4096 % 16) (Nat.mod_lt _ (by decide))
  have h2 := hexVal_hexDigit (u / 256 % 16) (Nat.mod_lt _ (by decide))
  have h3 := hexVal_hexDigit (u / 16 % 16) (Nat.mod_lt _ (by decide))
  have h4 := hexVal_hexDigit (u % 16) (Nat.mod_lt _ (by decide))
  simp [uEsc, stepStr, stepPlain, stepEsc, h1, h2, h3, h4, hex4 u hu]

/-- a `\uXXXX` escape read just after an escaped high surrogate -/
theorem run_uEsc_hi (k : Bool) (acc : Str) (K : List Frame) (h u : Nat) (hu : u < 65536) (r : List Nat) :
    run ⟨.str k acc (.hi h), K⟩ (uEsc u ++ r) =
      run (if isLow u then ⟨.str k (joinSurrogates h u :: acc) .plain, K⟩ else afterU k (h :: acc) K u) r := by
  have h1 := hexVal_hexDigit (u / 4096 % 16) (Nat.mod_lt _ (by decide))
  have h2 := hexVal_hexDigit (u / 256 % 16) (Nat.mod_lt _ (by decide))
  have h3 := hexVal_hexDigit (u / 16 % 16) (Nat.mod_lt _ (by decide))
  have h4 := hexVal_hexDigit (u % 16) (Nat.mod_lt _ (by decide))
  simp [uEsc, stepStr, h1, h2, h3, h4, hex4 u hu]

theorem afterU_not_high (k : Bool) (acc : Str) (K : List Frame) (c : Nat) (h : isHigh c = false) :
    afterU k acc K c = ⟨.str k (c :: acc) .plain, K⟩ := by simp [afterU, h]

/-- the escape of one code point, read in the plain state -/
theorem run_escCp_plain (k : Bool) (acc : Str) (K : List Frame) (c : Nat) (hc : c < 1114112) (r : List Nat) :
    run ⟨.str k acc .plain, K⟩ (escCp c ++ r) = run (afterU k acc K c) r := by
  unfold escCp
  split
  · subst_vars; simp [stepStr, stepPlain, stepEsc, simpleEsc, afterU, isHigh]
  split
  · subst_vars; simp [stepStr, stepPlain, stepEsc, simpleEsc, afterU, isHigh]
  split
  · subst_vars; simp [stepStr, stepPlain, stepEsc, simpleEsc, afterU, isHigh]
  split
  · subst_vars; simp [stepStr, stepPlain, stepEsc, simpleEsc, afterU, isHigh]
  split
  · subst_vars; simp [stepStr, stepPlain, stepEsc, simpleEsc, afterU, isHigh]
  split
  · subst_vars; simp [stepStr, stepPlain, stepEsc, simpleEsc, afterU, isHigh]
  split
  · subst_vars; simp [stepStr, stepPlain, stepEsc, simpleEsc, afterU, isHigh]
  split
  · next h1 h2 _ _ _ _ _ h =>
    have : isHigh c = false := by simp [isHigh]; omega
    have h32 : ¬ c < 32 := by omega
    simp [stepStr, stepPlain, afterU, this, h1, h2, h32]
  split
  · next hge =>
    have hH : 55296 + (c - 65536) / 1024 % 1024 < 65536 := by omega
    have hL : 56320 + (c - 65536) % 1024 < 65536 := by omega
    have hiH : isHigh (55296 + (c - 65536) / 1024 % 1024) = true := by simp [isHigh]; omega
    have loL : isLow (56320 + (c - 65536) % 1024) = true := by simp [isLow]; omega
    have hj : joinSurrogates (55296 + (c - 65536) / 1024 % 1024) (56320 + (c - 65536) % 1024) = c := by
      unfold joinSurrogates; omega
    have hnot : isHigh c = false := by simp [isHigh]; omega
    rw [List.append_assoc, run_uEsc_plain _ _ _ _ hH]
    simp only [afterU, hiH, if_true]
    rw [run_uEsc_hi _ _ _ _ _ hL]
    simp [loL, hj, hnot]
  · next hlt =>
    exact run_uEsc_plain _ _ _ _ (by omega) _

/-- the escape of one code point that is not a low surrogate, read just after an escaped high
surrogate: the high surrogate stays alone -/
theorem run_escCp_hi (k : Bool) (acc : Str) (K : List Frame) (h c : Nat) (hc : c < 1114112)
    (hlow : isLow c = false) (r : List Nat) :
    run ⟨.str k acc (.hi h), K⟩ (escCp c ++ r) = run (afterU k (h :: acc) K c) r := by
  unfold escCp
  split
  · subst_vars; simp [stepStr, stepEsc, simpleEsc, afterU, isHigh]
  split
  · subst_vars; simp [stepStr, stepEsc, simpleEsc, afterU, isHigh]
  split
  · subst_vars; simp [stepStr, stepEsc, simpleEsc, afterU, isHigh]
  split
  · subst_vars; simp [stepStr, stepEsc, simpleEsc, afterU, isHigh]
  split
  · subst_vars; simp [stepStr, stepEsc, simpleEsc, afterU, isHigh]
  split
  · subst_vars; simp [stepStr, stepEsc, simpleEsc, afterU, isHigh]
  split
  · subst_vars; simp [stepStr, stepEsc, simpleEsc, afterU, isHigh]
  split
  · next h1 h2 _ _ _ _ _ hh =>
    have : isHigh c = false := by simp [isHigh]; omega
    have h32 : ¬ c < 32 := by omega
    simp [stepStr, stepPlain, afterU, this, h1, h2, h32]
  split
  · next hge =>
    have hH : 55296 + (c - 65536) / 1024 % 1024 < 65536 := by omega
    have hL : 56320 + (c - 65536) % 1024 < 65536 := by omega
    have hiH : isHigh (55296 + (c - 65536) / 1024 % 1024) = true := by simp [isHigh]; omega
    have loH : isLow (55296 + (c - 65536) / 1024 % 1024) = false := by simp [isLow]; omega
    have loL : isLow (56320 + (c - 65536) % 1024) = true := by simp [isLow]; omega
    have hj : joinSurrogates (55296 + (c - 65536) / 1024 % 1024) (56320 + (c - 65536) % 1024) = c := by
      unfold joinSurrogates; omega
    have hnot : isHigh c = false := by simp [isHigh]; omega
    rw [List.append_assoc, run_uEsc_hi _ _ _ _ _ hH]
    simp only [loH, afterU, hiH, if_true, Bool.false_eq_true, if_false]
    rw [run_uEsc_hi _ _ _ _ _ hL]
    simp [loL, hj, hnot]
  · next hlt =>
    rw [run_uEsc_hi _ _ _ _ _ (by omega)]
    simp [hlow]

/-- the body of a dumped string followed by the closing quote -/
theorem run_strBody (k : Bool) (K : List Frame) (r : List Nat) :
    ∀ (s : Str), GoodStr s → ∀ acc : Str,
      run ⟨.str k acc .plain, K⟩ (strBody s ++ 34 :: r) = run (completeStr k (acc.reverse ++ s) K) r := by
  intro s
  induction s with
  | nil => intro _ acc; simp [strBody, stepStr, stepPlain]
  | cons c t ih =>
    intro hs acc
    have hc := hs.head
    have ht := hs.tail
    simp only [strBody, List.flatMap_cons, List.append_assoc]
    rw [run_escCp_plain _ _ _ _ hc]
    cases hh : isHigh c with
    | false =>
      rw [afterU_not_high _ _ _ _ hh]
      have := ih ht (c :: acc)
      simpa [strBody] using this
    | true =>
      simp only [afterU, hh, if_true]
      cases t with
      | nil => simp [stepStr, stepPlain]
      | cons c2 t2 =>
        have hlow : isLow c2 = false := by
          have := hs.2.1
          simp only [hh, true_and] at this
          simpa using this
        simp only [List.flatMap_cons, List.append_assoc]
        rw [run_escCp_hi _ _ _ _ _ ht.head hlow, ← run_escCp_plain _ _ _ _ ht.head]
        have := ih ht (c :: acc)
        simpa [strBody] using this

/-- **`json.loads` reads back a dumped string**, as a value -/
theorem run_dumpsStr (s : Str) (hs : GoodStr s) (b : Bool) (K : List Frame) (r : List Nat) :
    run ⟨.value b, K⟩ (dumpsStr s ++ r) = run (complete (.str s) K) r := by
  have := run_strBody false K r s hs []
  simp only [dumpsStr, List.cons_append, List.append_assoc, run_cons]
  simpa [step, isWs, startValue, completeStr] using this

/-- ... and as a property name -/
theorem run_dumpsStr_key (s : Str) (hs : GoodStr s) (b : Bool) (acc : List (Str × JVal)) (K : List Frame) (r : List Nat) :
    run ⟨.key b, .obj acc none :: K⟩ (dumpsStr s ++ r) = run ⟨.colon, .obj acc (some s) :: K⟩ r := by
  have := run_strBody true (.obj acc none :: K) r s hs []
  simp only [dumpsStr, List.cons_append, List.append_assoc, run_cons]
  simpa [step, isWs, completeStr] using this

end CL.Json
