import CodeLimit.Spec.ProgTree
/-!
# Program trees: forests (`Prog`) and lists of rose-tree nodes (`List Node`) are the same thing
-/
namespace CL

theorem Prog.ofNodes_toNodes {α : Type} : ∀ (p : Prog α), Prog.ofNodes p.toNodes = p
  | .nil => by simp [Prog.toNodes, Prog.ofNodes]
  | .leaf t rest => by simp [Prog.toNodes, Prog.ofNodes, Node.toProg, ofNodes_toNodes rest]
  | .group op cl items rest => by
    simp [Prog.toNodes, Prog.ofNodes, Node.toProg, ofNodes_toNodes rest, ofNodes_toNodes items]
  | .fn hdr k gap op cl body rest => by
    simp [Prog.toNodes, Prog.ofNodes, Node.toProg, ofNodes_toNodes rest, ofNodes_toNodes hdr,
      ofNodes_toNodes body]

mutual
theorem Node.toNodes_toProg {α : Type} : ∀ (n : Node α) (rest : Prog α),
    (n.toProg rest).toNodes = n :: rest.toNodes
  | .leaf t, rest => by simp [Node.toProg, Prog.toNodes]
  | .group op cl items, rest => by
    simp [Node.toProg, Prog.toNodes, Prog.toNodes_ofNodes items]
  | .fn hdr k gap op cl body, rest => by
    simp [Node.toProg, Prog.toNodes, Prog.toNodes_ofNodes hdr, Prog.toNodes_ofNodes body]
theorem Prog.toNodes_ofNodes {α : Type} : ∀ (ns : List (Node α)), (Prog.ofNodes ns).toNodes = ns
  | [] => by simp [Prog.ofNodes, Prog.toNodes]
  | n :: ns => by
    simp [Prog.ofNodes, Node.toNodes_toProg n, Prog.toNodes_ofNodes ns]
end

end CL
