import CodeLimit.Lemmas.ProgTreeBasic
import CodeLimit.Lemmas.LayoutBlocks
/-!
# Program trees: `get_blocks` finds exactly the blocks of the tree

The bracket matcher of `get_blocks` (`balancedPairs`) run over the token sequence of a
well-formed forest reports exactly the braces of its groups and function bodies (in the order of
their closing braces); sorted by location these are `blocksOf` (preorder).
-/
namespace CL

theorem Tok.isSymbol_close_not_open {t : Tok} (h : t.isSymbol [125] = true) :
    t.isSymbol [123] = false := by
  simp only [Tok.isSymbol, Bool.and_eq_true, beq_iff_eq] at h
  simp [Tok.isSymbol, h.2]

theorem Tok.isSymbol_open_not_close {t : Tok} (h : t.isSymbol [123] = true) :
    t.isSymbol [125] = false := by
  simp only [Tok.isSymbol, Bool.and_eq_true, beq_iff_eq] at h
  simp [Tok.isSymbol, h.2]

theorem Tok.noBrace_iff {t : Tok} :
    t.noBrace = true ↔ t.isSymbol [123] = false ∧ t.isSymbol [125] = false := by
  simp [Tok.noBrace]

theorem bp_open {t : Tok} (h : t.isSymbol [123] = true) (ts : List Tok) (i : Nat) (st : List Nat) :
    balancedPairs [123] [125] (t :: ts) i st = balancedPairs [123] [125] ts (i + 1) (i :: st) := by
  simp [balancedPairs, h]

theorem bp_close {t : Tok} (h : t.isSymbol [125] = true) (ts : List Tok) (i s : Nat)
    (st : List Nat) :
    balancedPairs [123] [125] (t :: ts) i (s :: st)
      = (s, i) :: balancedPairs [123] [125] ts (i + 1) st := by
  simp [balancedPairs, Tok.isSymbol_close_not_open h, h]

theorem bp_other {t : Tok} (h : t.noBrace = true) (ts : List Tok) (i : Nat) (st : List Nat) :
    balancedPairs [123] [125] (t :: ts) i st = balancedPairs [123] [125] ts (i + 1) st := by
  obtain ⟨h1, h2⟩ := Tok.noBrace_iff.mp h
  simp [balancedPairs, h1, h2]

theorem bp_gap : ∀ (gap : List Tok), gap.all Tok.noBrace = true →
    ∀ (more : List Tok) (i : Nat) (st : List Nat),
    balancedPairs [123] [125] (gap ++ more) i st
      = balancedPairs [123] [125] more (i + gap.length) st
  | [], _, _, _, _ => rfl
  | t :: gap, h, more, i, st => by
    simp only [List.all_cons, Bool.and_eq_true] at h
    rw [List.cons_append, bp_other h.1, bp_gap gap h.2, List.length_cons]
    congr 1; omega

/-- the (opening, closing) brace indices of a forest in the order of the closing braces -/
def pairsOf {α : Type} : Prog α → Nat → List (Nat × Nat)
  | .nil, _ => []
  | .leaf _ rest, i => pairsOf rest (i + 1)
  | .group _ _ items rest, i =>
    pairsOf items (i + 1) ++ (i, i + items.size + 1) :: pairsOf rest (i + items.size + 2)
  | .fn hdr _ gap _ _ body rest, i =>
    pairsOf hdr i ++ (pairsOf body (i + hdr.size + gap.length + 1)
      ++ (i + hdr.size + gap.length, i + hdr.size + gap.length + body.size + 1)
        :: pairsOf rest (i + hdr.size + gap.length + body.size + 2))

/-- **the bracket matcher on a well-formed forest**: it reports the braces of the forest and
continues behind it with the same stack -/
theorem balancedPairs_prog_core : ∀ (p : Prog Tok), p.wfCore = true →
    ∀ (more : List Tok) (i : Nat) (st : List Nat),
    balancedPairs [123] [125] (p.flat ++ more) i st
      = pairsOf p i ++ balancedPairs [123] [125] more (i + p.size) st
  | .nil, _, _, _, _ => rfl
  | .leaf t rest, h, more, i, st => by
    simp only [Prog.wfCore, Bool.and_eq_true] at h
    simp only [Prog.flat, List.cons_append, pairsOf, Prog.size]
    rw [bp_other h.1, balancedPairs_prog_core rest h.2]
    congr 2; omega
  | .group op cl items rest, h, more, i, st => by
    simp only [Prog.wfCore, Bool.and_eq_true] at h
    obtain ⟨⟨⟨hop, hcl⟩, hwi⟩, hwr⟩ := h
    simp only [Prog.flat, List.cons_append, List.append_assoc, pairsOf, Prog.size]
    rw [bp_open hop, balancedPairs_prog_core items hwi, bp_close hcl, balancedPairs_prog_core rest hwr]
    rw [show i + 1 + items.size = i + items.size + 1 by omega,
      show i + items.size + 1 + 1 = i + items.size + 2 by omega,
      show i + items.size + 2 + rest.size = i + (items.size + rest.size + 2) by omega]
  | .fn hdr k gap op cl body rest, h, more, i, st => by
    simp only [Prog.wfCore, Bool.and_eq_true, decide_eq_true_eq] at h
    obtain ⟨⟨⟨⟨⟨⟨⟨⟨⟨hsl, hnf⟩, hwh⟩, hk⟩, hnm⟩, hgap⟩, hop⟩, hcl⟩, hwb⟩, hwr⟩ := h
    simp only [Prog.flat, List.cons_append, List.append_assoc, pairsOf, Prog.size]
    rw [balancedPairs_prog_core hdr hwh, bp_gap gap hgap, bp_open hop, balancedPairs_prog_core body hwb,
      bp_close hcl, balancedPairs_prog_core rest hwr]
    rw [show i + hdr.size + gap.length + 1 + body.size = i + hdr.size + gap.length + body.size + 1
        by omega,
      show i + hdr.size + gap.length + body.size + 1 + 1 = i + hdr.size + gap.length + body.size + 2
        by omega,
      show i + hdr.size + gap.length + body.size + 2 + rest.size
        = i + (hdr.size + gap.length + body.size + rest.size + 2) by omega]

theorem pairsOf_perm {α : Type} : ∀ (p : Prog α) (i : Nat),
    ((pairsOf p i).map (fun q => (⟨q.1, q.2 + 1⟩ : Range))).Perm (blocksOf p i)
  | .nil, _ => .nil
  | .leaf _ rest, i => pairsOf_perm rest (i + 1)
  | .group _ _ items rest, i => by
    simp only [pairsOf, blocksOf, List.map_append, List.map_cons]
    exact List.perm_middle.trans
      (((pairsOf_perm items (i + 1)).append (pairsOf_perm rest (i + items.size + 2))).cons _)
  | .fn hdr _ gap _ _ body rest, i => by
    simp only [pairsOf, blocksOf, List.map_append, List.map_cons]
    refine (pairsOf_perm hdr i).append ?_
    exact List.perm_middle.trans
      (((pairsOf_perm body _).append (pairsOf_perm rest _)).cons _)

/-- the blocks of a well-formed forest are listed strictly by their first token -/
theorem blocksOf_sorted_core (p : Prog Tok) (h : p.wfCore = true) (i : Nat) :
    (blocksOf p i).Pairwise (fun a b => a.s < b.s) := (tinv_of_wfCore p i h).bs

/-- **`get_blocks` on the token sequence of a well-formed forest** (token locations strictly
increasing) returns exactly the blocks of the forest, in source order -/
theorem getBlocks_prog_core {p : Prog Tok} (h : p.wfCore = true) (hpos : PosSorted p.flat) :
    getBlocks p.flat = .ok p.blocks := by
  unfold getBlocks
  have hbp := balancedPairs_prog_core p h [] 0 []
  rw [List.append_nil] at hbp
  rw [hbp]
  simp only [balancedPairs, List.append_nil]
  refine sortAsc_eq_of_perm hpos (pairsOf_perm p 0).symm (blocksOf_sorted_core p h 0) ?_
  intro b hb
  have hb' := (pairsOf_perm p 0).mem_iff.mp hb
  have := blocksOf_bounds p 0 b hb'
  rw [Prog.size_eq]
  omega

/-! ## the same for `wf` forests (corollaries; `noAdj` is not needed for the blocks) -/

theorem balancedPairs_prog (p : Prog Tok) (h : p.wf = true) (more : List Tok) (i : Nat)
    (st : List Nat) :
    balancedPairs [123] [125] (p.flat ++ more) i st
      = pairsOf p i ++ balancedPairs [123] [125] more (i + p.size) st :=
  balancedPairs_prog_core p ((Prog.wf_iff p).mp h).1 more i st

theorem blocksOf_sorted (p : Prog Tok) (h : p.wf = true) (i : Nat) :
    (blocksOf p i).Pairwise (fun a b => a.s < b.s) := blocksOf_sorted_core p ((Prog.wf_iff p).mp h).1 i

theorem getBlocks_prog {p : Prog Tok} (h : p.wf = true) (hpos : PosSorted p.flat) :
    getBlocks p.flat = .ok p.blocks := getBlocks_prog_core ((Prog.wf_iff p).mp h).1 hpos

end CL
