import CodeLimit.Lemmas.Lex
import CodeLimit.Lemmas.ScanBoundsWF
import CodeLimit.Lemmas.FindAll
import CodeLimit.Lemmas.Headers
import CodeLimit.Lemmas.ScanEval
/-!
# Helper lemmas for the text-level compositions (`Props/C05text.lean`, `Props/C01disc.lean`)

Part 1: lines of a text (`splitLines`) against offsets (`lineOf` / `colOf`), where a token ends
(`Tok.endPos`) in terms of offsets, the code tokens of a lexed text as placed raw tokens.

Part 2: `find_all` - a reported match is exactly a greedy match that is not pre-empted; the
follow-up filter and the name extraction of `get_headers` keep exactly the matches that pass the
follow-up test.
-/
namespace CL.Compose

/-! ## Part 1a. vocabulary -/

/-- number of lines of a text = `len(code.split("\n"))`: one more than the number of newline
characters (`numLines_eq_splitLines`) -/
def numLines (code : Str) : Nat := 1 + code.count 10

/-- a raw lexer token that is neither whitespace (`Text`/`Whitespace` type, empty or blank) nor a
comment: what `filter_tokens(keep_whitespace=False, keep_comments=False)` keeps -/
def isCodeRaw (r : RawTok) : Bool :=
  !(r.kind == 6 && (r.val.isEmpty || strIsSpace r.val)) && !(r.kind == 5)

/-- the code raw tokens of a lexer output, in order -/
def codeRaw (raw : List RawTok) : List RawTok := raw.filter isCodeRaw

theorem keepTok_tokAt (code : Str) (r : RawTok) : keepTok false (tokAt code r) = isCodeRaw r := by
  simp only [keepTok, tokAt, Tok.isWhitespace, Tok.isComment, isCodeRaw]
  by_cases h1 : (r.kind == 6 && (r.val.isEmpty || strIsSpace r.val)) = true
  · simp [h1]
  · by_cases h2 : (r.kind == 5) = true
    · simp [h1, h2]
    · simp [h1, h2]

/-- the text after the last newline of `s` -/
def lastLine (s : Str) : Str := (s.reverse.takeWhile (· ≠ 10)).reverse

theorem lastLine_length (s : Str) : (lastLine s).length = lastLineLen s := by
  simp [lastLine, lastLineLen]

/-! ## Part 1b. `lastLineLen`, `lastLineInfo` -/

theorem lastLineLen_append (a v : Str) :
    lastLineLen (a ++ v) = if 10 ∈ v then lastLineLen v else lastLineLen a + v.length := by
  induction v using List.reverseRecOn with
  | nil => simp
  | append_singleton v c ih =>
    rw [← List.append_assoc, lastLineLen_snoc, lastLineLen_snoc, ih]
    by_cases hc : c = 10
    · simp [hc]
    · have : ¬ (10 = c) := fun e => hc e.symm
      by_cases hm : 10 ∈ v <;> simp [hc, hm, this]; omega

theorem lastLineInfo_snoc (v : Str) (c : Nat) :
    lastLineInfo (v ++ [c]) =
      if c = 10 then ((lastLineInfo v).1 + 1, 0) else ((lastLineInfo v).1, (lastLineInfo v).2 + 1) := by
  simp only [lastLineInfo, List.foldl_append, List.foldl_cons, List.foldl_nil]

/-- `lastLineInfo` = (number of newlines, number of characters after the last one) -/
theorem lastLineInfo_eq (v : Str) : lastLineInfo v = (v.count 10, lastLineLen v) := by
  induction v using List.reverseRecOn with
  | nil => rfl
  | append_singleton v c ih =>
    rw [lastLineInfo_snoc, ih, lastLineLen_snoc, List.count_append]
    by_cases hc : c = 10
    · simp [hc]
    · simp [hc]

/-! ## Part 1c. where a token ends, in offsets -/

theorem take_add_eq (code : Str) (o n : Nat) :
    code.take (o + n) = code.take o ++ (code.drop o).take n := List.take_add

/-- a placed raw token whose value is the text at its offset ends at the line and column of the
offset just past it -/
theorem endPos_tokAt (code : Str) (r : RawTok)
    (htext : (code.drop r.off).take r.val.length = r.val) :
    (tokAt code r).endPos =
      (lineOf code (r.off + r.val.length), colOf code (r.off + r.val.length)) := by
  unfold Tok.endPos
  simp only [tokAt, lastLineInfo_eq]
  have hl : lineOf code (r.off + r.val.length) = lineOf code r.off + r.val.count 10 := by
    simp only [lineOf, take_add_eq, htext, List.count_append]; omega
  have hc : colOf code (r.off + r.val.length) =
      (if 10 ∈ r.val then lastLineLen r.val else lastLineLen (code.take r.off) + r.val.length) + 1 := by
    rw [colOf_eq', take_add_eq, htext, lastLineLen_append]
  rw [hl, hc]
  by_cases hm : 10 ∈ r.val
  · have : r.val.count 10 ≠ 0 := by
      have := List.count_pos_iff.2 hm; omega
    simp [hm, this]
  · have : r.val.count 10 = 0 := List.count_eq_zero.2 hm
    simp [hm, this, colOf_eq']; omega

theorem lineOf_le_numLines (code : Str) (o : Nat) : lineOf code o ≤ numLines code := by
  unfold lineOf numLines
  have : (code.take o).count 10 ≤ code.count 10 := (List.take_sublist o code).count_le 10
  omega

/-! ## Part 1d. the lines of a text -/

theorem splitLines_length (code : Str) : (splitLines code).length = numLines code := by
  induction code with
  | nil => rfl
  | cons c cs ih =>
    unfold splitLines
    cases hs : splitLines cs with
    | nil => exact absurd hs (splitLines_ne_nil cs)
    | cons l ls =>
      rw [hs] at ih
      simp only [numLines, List.length_cons] at ih ⊢
      by_cases hc : c = 10
      · subst hc; simp; omega
      · simp [hc, List.count_cons_of_ne hc]; omega

theorem lastLine_nil : lastLine [] = [] := rfl

theorem takeWhile_snoc (p : Nat → Bool) (l : List Nat) (c : Nat) :
    (l ++ [c]).takeWhile p =
      if (∀ a ∈ l, p a = true) ∧ p c = true then l.takeWhile p ++ [c] else l.takeWhile p := by
  induction l with
  | nil => cases h : p c <;> simp [h]
  | cons a l ih =>
    cases h : p a
    · simp [h]
    · simp only [List.cons_append, List.takeWhile_cons, h, if_true, ih]
      simp only [List.mem_cons, forall_eq_or_imp, h, true_and]
      split <;> rfl

theorem lastLine_cons (c : Nat) (s : Str) :
    lastLine (c :: s) = if c ≠ 10 ∧ 10 ∉ s then c :: lastLine s else lastLine s := by
  unfold lastLine
  rw [List.reverse_cons, takeWhile_snoc]
  by_cases h1 : c = 10 <;> by_cases h2 : 10 ∈ s <;> simp [h1, h2]

/-- the line on which offset `o` lies (line number = number of newlines before `o`) consists of
the characters between the last newline before `o` and `o`, followed by the characters from `o`
up to the next newline -/
theorem splitLines_line (code : Str) : ∀ o, o ≤ code.length →
    (splitLines code)[(code.take o).count 10]? =
      some (lastLine (code.take o) ++ (code.drop o).takeWhile (· ≠ 10)) := by
  induction code with
  | nil =>
    intro o _
    simp [splitLines, lastLine]
  | cons c cs ih =>
    intro o ho
    have ih0 := ih 0 (Nat.zero_le _)
    simp only [List.take_zero, List.count_nil, lastLine_nil, List.nil_append, List.drop_zero] at ih0
    cases hs : splitLines cs with
    | nil => exact absurd hs (splitLines_ne_nil cs)
    | cons l ls =>
      rw [hs] at ih0
      simp only [List.getElem?_cons_zero, Option.some.injEq] at ih0
      cases o with
      | zero =>
        simp only [List.take_zero, List.count_nil, lastLine_nil, List.nil_append, List.drop_zero]
        unfold splitLines
        rw [hs]
        by_cases hc : c = 10
        · subst hc; simp
        · simp [hc, ih0]
      | succ o =>
        have ho' : o ≤ cs.length := by simpa using ho
        have ih' := ih o ho'
        rw [hs] at ih'
        rw [List.take_succ_cons, List.drop_succ_cons, lastLine_cons]
        unfold splitLines
        rw [hs]
        by_cases hc : c = 10
        · subst hc
          simp only [if_true, List.count_cons_self, ne_eq, not_true, false_and, if_false]
          rw [List.getElem?_cons_succ]
          exact ih'
        · rw [List.count_cons_of_ne hc]
          simp only [hc, if_false, ne_eq, not_false_iff, true_and]
          by_cases hm : 10 ∈ cs.take o
          · have hpos : 0 < (cs.take o).count 10 := List.count_pos_iff.2 hm
            obtain ⟨n, hn⟩ : ∃ n, (cs.take o).count 10 = n + 1 :=
              ⟨_, (Nat.succ_pred_eq_of_pos hpos).symm⟩
            rw [hn] at ih' ⊢
            simp only [List.getElem?_cons_succ, hm, not_true, if_false] at ih' ⊢
            exact ih'
          · have h0 : (cs.take o).count 10 = 0 := List.count_eq_zero.2 hm
            rw [h0] at ih' ⊢
            simp only [List.getElem?_cons_zero, hm, not_false_iff, if_true, Option.some.injEq,
              List.cons_append] at ih' ⊢
            rw [ih']

/-- length of the line on which offset `o` lies -/
theorem splitLines_line_length (code : Str) (o : Nat) (ho : o ≤ code.length) :
    ∃ ln, (splitLines code)[lineOf code o - 1]? = some ln ∧
      ln.length = (colOf code o - 1) + ((code.drop o).takeWhile (· ≠ 10)).length := by
  refine ⟨lastLine (code.take o) ++ (code.drop o).takeWhile (· ≠ 10), ?_, ?_⟩
  · have := splitLines_line code o ho
    simpa [lineOf] using this
  · simp [colOf_eq', lastLine_length]

/-- where the column of offset `o` points inside its line: columns are 1-based, at most one past
the end of the line, and when the character at `o` is not a newline the column is the position
of that very character in the line -/
theorem col_in_line (code : Str) (o : Nat) (ho : o ≤ code.length) :
    ∃ ln, (splitLines code)[lineOf code o - 1]? = some ln ∧
      1 ≤ colOf code o ∧ colOf code o ≤ ln.length + 1 ∧
      (∀ c, code[o]? = some c → c ≠ 10 →
        colOf code o ≤ ln.length ∧ ln[colOf code o - 1]? = some c) ∧
      (∀ c, code[o]? = some c → c = 10 → colOf code o = ln.length + 1) ∧
      (o = code.length → colOf code o = ln.length + 1) := by
  refine ⟨lastLine (code.take o) ++ (code.drop o).takeWhile (· ≠ 10), ?_, ?_, ?_, ?_, ?_, ?_⟩
  · have := splitLines_line code o ho
    simpa [lineOf] using this
  · simp [colOf]
  · simp [colOf_eq', lastLine_length]
  · intro c hc hne
    have hd : code.drop o = c :: code.drop (o + 1) := by
      obtain ⟨hlt, hget⟩ := List.getElem?_eq_some_iff.1 hc
      rw [← hget]; exact List.drop_eq_getElem_cons hlt
    have htw : (code.drop o).takeWhile (· ≠ 10) = c :: (code.drop (o + 1)).takeWhile (· ≠ 10) := by
      rw [hd]; simp [hne]
    rw [htw]
    constructor
    · simp [colOf_eq', lastLine_length]
    · rw [colOf_eq', Nat.add_sub_cancel, ← lastLine_length,
        List.getElem?_append_right (Nat.le_refl _)]
      simp
  · intro c hc he
    have hd : code.drop o = c :: code.drop (o + 1) := by
      obtain ⟨hlt, hget⟩ := List.getElem?_eq_some_iff.1 hc
      rw [← hget]; exact List.drop_eq_getElem_cons hlt
    rw [hd]; simp [he, colOf_eq', lastLine_length]
  · intro he
    subst he
    simp [colOf_eq', lastLine_length]

/-! ## Part 1e. a span of a list sorted by a key -/

theorem drop_take_eq_filter {α : Type} (f : α → Nat) (l : List α)
    (hs : l.Pairwise (fun a b => f a < f b)) {i j : Nat} {a b : α}
    (hi : l[i]? = some a) (hj : l[j]? = some b) (hij : i ≤ j) :
    (l.drop i).take (j + 1 - i) = l.filter (fun x => decide (f a ≤ f x ∧ f x ≤ f b)) := by
  obtain ⟨hil, hia⟩ := List.getElem?_eq_some_iff.1 hi
  obtain ⟨hjl, hjb⟩ := List.getElem?_eq_some_iff.1 hj
  have hp := List.pairwise_iff_getElem.1 hs
  have hmono : ∀ k k' (hk : k < l.length) (hk' : k' < l.length), k ≤ k' → f l[k] ≤ f l[k'] := by
    intro k k' hk hk' hle
    rcases Nat.lt_or_eq_of_le hle with h | h
    · exact Nat.le_of_lt (hp k k' hk hk' h)
    · subst h; exact Nat.le_refl _
  have e : l = l.take i ++ ((l.drop i).take (j + 1 - i) ++ l.drop (j + 1)) := by
    have h1 : (l.drop i).drop (j + 1 - i) = l.drop (j + 1) := by
      rw [List.drop_drop]; congr 1; omega
    rw [← h1, List.take_append_drop, List.take_append_drop]
  have hfirst : (l.take i).filter (fun x => decide (f a ≤ f x ∧ f x ≤ f b)) = [] := by
    rw [List.filter_eq_nil_iff]
    intro x hx
    obtain ⟨k, hk, rfl⟩ := List.mem_take_iff_getElem.1 hx
    have hk' : k < i := by omega
    have := hp k i (by omega) hil hk'
    rw [hia] at this
    simp only [decide_eq_true_eq]; omega
  have hlast : (l.drop (j + 1)).filter (fun x => decide (f a ≤ f x ∧ f x ≤ f b)) = [] := by
    rw [List.filter_eq_nil_iff]
    intro x hx
    obtain ⟨k, hk, rfl⟩ := List.mem_drop_iff_getElem.1 hx
    have := hp j (j + 1 + k) hjl (by omega) (by omega)
    rw [hjb] at this
    simp only [decide_eq_true_eq]; omega
  have hmid : ((l.drop i).take (j + 1 - i)).filter (fun x => decide (f a ≤ f x ∧ f x ≤ f b)) =
      (l.drop i).take (j + 1 - i) := by
    rw [List.filter_eq_self]
    intro x hx
    obtain ⟨k, hk, rfl⟩ := List.mem_take_iff_getElem.1 hx
    rw [List.length_drop] at hk
    have hk1 : k < j + 1 - i := by omega
    have hk2 : i + k < l.length := by omega
    rw [List.getElem_drop]
    have h1 := hmono i (i + k) hil hk2 (by omega)
    have h2 := hmono (i + k) j hk2 hjl (by omega)
    rw [hia] at h1; rw [hjb] at h2
    simp only [decide_eq_true_eq]; exact ⟨h1, h2⟩
  conv => rhs; rw [e]
  rw [List.filter_append, List.filter_append, hfirst, hlast, hmid]
  simp

/-! ## Part 1f. evaluating `analyze` on a concrete text -/

/-- evaluate `analyze` on a concrete text through the kernel-evaluable copy of `scanFile` -/
theorem analyze_eval {L : Language} {code : Str} {raw : List RawTok} {ms : List Measurement}
    {n : Nat} (h : okEq (scanFileK L (lex code raw false)) ms = true)
    (hn : (ms.map (·.len)).foldl (· + ·) 0 = n) : analyze L code raw = .ok (ms, n) := by
  unfold analyze
  rw [scanFile_eval h, ← hn]

/-! ## Part 2a. `find_all`: reported = greedy and not pre-empted -/

section findall
variable {β σ : Type} {A : Machine β σ} {xs : List β} {ms : List (Match β)}

/-- the greedy finish is determined by the start -/
theorem greedy_finish_unique (hds : DeadStuck A) {p f f' : Nat} (h1 : GreedyAt A xs p f)
    (h2 : GreedyAt A xs p f') : f = f' := by
  obtain ⟨_, hl1, q1, hr1, _⟩ := id h1
  obtain ⟨_, hl2, q2, hr2, _⟩ := id h2
  have a := greedy_alive_le hds h1 hl2 hr2
  have b := greedy_alive_le hds h2 hl1 hr1
  omega

/-- the candidate `(p, f)` is pre-empted by a reported match: some reported match either starts
before `p`, covers `p` and finishes no later than `f`, or starts after `p` and finishes strictly
before `f` (the situation of known finding KF1) -/
def Preempted (ms : List (Match β)) (p f : Nat) : Prop :=
  ∃ m ∈ ms, (m.s < p ∧ p < m.e ∧ m.e ≤ f) ∨ (p < m.s ∧ m.e < f)

instance (ms : List (Match β)) (p f : Nat) : Decidable (Preempted ms p f) := by
  unfold Preempted; infer_instance

/-- two reported matches are equal or disjoint -/
theorem reported_disjoint (hpw : ms.Pairwise (fun m m' => m.e ≤ m'.s)) :
    ∀ m ∈ ms, ∀ m' ∈ ms, m = m' ∨ m.e ≤ m'.s ∨ m'.e ≤ m.s := by
  induction hpw with
  | nil => intro m hm; cases hm
  | cons ha _ ih =>
    intro m hm m' hm'
    rcases List.mem_cons.1 hm with rfl | h1
    · rcases List.mem_cons.1 hm' with rfl | h2
      · exact .inl rfl
      · exact .inr (.inl (ha m' h2))
    · rcases List.mem_cons.1 hm' with rfl | h2
      · exact .inr (.inr (ha m h1))
      · exact ih m h1 m' h2

/-- a position/extent is reported by `find_all` exactly when it is a greedy match that is not
pre-empted by another reported match -/
theorem reported_iff (hnn : A.acc A.init = false) (hds : DeadStuck A)
    (h : findAll A xs = .ok ms) (p f : Nat) :
    (∃ m ∈ ms, m.s = p ∧ m.e = f) ↔ GreedyAt A xs p f ∧ ¬ Preempted ms p f := by
  obtain ⟨hok, hpw, hcov⟩ := findAll_spec hnn hds h
  constructor
  · rintro ⟨m, hm, rfl, rfl⟩
    refine ⟨(hok m hm).1, ?_⟩
    rintro ⟨m', hm', hcase⟩
    have hlt' := (hok m' hm').1.1
    have hlt := (hok m hm).1.1
    rcases reported_disjoint hpw m hm m' hm' with rfl | hd | hd
    · omega
    · omega
    · omega
  · rintro ⟨hg, hnp⟩
    have hp : p < xs.length := Nat.lt_of_lt_of_le hg.1 hg.2.1
    rcases hcov p hp with ⟨m, hm, hpe, ⟨q, hq⟩, hnext⟩ | hno
    · have hle : m.e ≤ f := greedy_alive_le hds hg (hok m hm).1.2.1 hq
      rcases Nat.lt_trichotomy m.s p with hs | hs | hs
      · exact absurd ⟨m, hm, .inl ⟨hs, hpe, hle⟩⟩ hnp
      · refine ⟨m, hm, hs, ?_⟩
        have hgm := (hok m hm).1
        rw [hs] at hgm
        exact greedy_finish_unique hds hgm hg
      · obtain ⟨hlen, q', hq'⟩ := hnext hs
        have := greedy_alive_le hds hg (Nat.succ_le_of_lt hlen) hq'
        exact absurd ⟨m, hm, .inr ⟨hs, this⟩⟩ hnp
    · exact absurd hg (hno f)

/-- A sufficient condition on the INPUT alone: a greedy match `(p, f)` is reported when no
earlier position has a greedy match finishing inside `(p, f]` and no later position has a greedy
match finishing strictly before `f`. -/
theorem reported_of_isolated (hnn : A.acc A.init = false) (hds : DeadStuck A)
    (h : findAll A xs = .ok ms) {p f : Nat} (hg : GreedyAt A xs p f)
    (hbefore : ∀ q f', q < p → GreedyAt A xs q f' → ¬ (p < f' ∧ f' ≤ f))
    (hafter : ∀ q f', p < q → GreedyAt A xs q f' → ¬ f' < f) :
    ∃ m ∈ ms, m.s = p ∧ m.e = f := by
  rw [reported_iff hnn hds h]
  refine ⟨hg, ?_⟩
  rintro ⟨m, hm, hcase⟩
  have hgm := ((findAll_spec hnn hds h).1 m hm).1
  rcases hcase with ⟨h1, h2, h3⟩ | ⟨h1, h2⟩
  · exact hbefore m.s m.e h1 hgm ⟨h2, h3⟩
  · exact hafter m.s m.e h1 hgm h2

end findall

/-! ## Part 2b. `get_headers`: the follow-up filter and the name extraction -/

/-- the follow-up test of `get_headers` at token index `f`: there is no follow-up pattern, or
`starts_with(follow, tokens[f:])` finds a match -/
def FollowsAt (follow : Option (Rx Pred)) (toks : List Tok) (f : Nat) : Prop :=
  match follow with
  | none => True
  | some r => ∃ F k, compileTok r = .ok F ∧
      startsWithM (dfaMachine F tokAcceptor) (dfaMachine F tokAcceptor).init (toks.drop f) 0 =
        .ok (some k)

/-- Java's `filter_headers` test at token index `p`: the language has no such filter, or the
token before `p` (if any) is not one of the excluded keywords -/
def PrevOk (L : Language) (toks : List Tok) (p : Nat) : Prop :=
  match L.prevKw with
  | none => True
  | some kw => ¬ (0 < p ∧ ∃ t, toks[p - 1]? = some t ∧ kw.eval t = true)

theorem filterFollow_mem (F : Machine Tok (DState × Depths)) (toks : List Tok) :
    ∀ (ms r : List (Match Tok)), filterFollow F toks ms = .ok r →
      ∀ m, m ∈ r ↔ m ∈ ms ∧ ∃ k, startsWithM F F.init (toks.drop m.e) 0 = .ok (some k)
  | [], r, h => by simp only [filterFollow, Except.ok.injEq] at h; subst h; simp
  | m0 :: ms, r, h => by
    unfold filterFollow at h
    split at h
    · next k r' hk hr' =>
      cases h
      have ih := filterFollow_mem F toks ms r' hr'
      intro m
      rw [List.mem_cons, List.mem_cons, ih m]
      constructor
      · rintro (rfl | ⟨h1, h2⟩)
        · exact ⟨.inl rfl, k, hk⟩
        · exact ⟨.inr h1, h2⟩
      · rintro ⟨rfl | h1, h2⟩
        · exact .inl rfl
        · exact .inr ⟨h1, h2⟩
    · next r' hk hr' =>
      cases h
      have ih := filterFollow_mem F toks ms r hr'
      intro m
      rw [List.mem_cons, ih m]
      constructor
      · rintro ⟨h1, h2⟩
        exact ⟨.inr h1, h2⟩
      · rintro ⟨rfl | h1, h2⟩
        · obtain ⟨k, hk'⟩ := h2
          rw [hk] at hk'; cases hk'
        · exact ⟨h1, h2⟩
    · cases h
    · cases h

theorem followFilter_mem {follow : Option (Rx Pred)} {toks : List Tok} {ms ms' : List (Match Tok)}
    (h : followFilter follow toks ms = .ok ms') :
    ∀ m, m ∈ ms' ↔ m ∈ ms ∧ FollowsAt follow toks m.e := by
  cases follow with
  | none =>
    simp only [followFilter, Except.ok.injEq] at h
    subst h
    intro m; simp [FollowsAt]
  | some r =>
    simp only [followFilter] at h
    cases hF : compileTok r with
    | error e => rw [hF] at h; cases h
    | ok F =>
      rw [hF] at h
      have := filterFollow_mem _ toks ms ms' h
      intro m
      rw [this m]
      simp only [FollowsAt]
      constructor
      · rintro ⟨h1, k, hk⟩
        exact ⟨h1, F, k, hF, hk⟩
      · rintro ⟨h1, F', k, hF', hk⟩
        rw [hF] at hF'; cases hF'
        exact ⟨h1, k, hk⟩

theorem namesOf_mem : ∀ (ms : List (Match Tok)) (hs : List Header), namesOf ms = .ok hs →
    (∀ hd ∈ hs, ∃ m ∈ ms, hd.rng = ⟨m.s, m.e⟩ ∧ firstName m.toks = .ok hd.name) ∧
    (∀ m ∈ ms, ∃ hd ∈ hs, hd.rng = ⟨m.s, m.e⟩ ∧ firstName m.toks = .ok hd.name)
  | [], hs, h => by simp only [namesOf, Except.ok.injEq] at h; subst h; simp
  | m :: ms, hs, h => by
    unfold namesOf at h
    split at h
    · next n r hn hr =>
      cases h
      obtain ⟨h1, h2⟩ := namesOf_mem ms r hr
      constructor
      · intro hd hhd
        rcases List.mem_cons.1 hhd with rfl | hhd
        · exact ⟨m, List.mem_cons_self, rfl, hn⟩
        · obtain ⟨m', hm', h3⟩ := h1 hd hhd
          exact ⟨m', List.mem_cons_of_mem _ hm', h3⟩
      · intro m' hm'
        rcases List.mem_cons.1 hm' with rfl | hm'
        · exact ⟨_, List.mem_cons_self, rfl, hn⟩
        · obtain ⟨hd, hhd, h3⟩ := h2 m' hm'
          exact ⟨hd, List.mem_cons_of_mem _ hhd, h3⟩
    · cases h
    · cases h

/-- `get_headers` = compile, `find_all`, follow-up filter, name extraction -/
theorem getHeaders_stages {hp : HeaderPat} {toks : List Tok} {hs : List Header}
    (h : getHeaders hp toks = .ok hs) :
    ∃ D ms ms', compileTok hp.expr = .ok D ∧ findAll (dfaMachine D tokAcceptor) toks = .ok ms ∧
      followFilter hp.follow toks ms = .ok ms' ∧ namesOf ms' = .ok hs := by
  rw [getHeaders_eq] at h
  cases hD : compileTok hp.expr with
  | error e => rw [hD] at h; cases h
  | ok D =>
    rw [hD] at h
    simp only [Except.bind] at h
    cases hms : findAll (dfaMachine D tokAcceptor) toks with
    | error e => rw [hms] at h; cases h
    | ok ms =>
      rw [hms] at h
      simp only at h
      cases hf : followFilter hp.follow toks ms with
      | error e => rw [hf] at h; cases h
      | ok ms' =>
        rw [hf] at h
        exact ⟨D, ms, ms', rfl, hms, hf, h⟩

/-- the headers returned by `get_headers` are exactly the `find_all` matches that pass the
follow-up test, each with the first name token of its matched tokens -/
theorem getHeaders_mem {hp : HeaderPat} {toks : List Tok} {hs : List Header}
    (h : getHeaders hp toks = .ok hs) :
    ∃ D ms, compileTok hp.expr = .ok D ∧ findAll (dfaMachine D tokAcceptor) toks = .ok ms ∧
      (∀ hd ∈ hs, ∃ m ∈ ms, FollowsAt hp.follow toks m.e ∧ hd.rng = ⟨m.s, m.e⟩ ∧
        firstName m.toks = .ok hd.name) ∧
      (∀ m ∈ ms, FollowsAt hp.follow toks m.e → ∃ hd ∈ hs, hd.rng = ⟨m.s, m.e⟩ ∧
        firstName m.toks = .ok hd.name) := by
  obtain ⟨D, ms, ms', hD, hms, hf, hn⟩ := getHeaders_stages h
  have hmem := followFilter_mem hf
  obtain ⟨h1, h2⟩ := namesOf_mem ms' hs hn
  refine ⟨D, ms, hD, hms, ?_, ?_⟩
  · intro hd hhd
    obtain ⟨m, hm, h3⟩ := h1 hd hhd
    exact ⟨m, ((hmem m).1 hm).1, ((hmem m).1 hm).2, h3⟩
  · intro m hm hfo
    exact h2 m ((hmem m).2 ⟨hm, hfo⟩)

theorem concatHeaders_mem_iff {toks : List Tok} : ∀ (pats : List HeaderPat) (hs : List Header),
    concatHeaders toks pats = .ok hs →
      (∀ hp ∈ pats, ∃ hs', getHeaders hp toks = .ok hs') ∧
      ∀ hd, hd ∈ hs ↔ ∃ hp ∈ pats, ∃ hs', getHeaders hp toks = .ok hs' ∧ hd ∈ hs'
  | [], hs, h => by simp only [concatHeaders, Except.ok.injEq] at h; subst h; simp
  | hp :: pats, hs, h => by
    unfold concatHeaders at h
    split at h
    · next a b ha hb =>
      cases h
      obtain ⟨ih1, ih2⟩ := concatHeaders_mem_iff pats b hb
      constructor
      · intro hp' hm
        rcases List.mem_cons.1 hm with rfl | hm
        · exact ⟨a, ha⟩
        · exact ih1 hp' hm
      · intro hd
        rw [List.mem_append, ih2 hd]
        constructor
        · rintro (hhd | ⟨hp', hm, hs', h1, h2⟩)
          · exact ⟨hp, List.mem_cons_self, a, ha, hhd⟩
          · exact ⟨hp', List.mem_cons_of_mem _ hm, hs', h1, h2⟩
        · rintro ⟨hp', hm, hs', h1, h2⟩
          rcases List.mem_cons.1 hm with rfl | hm
          · rw [ha] at h1; cases h1; exact .inl h2
          · exact .inr ⟨hp', hm, hs', h1, h2⟩
    · cases h
    · cases h

/-- `Language.extract_headers` = the headers of all patterns, minus (Java) those preceded by an
excluded keyword -/
theorem extractHeaders_mem_iff {L : Language} {toks : List Tok} {hs : List Header}
    (h : extractHeaders L toks = .ok hs) :
    (∀ hp ∈ L.pats, ∃ hs', getHeaders hp toks = .ok hs') ∧
    ∀ hd, hd ∈ hs ↔
      (∃ hp ∈ L.pats, ∃ hs', getHeaders hp toks = .ok hs' ∧ hd ∈ hs') ∧ PrevOk L toks hd.rng.s := by
  unfold extractHeaders at h
  split at h
  · cases h
  · next hs0 h0 =>
    obtain ⟨hall, hmem⟩ := concatHeaders_mem_iff L.pats hs0 h0
    refine ⟨hall, ?_⟩
    intro hd
    unfold PrevOk
    split at h
    · next hkw =>
      cases h
      rw [hkw, hmem hd]; simp
    · next kw hkw =>
      cases h
      rw [hkw, List.mem_filter, hmem hd]
      apply and_congr_right
      intro _
      cases hget : toks[hd.rng.s - 1]? with
      | none => simp
      | some t => by_cases hpos : 0 < hd.rng.s <;> cases hk : kw.eval t <;> simp [hpos, hk]

/-! ## Part 2c. the first two tokens of every greedy match -/

/-- a decidable check on a header DFA: the transitions of the start state carry stateless
predicates, none of them leads to an accepting state (every match has at least two tokens), and
the rows reached by them evaluate their predicates on a fresh predicate state -/
def startShapeOK (D : Dfa Pred) : Bool :=
  rowPlain (D.row .start) &&
    (D.row .start).all (fun e => !D.isAcc e.2 && rowSimple (D.row e.2))

/-- the two tokens at `q`, `q + 1` can begin a match: some transition of the start state
accepts `toks[q]` and some transition of the state it leads to accepts `toks[q + 1]` (a
`Balanced` predicate, not having seen any token yet, accepts exactly its opening token) -/
def startShapeB (D : Dfa Pred) (toks : List Tok) (q : Nat) : Bool :=
  match toks[q]?, toks[q + 1]? with
  | some t0, some t1 =>
    (D.row .start).any (fun e1 => e1.1.eval t0 && (D.row e1.2).any (fun e2 => e2.1.evalZ t1))
  | _, _ => false

theorem greedy_start_shape {D : Dfa Pred} (hD : startShapeOK D = true) {toks : List Tok}
    {q f : Nat} (hg : GreedyAt (dfaMachine D tokAcceptor) toks q f) :
    startShapeB D toks q = true ∧ q + 2 ≤ f := by
  simp only [startShapeOK, Bool.and_eq_true, List.all_eq_true, Bool.not_eq_true'] at hD
  obtain ⟨hpl, hrows⟩ := hD
  obtain ⟨hlt, hle, s, hr, hacc, _⟩ := hg
  have hq : q < toks.length := by omega
  have hx : toks[q]? = some toks[q] := by simp [hq]
  rw [slice_split toks (Nat.le_succ q) (Nat.succ_le_of_lt hlt), slice_one toks hx] at hr
  simp only [List.singleton_append, runM] at hr
  split at hr
  · next s1 hs1 =>
    obtain ⟨t1, d1⟩ := s1
    obtain ⟨hd1, p1, hm1, he1⟩ := consume_plain _ _ _ _ _ hpl hs1
    have hd1' : d1 = [] := hd1
    subst hd1'
    obtain ⟨hna, hsimple⟩ := hrows _ hm1
    simp only at hna hsimple
    rcases Nat.lt_or_ge (q + 1) f with hlt2 | hge
    · have hq1 : q + 1 < toks.length := by omega
      have hy : toks[q + 1]? = some toks[q + 1] := by simp [hq1]
      rw [slice_split toks (Nat.le_succ (q + 1)) (Nat.succ_le_of_lt hlt2), slice_one toks hy] at hr
      simp only [List.singleton_append, runM] at hr
      split at hr
      · next s2 hs2 =>
        obtain ⟨t2, d2⟩ := s2
        obtain ⟨p2, hm2, he2⟩ := consume_simple_nil _ _ _ _ hsimple hs2
        refine ⟨?_, by omega⟩
        simp only [startShapeB, hx, hy, List.any_eq_true, Bool.and_eq_true]
        exact ⟨(p1, t1), hm1, he1, (p2, t2), hm2, he2⟩
      · cases hr
    · have : f = q + 1 := by omega
      subst this
      rw [slice_self] at hr
      simp only [runM, Option.some.injEq] at hr
      subst hr
      have hacc' : D.isAcc t1 = true := hacc
      rw [hna] at hacc'; cases hacc'
  · cases hr

/-! ## Part 2d. evaluable checkers for the examples -/

/-- Boolean form of `GreedyAt` -/
def greedyAtB {β σ : Type} (A : Machine β σ) (xs : List β) (p f : Nat) : Bool :=
  decide (p < f) && decide (f ≤ xs.length) &&
    (match runM A A.init (slice xs p f) with
      | some q => A.acc q && (decide (f = xs.length) || A.dead q ||
          (match xs[f]? with
            | some x => (match A.step q x with | .ok none => true | _ => false)
            | none => false))
      | none => false)

theorem greedyAtB_sound {β σ : Type} {A : Machine β σ} {xs : List β} {p f : Nat}
    (h : greedyAtB A xs p f = true) : GreedyAt A xs p f := by
  simp only [greedyAtB, Bool.and_eq_true, decide_eq_true_eq] at h
  obtain ⟨⟨h1, h2⟩, h3⟩ := h
  split at h3
  · next q hq =>
    simp only [Bool.and_eq_true, Bool.or_eq_true, decide_eq_true_eq] at h3
    refine ⟨h1, h2, q, hq, h3.1, ?_⟩
    rcases h3.2 with (h | h) | h
    · exact .inl h
    · exact .inr (.inl h)
    · split at h
      · next x hx =>
        split at h
        · next hs => exact .inr (.inr ⟨x, hx, hs⟩)
        · cases h
      · cases h
  · cases h3

/-- the compiled header pattern has a greedy match `(p, f)` on `toks` -/
def greedyCheck (r : Rx Pred) (toks : List Tok) (p f : Nat) : Bool :=
  match compileTok r with
  | .ok D => greedyAtB (dfaMachine D tokAcceptor) toks p f
  | .error _ => false

theorem greedyCheck_sound {r : Rx Pred} {toks : List Tok} {p f : Nat}
    (h : greedyCheck r toks p f = true) {D : Dfa Pred} (hD : compileTok r = .ok D) :
    GreedyAt (dfaMachine D tokAcceptor) toks p f := by
  unfold greedyCheck at h
  rw [hD] at h
  exact greedyAtB_sound h

/-- Boolean form of `FollowsAt` -/
def followsAtB (follow : Option (Rx Pred)) (toks : List Tok) (f : Nat) : Bool :=
  match follow with
  | none => true
  | some r =>
    match compileTok r with
    | .ok F =>
      (match startsWithM (dfaMachine F tokAcceptor) (dfaMachine F tokAcceptor).init
          (toks.drop f) 0 with
        | .ok (some _) => true
        | _ => false)
    | .error _ => false

theorem followsAtB_iff (follow : Option (Rx Pred)) (toks : List Tok) (f : Nat) :
    followsAtB follow toks f = true ↔ FollowsAt follow toks f := by
  cases follow with
  | none => simp [followsAtB, FollowsAt]
  | some r =>
    simp only [followsAtB, FollowsAt]
    cases hF : compileTok r with
    | error e => simp
    | ok F =>
      simp only [Except.ok.injEq, exists_and_left, exists_eq_left']
      constructor
      · intro h
        split at h
        · next k hk => exact ⟨k, hk⟩
        · cases h
      · rintro ⟨k, hk⟩
        rw [hk]

/-- no position `q < f` other than `p` whose two-token window lies before `f - 1` has the start
shape of the compiled pattern -/
def noShapeCheck (r : Rx Pred) (toks : List Tok) (p f : Nat) : Bool :=
  match compileTok r with
  | .ok D => (List.range f).all (fun q => q == p || decide (f ≤ q + 2) || !startShapeB D toks q)
  | .error _ => false

theorem noShapeCheck_sound {r : Rx Pred} {toks : List Tok} {p f : Nat}
    (h : noShapeCheck r toks p f = true) {D : Dfa Pred} (hD : compileTok r = .ok D) :
    ∀ q, q ≠ p → q + 2 < f → startShapeB D toks q = false := by
  unfold noShapeCheck at h
  rw [hD] at h
  simp only [List.all_eq_true, List.mem_range, Bool.or_eq_true, beq_iff_eq, decide_eq_true_eq,
    Bool.not_eq_true'] at h
  intro q hq hlt
  rcases h q (by omega) with (h1 | h1) | h1
  · exact absurd h1 hq
  · omega
  · exact h1

/-- `find_all` with the compiled pattern returns exactly the matches with the given extents -/
def findAllCheck (r : Rx Pred) (toks : List Tok) (ext : List (Nat × Nat)) : Bool :=
  match compileTok r with
  | .ok D =>
    (match findAll (dfaMachine D tokAcceptor) toks with
      | .ok ms => ms.map (fun m => (m.s, m.e)) == ext
      | .error _ => false)
  | .error _ => false

theorem findAllCheck_sound {r : Rx Pred} {toks : List Tok} {ext : List (Nat × Nat)}
    (h : findAllCheck r toks ext = true) {D : Dfa Pred} (hD : compileTok r = .ok D) :
    ∃ ms, findAll (dfaMachine D tokAcceptor) toks = .ok ms ∧ ms.map (fun m => (m.s, m.e)) = ext := by
  unfold findAllCheck at h
  simp only [hD] at h
  split at h
  · next ms hms => exact ⟨ms, hms, by simpa using h⟩
  · cases h

/-! ## Part 3. every measurement comes from an extracted header -/

/-- every measurement of `scan_file` starts at the first token of one of the headers returned by
`extract_headers` on the code tokens and carries that header's name -/
theorem measurement_from_header (L : Language) (hL : L ∈ Gen.all.map (·.2)) (all : List Tok)
    {ms : List Measurement} (h : scanFile L all = .ok ms) :
    ∀ m ∈ ms, ∃ hs hd first, extractHeaders L (filterTokens false all) = .ok hs ∧ hd ∈ hs ∧
      (filterTokens false all)[hd.rng.s]? = some first ∧
      (m.sl, m.sc) = (first.line, first.col) ∧ m.name = hd.name.val := by
  obtain ⟨scs, hscs, hms⟩ := scanFile_decomp h
  intro m hm
  obtain ⟨p, hp, hpm⟩ := measureAll_mem_ok hms m hm
  obtain ⟨hs, bs, sc, hhs, hbs, hsc, rfl⟩ := buildScopes_decomp hscs
  have hwf := extractHeaders_wf' L hL hhs
  obtain ⟨bs', hbs', hbok⟩ := extractBlocks_ok L hwf
  rw [hbs] at hbs'; cases hbs'
  obtain ⟨sc', hsc', hok⟩ := buildScopes0_ok hwf hbok
  rw [hsc] at hsc'; cases hsc'
  have hfl : ∀ s ∈ filterNocl sc (noclTokens all), ScopeOK (filterTokens false all).length s :=
    fun s hs' => (hok s ((filterNocl_sub _ _).subset hs')).2
  obtain ⟨hmem, hpok, hch⟩ := reportScopes_ok L hfl p hp
  have hhdr := (hok p.1 ((filterNocl_sub _ _).subset hmem)).1
  obtain ⟨m', first, last, hm', hf, _, hn, hs', _⟩ :=
    measure_spec hpok.1 hpok.2.1 hpok.2.2 (fun c hc => (hch c hc).1)
  rw [hpm] at hm'; cases hm'
  exact ⟨hs, p.1.hdr, first, hhs, hhdr, hf, hs', hn⟩

/-- a decidable check on a header DFA: every transition of the start state carries a stateless
predicate that forces a keyword or a name token -/
def firstKindOK (D : Dfa Pred) : Bool :=
  (D.row .start).all (fun e => e.1.plain && (e.1.kind0 == some 1 || e.1.kind0 == some 2))

theorem greedy_first_kind {D : Dfa Pred} (hD : firstKindOK D = true) {toks : List Tok}
    {q f : Nat} (hg : GreedyAt (dfaMachine D tokAcceptor) toks q f) :
    ∃ t, toks[q]? = some t ∧ (t.kind = 1 ∨ t.kind = 2) := by
  simp only [firstKindOK, List.all_eq_true, Bool.and_eq_true, Bool.or_eq_true, beq_iff_eq] at hD
  have hpl : rowPlain (D.row .start) = true := by
    simp only [rowPlain, List.all_eq_true]
    exact fun e he => (hD e he).1
  obtain ⟨hlt, hle, s, hr, _, _⟩ := hg
  have hq : q < toks.length := by omega
  have hx : toks[q]? = some toks[q] := by simp [hq]
  rw [slice_split toks (Nat.le_succ q) (Nat.succ_le_of_lt hlt), slice_one toks hx] at hr
  simp only [List.singleton_append, runM] at hr
  split at hr
  · next s1 hs1 =>
    obtain ⟨t1, d1⟩ := s1
    obtain ⟨_, p1, hm1, he1⟩ := consume_plain _ _ _ _ _ hpl hs1
    refine ⟨toks[q], hx, ?_⟩
    rcases (hD _ hm1).2 with hk | hk
    · exact .inl (Pred.kind0_sound p1 1 _ hk he1)
    · exact .inr (Pred.kind0_sound p1 2 _ hk he1)
  · cases hr

/-- what `analyze` returns is what `scan_file` returns on the lexed text -/
theorem analyze_scan {L : Language} {code : Str} {raw : List RawTok} {ms : List Measurement}
    {n : Nat} (ha : analyze L code raw = .ok (ms, n)) :
    scanFile L (lex code raw false) = .ok ms := by
  unfold analyze at ha
  split at ha
  · cases ha
  · simp only [Except.ok.injEq, Prod.mk.injEq] at ha
    rename_i ms' hms
    rw [hms, ha.1]

end CL.Compose
