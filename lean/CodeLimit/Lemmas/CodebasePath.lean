import CodeLimit.Spec.Codebase
/-!
# `get_parent_folder` / `get_basename` on strings, prefixes that are folder keys
-/
namespace CL.Codebase

theorem splitSep_ne_nil (p : Str) : splitSep p ≠ [] := by
  cases p with
  | nil => simp [splitSep]
  | cons c cs =>
    simp only [splitSep]
    split
    · simp
    · split <;> simp

theorem splitSep_noslash {p : Str} (h : sl ∉ p) : splitSep p = [p] := by
  induction p with
  | nil => rfl
  | cons c cs ih =>
    have hc : c ≠ sl := fun e => h (by simp [e])
    have hcs : sl ∉ cs := fun m => h (by simp [m])
    simp [splitSep, hc, ih hcs]

theorem splitSep_append_slash (q b : Str) : splitSep (q ++ sl :: b) = splitSep q ++ splitSep b := by
  induction q with
  | nil => simp [splitSep]
  | cons c q ih =>
    by_cases hc : c = sl
    · simp [splitSep, hc, ih]
    · simp only [List.cons_append, splitSep, hc, if_false, ih]
      cases hq : splitSep q with
      | nil => exact absurd hq (splitSep_ne_nil q)
      | cons h t => simp

theorem joinSep_append_singleton (l : List Str) (hl : l ≠ []) (b : Str) :
    joinSep (l ++ [b]) = joinSep l ++ sl :: b := by
  induction l with
  | nil => exact absurd rfl hl
  | cons x xs ih =>
    cases xs with
    | nil => simp [joinSep]
    | cons y ys =>
      have := ih (by simp)
      simp only [List.cons_append, joinSep] at this ⊢
      simp [this]

theorem joinSep_splitSep (p : Str) : joinSep (splitSep p) = p := by
  induction p with
  | nil => rfl
  | cons c cs ih =>
    by_cases hc : c = sl
    · simp only [splitSep, hc, if_true]
      cases hq : splitSep cs with
      | nil => exact absurd hq (splitSep_ne_nil cs)
      | cons h t => rw [hq] at ih; simp [joinSep, ih]
    · simp only [splitSep, hc, if_false]
      cases hq : splitSep cs with
      | nil => exact absurd hq (splitSep_ne_nil cs)
      | cons h t =>
        rw [hq] at ih
        cases t with
        | nil => simp [joinSep] at ih ⊢; exact ih
        | cons y ys => simp [joinSep] at ih ⊢; exact ih

/-- a path without `/`: the parent is `.`, the basename the path itself -/
theorem parent_base_noslash {p : Str} (h : sl ∉ p) :
    getParentFolder p = [dot] ∧ getBasename p = p := by
  simp [getParentFolder, getBasename, splitSep_noslash h]

/-- a path `q/b` with no `/` in `b`: the parent is `q`, the basename `b` -/
theorem parent_base_slash (q : Str) {b : Str} (h : sl ∉ b) :
    getParentFolder (q ++ sl :: b) = q ∧ getBasename (q ++ sl :: b) = b := by
  have hq := splitSep_ne_nil q
  have hlen : (splitSep q).length ≠ 0 := by
    intro h0; exact hq (List.length_eq_zero_iff.mp h0)
  simp only [getParentFolder, getBasename, splitSep_append_slash, splitSep_noslash h]
  constructor
  · rw [if_neg (by simp; omega), List.dropLast_concat, joinSep_splitSep]
  · simp

/-- decomposition at the last `/` -/
theorem last_slash (p : Str) : sl ∉ p ∨ ∃ q b, p = q ++ sl :: b ∧ sl ∉ b := by
  induction p with
  | nil => left; simp
  | cons c cs ih =>
    rcases ih with h | ⟨q, b, rfl, hb⟩
    · by_cases hc : c = sl
      · right; exact ⟨[], cs, by simp [hc], h⟩
      · left; simp [h, Ne.symm hc]
    · right; exact ⟨c :: q, b, by simp, hb⟩

/-- decomposition at the first `/` -/
theorem first_slash (p : Str) : sl ∉ p ∨ ∃ b r, p = b ++ sl :: r ∧ sl ∉ b := by
  induction p with
  | nil => left; simp
  | cons c cs ih =>
    by_cases hc : c = sl
    · right; exact ⟨[], cs, by simp [hc], by simp⟩
    · rcases ih with h | ⟨b, r, rfl, hb⟩
      · left; simp [h, Ne.symm hc]
      · right; exact ⟨c :: b, r, by simp, by simp [hb, Ne.symm hc]⟩

theorem basename_noslash (p : Str) : sl ∉ getBasename p := by
  rcases last_slash p with h | ⟨q, b, rfl, hb⟩
  · rw [(parent_base_noslash h).2]; exact h
  · rw [(parent_base_slash q hb).2]; exact hb

theorem basename_idem (p : Str) : getBasename (getBasename p) = getBasename p :=
  (parent_base_noslash (basename_noslash p)).2

end CL.Codebase
