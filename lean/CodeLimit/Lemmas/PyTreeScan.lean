import CodeLimit.Lemmas.PyTreeDisc
import CodeLimit.Lemmas.HeadersWF
/-!
# Python indentation trees: layout and header discovery of a rendered well-formed forest

* `pinv_tree`, `pyLayout_of_tree`: the rendering of a well-formed forest, with the functions of
  the tree, is a canonical `PyLayout`;
* `extract_tree`: `extract_headers` of Python returns exactly the headers of the function nodes,
  in source order.
-/
namespace CL.PyT
open CL.Syn

theorem pinv_tree {t : PyProg PTok} {c lim : Nat} (hw : t.wfAt c lim = true) (s : Nat × Nat) :
    PInv 0 t.flat.length (pyFnsOf (t.locate s) 0) := by
  have h := pinv_of_shape (t.locate s) 0 (by rw [PyProg.shapeOK_locate]; exact shape_of_wfAt t c lim hw)
  rw [PyProg.size_locate, Nat.zero_add, ← PyProg.size_eq] at h
  exact h

theorem PyProg.wf_iff {t : PyProg PTok} :
    t.wf = true ↔ t.wfAt t.col 0 = true ∧ t.flat.all PTok.plain = true := by
  simp [PyProg.wf]

theorem fnOK_of_wf {t : PyProg PTok} {c lim : Nat} (hw : t.wfAt c lim = true) (s : Nat × Nat) :
    ∀ f ∈ pyFnsOf (t.locate s) 0, FnOK t.flat f.hdr.rng f.body := by
  intro f hf
  have hr := mem_pyRanges hf
  rw [pyRanges_locate] at hr
  exact fnOK_tree t 0 c lim hw (Seg.self _) (.inl (by rw [Nat.zero_add, PyProg.size_eq])) _ hr

/-- **the rendering of a well-formed forest is a canonical Python layout**, with the functions
of the tree -/
theorem pyLayout_of_tree {t : PyProg PTok} (hw : t.wf = true) :
    PyLayout (pyRender t) (pyFnsOf t.located 0) := by
  obtain ⟨h1, h2⟩ := PyProg.wf_iff.mp hw
  rw [pyRender_eq]
  exact pyLayout_of_place (0, 0) h2 (pinv_tree h1 _) (fnOK_of_wf h1 _)

/-- **header discovery on a rendered well-formed forest**: `extract_headers` of Python returns
exactly the headers `def name ( … )` of the function nodes, each named by its name token, in
source order -/
theorem extract_tree {t : PyProg PTok} (hw : t.wf = true) :
    extractHeaders Gen.python (pyRender t) = .ok ((pyFnsOf t.located 0).map (·.hdr)) := by
  obtain ⟨h1, _⟩ := PyProg.wf_iff.mp hw
  have hI : PInv 0 t.flat.length (pyFnsOf t.located 0) := pinv_tree h1 _
  have hcode : pyRender t = place (0, 0) t.flat := pyRender_eq t
  -- every function node has a `def` header ...
  have hA : ∀ f ∈ pyFnsOf t.located 0, DefHeader (pyRender t) f.hdr.rng.s f.hdr.rng.e := by
    intro f hf
    have hr := mem_pyRanges hf
    rw [PyProg.located, pyRanges_locate] at hr
    rw [hcode, defHeader_place]
    exact defHeader_tree t 0 _ 0 h1 (Seg.self _) _ hr
  -- ... and these are all the `def` headers of the file
  have hB : ∀ q f', DefHeader (pyRender t) q f' →
      ∃ f ∈ pyFnsOf t.located 0, f.hdr.rng = ⟨q, f'⟩ := by
    intro q f' hd
    have hd' := hd
    rw [hcode, defHeader_place] at hd'
    have hq : q < t.flat.length := by
      obtain ⟨x, hx, _⟩ := hd'.1
      have := (List.getElem?_eq_some_iff.mp hx).1
      simpa using this
    obtain ⟨r, hr, hrs⟩ := defKw_tree t 0 _ 0 h1 (Seg.self _) q (Nat.zero_le _)
      (by rw [Nat.zero_add, ← PyProg.size_eq]; exact hq) hd'.1
    rw [← pyRanges_locate t (0, 0)] at hr
    obtain ⟨f, hf, hf1, _⟩ := exists_fn_of_range hr
    refine ⟨f, hf, ?_⟩
    have hfs : f.hdr.rng.s = q := by rw [hf1]; exact hrs
    have := hA f hf
    rw [hfs] at this
    have he := hd.finish_unique this
    cases hh : f.hdr.rng with
    | mk a b => rw [hh] at hfs he; simp only at hfs he; rw [hfs, he]
  have hN : ∀ f ∈ pyFnsOf t.located 0, (pyRender t)[f.hdr.rng.s + 1]? = some f.hdr.name :=
    pyFnsOf_name t.located 0 (Seg.self _)
  have hdisj : ∀ f ∈ pyFnsOf t.located 0, ∀ g ∈ pyFnsOf t.located 0, f ≠ g →
      f.body.s ≤ g.hdr.rng.s ∨ g.body.s ≤ f.hdr.rng.s :=
    fun f hf g hg hne => pairwise_mem_or hI.fs hf hg hne
  obtain ⟨hs, hhs⟩ := extractHeaders_total Gen.python python_shipped (pyRender t)
  rw [hhs]
  congr 1
  refine headers_eq_of_sorted (extractHeaders_python_sorted hhs) ?_ ?_
  · rw [List.pairwise_map]
    refine hI.fs.imp_of_mem ?_
    intro f g hf _ hfg
    have := hI.fb f hf
    omega
  · intro hd
    constructor
    · intro hhd
      obtain ⟨hdef, hname⟩ := sound_pyExpr python_shipped python_pattern.1 hhs hd hhd
      obtain ⟨f, hf, hfr⟩ := hB _ _ hdef
      refine List.mem_map.mpr ⟨f, hf, ?_⟩
      have hn := hN f hf
      rw [hfr] at hn
      simp only at hn
      rw [hname] at hn
      cases hh : f.hdr with
      | mk nm rg =>
        rw [hh] at hfr hn
        simp only at hfr hn
        cases hd with
        | mk nm' rg' =>
          simp only at hfr hn
          simp only [Option.some.injEq] at hn
          cases rg'
          rw [hfr, hn]
    · intro hhd
      obtain ⟨f, hf, rfl⟩ := List.mem_map.mp hhd
      have hfb := hI.fb f hf
      obtain ⟨hd, hhd', hr, hnm, _⟩ := complete_pyExpr_isolated python_shipped python_pattern.1
        python_pattern.2 hhs (hA f hf)
        (by
          intro q f' hq hd' ⟨h1', h2'⟩
          obtain ⟨g, hg, hgr⟩ := hB q f' hd'
          have hgb := hI.fb g hg
          have hne : f ≠ g := fun e => by subst e; rw [hgr] at hq; simp only at hq; omega
          have hgs : g.hdr.rng.s = q := by rw [hgr]
          have hge : g.hdr.rng.e = f' := by rw [hgr]
          rcases hdisj f hf g hg hne with h | h <;> omega)
        (by
          intro q f' hq hd' hlt
          obtain ⟨g, hg, hgr⟩ := hB q f' hd'
          have hgb := hI.fb g hg
          have hne : f ≠ g := fun e => by subst e; rw [hgr] at hq; simp only at hq; omega
          have hgs : g.hdr.rng.s = q := by rw [hgr]
          have hge : g.hdr.rng.e = f' := by rw [hgr]
          rcases hdisj f hf g hg hne with h | h <;> omega)
      have hn := hN f hf
      rw [hn] at hnm
      simp only [Option.some.injEq] at hnm
      have : hd = f.hdr := by
        cases hd with
        | mk nm' rg' =>
          cases hh : f.hdr with
          | mk nm rg =>
            rw [hh] at hnm hr
            simp only at hnm hr
            cases rg
            simp only at hr
            rw [hr, hnm]
      rw [← this]; exact hhd'

end CL.PyT
