import CodeLimit.Model.Regex
namespace CL
variable {α : Type}
/-- structural well-formedness of a compiled NFA -/
structure Nfa.WF (N : Nfa α) : Prop where
  start_lt : N.start < N.next
  acc_lt : N.acc < N.next
  src_lt : ∀ e ∈ N.edges, e.src < N.next
  dst_lt : ∀ e ∈ N.edges, e.dst < N.next
  no_in_start : ∀ e ∈ N.edges, e.dst ≠ N.start
  no_out_acc : ∀ e ∈ N.edges, e.src ≠ N.acc
end CL
