import CodeLimit.Lemmas.ScanBoundsPipeline
/-!
# Kernel-evaluable copy of the scan pipeline (for concrete `decide +kernel` examples)

`List.mergeSort` is defined by well-founded recursion and does not reduce in the kernel.  A
stable sort with a total transitive order is unique, so `mergeSort` equals the structural
insertion sort `insSort`; the `…K` functions below are the model functions with `insSort` in
place of `mergeSort`, proved equal to the originals (`scanFile_eq_K`).  They are used only to
evaluate the model on concrete token lists.
-/
namespace CL

/-- stable insertion sort: `a` goes after the elements that are strictly smaller -/
def insSort {α : Type} (le : α → α → Bool) : List α → List α
  | [] => []
  | a :: l => (insSort le l).takeWhile (fun b => !le a b) ++ a :: (insSort le l).dropWhile (fun b => !le a b)

theorem mergeSort_eq_insSort {α : Type} {le : α → α → Bool}
    (trans : ∀ a b c : α, le a b → le b c → le a c) (total : ∀ a b : α, le a b || le b a) :
    ∀ l : List α, l.mergeSort le = insSort le l
  | [] => by simp [insSort]
  | a :: l => by
    obtain ⟨l₁, l₂, h1, h2, h3⟩ := List.mergeSort_cons trans total a l
    have ih := mergeSort_eq_insSort trans total l
    have hs := List.pairwise_mergeSort trans total (a :: l)
    rw [h1] at hs
    have hl2 : ∀ c ∈ l₂, (!le a c) = false := by
      intro c hc
      have := (List.pairwise_cons.1 (List.pairwise_append.1 hs).2.1).1 c hc
      simp [this]
    have htw : l₂.takeWhile (fun b => !le a b) = [] := by
      cases l₂ with
      | nil => rfl
      | cons c cs => simp [hl2 c List.mem_cons_self]
    have hdw : l₂.dropWhile (fun b => !le a b) = l₂ := by
      cases l₂ with
      | nil => rfl
      | cons c cs => simp [hl2 c List.mem_cons_self]
    have hp : ∀ b ∈ l₁, (fun b => !le a b) b = true := fun b hb => h3 b hb
    rw [h1, insSort, ← ih, h2, List.takeWhile_append_of_pos hp, List.dropWhile_append_of_pos hp,
      htw, hdw, List.append_nil]

def sortAscK {γ : Type} (toks : List Tok) (start : γ → Nat) (xs : List γ) : Except Err (List γ) :=
  match withKeys toks start xs with
  | .error e => .error e
  | .ok ks => .ok ((insSort (fun a b => keyLe a.1 b.1) ks).map (·.2))

def sortDescK {γ : Type} (toks : List Tok) (start : γ → Nat) (xs : List γ) : Except Err (List γ) :=
  match withKeys toks start xs with
  | .error e => .error e
  | .ok ks => .ok ((insSort (fun a b => keyLe b.1 a.1) ks).map (·.2))

theorem sortAsc_eq_K {γ : Type} (toks : List Tok) (start : γ → Nat) (xs : List γ) :
    sortAsc toks start xs = sortAscK toks start xs := by
  unfold sortAsc sortAscK
  cases withKeys toks start xs with
  | error e => rfl
  | ok ks =>
    simp only
    rw [mergeSort_eq_insSort (fun a b c => keyLe_tr a.1 b.1 c.1) (fun a b => keyLe_tot a.1 b.1)]

theorem sortDesc_eq_K {γ : Type} (toks : List Tok) (start : γ → Nat) (xs : List γ) :
    sortDesc toks start xs = sortDescK toks start xs := by
  unfold sortDesc sortDescK
  cases withKeys toks start xs with
  | error e => rfl
  | ok ks =>
    simp only
    rw [mergeSort_eq_insSort (fun a b c h1 h2 => keyLe_tr c.1 b.1 a.1 h2 h1)
      (fun a b => keyLe_tot b.1 a.1)]

def extractBlocksK (L : Language) (toks : List Tok) (hs : List Header) : Except Err (List Range) :=
  if L.python then pyBlocks toks hs
  else sortAscK toks Range.s ((balancedPairs [123] [125] toks 0 []).map (fun p => ⟨p.1, p.2 + 1⟩))

theorem extractBlocks_eq_K (L : Language) (toks : List Tok) (hs : List Header) :
    extractBlocks L toks hs = extractBlocksK L toks hs := by
  unfold extractBlocks extractBlocksK getBlocks
  rw [sortAsc_eq_K]

def buildScopes0K (toks : List Tok) (hs : List Header) (blocks : List Range) : Except Err (List Scope) :=
  match sortDescK toks (fun h : Header => h.rng.s) hs with
  | .error e => .error e
  | .ok rh => match buildScopesLoop rh blocks with
    | .error e => .error e
    | .ok r => .ok r.reverse

theorem buildScopes0_eq_K (toks : List Tok) (hs : List Header) (blocks : List Range) :
    buildScopes0 toks hs blocks = buildScopes0K toks hs blocks := by
  unfold buildScopes0 buildScopes0K
  rw [sortDesc_eq_K]
  rfl

def buildScopesK (L : Language) (all : List Tok) : Except Err (List (Scope × List Range)) := do
  let code := filterTokens false all
  let nocl := noclTokens all
  let hs ← extractHeaders L code
  let bs ← extractBlocksK L code hs
  let sc ← buildScopes0K code hs bs
  let fl := filterNocl sc nocl
  if L.nested then pure (withChildren fl (foldParents fl 0 []))
  else pure ((filterNested fl none).map (fun s => (s, [])))

theorem buildScopes_eq_K (L : Language) (all : List Tok) : buildScopes L all = buildScopesK L all := by
  unfold buildScopes buildScopesK
  simp only [extractBlocks_eq_K, buildScopes0_eq_K]

def countLinesK (toks : List Tok) (s : Scope) (children : List Range) : Except Err Nat :=
  match sortAscK toks Range.s children with
  | .error e => .error e
  | .ok ch => match scopeLinesLoop toks (s.blk.e - s.hdr.rng.s) s.hdr.rng.s ch with
    | .error e => .error e
    | .ok ls => .ok (countDistinct ls)

theorem countLines_eq_K (toks : List Tok) (s : Scope) (children : List Range) :
    countLines toks s children = countLinesK toks s children := by
  unfold countLines countLinesK
  rw [sortAsc_eq_K]
  rfl

def measureK (code : List Tok) (s : Scope) (children : List Range) : Except Err Measurement := do
  let len ← countLinesK code s children
  let first ← getE code s.hdr.rng.s
  if s.blk.e = 0 then throw .index
  let last ← getE code (s.blk.e - 1)
  let info := lastLineInfo last.val
  let (el, ec) := if info.1 = 0 then (last.line, last.col + last.val.length) else (last.line + info.1, info.2 + 1)
  pure ⟨s.hdr.name.val, first.line, first.col, el, ec, len⟩

theorem measure_eq_K (code : List Tok) (s : Scope) (children : List Range) :
    measure code s children = measureK code s children := by
  unfold measure measureK
  rw [countLines_eq_K]

def measureAllK (code : List Tok) : List (Scope × List Range) → Except Err (List Measurement)
  | [] => .ok []
  | (s, ch) :: rest => match measureK code s ch, measureAllK code rest with
    | .ok m, .ok r => .ok (m :: r)
    | .error e, _ => .error e
    | _, .error e => .error e

theorem measureAll_eq_K (code : List Tok) : ∀ scs, measureAll code scs = measureAllK code scs
  | [] => rfl
  | (s, ch) :: rest => by
    unfold measureAll measureAllK
    rw [measure_eq_K, measureAll_eq_K code rest]
    rfl

def scanFileK (L : Language) (all : List Tok) : Except Err (List Measurement) :=
  match buildScopesK L all with
  | .error e => .error e
  | .ok scs => measureAllK (filterTokens false all) scs

theorem scanFile_eq_K (L : Language) (all : List Tok) : scanFile L all = scanFileK L all := by
  unfold scanFile scanFileK
  rw [buildScopes_eq_K]
  cases buildScopesK L all with
  | error e => rfl
  | ok scs => exact measureAll_eq_K _ scs

/-- Boolean comparison of a result with an expected success value (evaluable in the kernel) -/
def okEq {α : Type} [BEq α] (r : Except Err α) (x : α) : Bool :=
  match r with
  | .ok y => y == x
  | .error _ => false

theorem okEq_sound {α : Type} [BEq α] [LawfulBEq α] {r : Except Err α} {x : α}
    (h : okEq r x = true) : r = .ok x := by
  unfold okEq at h
  split at h
  · rw [eq_of_beq h]
  · cases h

/-- Boolean test of a success value (evaluable in the kernel) -/
def okSat {α : Type} (r : Except Err α) (p : α → Bool) : Bool :=
  match r with
  | .ok y => p y
  | .error _ => false

theorem okSat_sound {α : Type} {r : Except Err α} {p : α → Bool} (h : okSat r p = true) :
    ∃ x, r = .ok x ∧ p x = true := by
  unfold okSat at h
  split at h
  · next y => exact ⟨y, rfl, h⟩
  · cases h

/-- evaluate `scanFile` on a concrete input through the kernel-evaluable copy -/
theorem scanFile_eval {L : Language} {all : List Tok} {ms : List Measurement}
    (h : okEq (scanFileK L all) ms = true) : scanFile L all = .ok ms := by
  rw [scanFile_eq_K]; exact okEq_sound h

theorem buildScopes_eval {L : Language} {all : List Tok} {scs : List (Scope × List Range)}
    (h : okEq (buildScopesK L all) scs = true) : buildScopes L all = .ok scs := by
  rw [buildScopes_eq_K]; exact okEq_sound h

/-! ## token constructors for examples -/

namespace Ex
def kwT (v : Str) (l c : Nat) : Tok := ⟨1, 1, v, l, c⟩
def nmT (v : Str) (l c : Nat) : Tok := ⟨2, 2, v, l, c⟩
def puT (v : Str) (l c : Nat) : Tok := ⟨3, 3, v, l, c⟩
def opT (v : Str) (l c : Nat) : Tok := ⟨4, 4, v, l, c⟩
def cmT (v : Str) (l c : Nat) : Tok := ⟨5, 5, v, l, c⟩
def wsT (v : Str) (l c : Nat) : Tok := ⟨6, 6, v, l, c⟩
end Ex

end CL
