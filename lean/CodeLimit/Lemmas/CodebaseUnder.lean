import CodeLimit.Lemmas.CodebaseKeys
/-!
# "beneath" on strings: children of a folder key partition what lies beneath it
-/
namespace CL.Codebase

theorem under_iff {k s : Str} : under k s = true ↔ (k = rootKey ∨ k <+: s) := by
  simp [under, List.isPrefixOf_iff_prefix]

/-- `c` is the key of a direct sub-folder of the folder with key `k` -/
def IsChild (k c : Str) : Prop := GoodNR c ∧ parentKeyOf c = k

theorem goodNR_not_prefix_root {c : Str} (h : GoodNR c) : ¬ c <+: rootKey := by
  intro hp
  have hl := hp.length_le
  have e := List.prefix_iff_eq_take.mp hp
  obtain ⟨h1, h2⟩ := h
  match c, hl, e, h1, h2 with
  | [], _, _, h1, _ => simp at h1
  | [a], _, e, h1, _ =>
    simp [rootKey] at e h1
    subst e; exact absurd h1 (by decide)
  | [a, b], _, e, _, h2 =>
    simp [rootKey] at e
    obtain ⟨rfl, rfl⟩ := e
    exact h2 List.prefix_rfl
  | _ :: _ :: _ :: _, hl, _, _, _ => simp [rootKey] at hl

theorem prefix_antisymm {a b : Str} (h1 : a <+: b) (h2 : b <+: a) : a = b :=
  h1.eq_of_length (Nat.le_antisymm h1.length_le h2.length_le)

theorem IsChild.not_under {k c : Str} (h : IsChild k c) : under c k = false := by
  obtain ⟨hg, hp⟩ := h
  cases hu : under c k with
  | false => rfl
  | true =>
    exfalso
    rcases under_iff.mp hu with hr | hpre
    · exact hg.ne_root hr
    · rcases parentKeyOf_good hg with hr | ⟨_, hpre', hne⟩
      · rw [hp] at hr; subst hr
        exact goodNR_not_prefix_root hg hpre
      · rw [hp] at hpre' hne
        exact hne (prefix_antisymm hpre' hpre)

theorem IsChild.ne {k c : Str} (h : IsChild k c) : c ≠ k := by
  rintro rfl
  have h1 := h.not_under
  rw [under_iff.mpr (Or.inr List.prefix_rfl)] at h1
  cases h1

theorem IsChild.under_trans {k c s : Str} (h : IsChild k c) (hu : under c s = true) : under k s = true := by
  obtain ⟨hg, hp⟩ := h
  rcases parentKeyOf_good hg with hr | ⟨_, hpre', _⟩
  · rw [hp] at hr; simp [under, hr]
  · rcases under_iff.mp hu with hr | hpre
    · exact absurd hr hg.ne_root
    · rw [hp] at hpre'
      exact under_iff.mpr (Or.inr (hpre'.trans hpre))

/-- a folder key on the way to `s` is on the way to (or is) the key of the folder holding `s` -/
theorem isDirPrefix_le_dirKey {c s : Str} (h : IsDirPrefix c s) : c <+: dirKey s := by
  rcases last_slash s with hs | ⟨q, b, rfl, hb⟩
  · exact absurd h (not_isDirPrefix_noslash c hs)
  · rw [dirKey_slash q hb]
    exact ((isDirPrefix_file c q hb).mp h).1

/-- the key of the folder holding an admissible `s` is the root key or on the way to `s` -/
theorem dirKey_cases {s : Str} (hs : ¬ rootKey <+: s) :
    dirKey s = rootKey ∧ sl ∉ s ∨ (IsDirPrefix (dirKey s) s ∧ GoodNR (dirKey s)) := by
  rcases last_slash s with h | ⟨q, b, rfl, hb⟩
  · exact Or.inl ⟨dirKey_noslash h, h⟩
  · right
    rw [dirKey_slash q hb]
    have : IsDirPrefix (q ++ [sl]) (q ++ sl :: b) := ⟨⟨b, by simp⟩, List.getLast?_concat⟩
    exact ⟨this, this.good hs⟩

theorem IsChild.not_under_of_dirKey {k c s : Str} (h : IsChild k c) (hd : dirKey s = k) :
    under c s = false := by
  cases hu : under c s with
  | false => rfl
  | true =>
    exfalso
    rcases under_iff.mp hu with hr | hpre
    · exact h.1.ne_root hr
    · have := isDirPrefix_le_dirKey ⟨hpre, h.1.1⟩
      rw [hd] at this
      have h2 := h.not_under
      rw [under_iff.mpr (Or.inr this)] at h2
      cases h2

/-- two sub-folders of the same folder that both lie on the way to `s` are the same -/
theorem IsChild.unique {k c1 c2 s : Str} (h1 : IsChild k c1) (h2 : IsChild k c2)
    (u1 : under c1 s = true) (u2 : under c2 s = true) : c1 = c2 := by
  have p1 := (under_iff.mp u1).resolve_left h1.1.ne_root
  have p2 := (under_iff.mp u2).resolve_left h2.1.ne_root
  -- w.l.o.g. `a <+: b`
  have key : ∀ a b : Str, IsChild k a → IsChild k b → a <+: b → a = b := by
    intro a b ha hb hab
    have eb := hb.1.eq_concat
    generalize b.dropLast = F at eb
    subst eb
    rcases List.prefix_concat_iff.mp hab with e | hpF
    · exact e
    · exfalso
      have := isDirPrefix_le_dirKey ⟨hpF, ha.1.1⟩
      have hk : dirKey F = k := by
        have := hb.2; simpa [parentKeyOf] using this
      rw [hk] at this
      have h2 := ha.not_under
      rw [under_iff.mpr (Or.inr this)] at h2
      cases h2
  rcases List.prefix_or_prefix_of_prefix p1 p2 with h | h
  · exact key c1 c2 h1 h2 h
  · exact (key c2 c1 h2 h1 h).symm

/-- what lies beneath `k` is held by `k` itself or lies beneath a sub-folder of `k` that is on the way -/
theorem next_dir {k s : Str} (hk : k = rootKey ∨ GoodNR k) (hs : ¬ rootKey <+: s)
    (hu : under k s = true) : dirKey s = k ∨ ∃ c, IsChild k c ∧ IsDirPrefix c s := by
  rcases hk with rfl | hk
  · rcases first_slash s with h | ⟨b, r, rfl, hb⟩
    · exact Or.inl (dirKey_noslash h)
    · right
      have hp : IsDirPrefix (b ++ [sl]) (b ++ sl :: r) := ⟨⟨r, by simp⟩, List.getLast?_concat⟩
      refine ⟨b ++ [sl], ⟨hp.good hs, ?_⟩, hp⟩
      rw [parentKeyOf_concat, (parent_base_noslash hb).1]; rfl
  · obtain ⟨t, rfl⟩ := (under_iff.mp hu).resolve_left hk.ne_root
    have ek := hk.eq_concat
    generalize k.dropLast = q at ek
    subst ek
    rcases first_slash t with h | ⟨b, r, rfl, hb⟩
    · left
      have : q ++ [sl] ++ t = q ++ sl :: t := by simp
      rw [this, dirKey_slash q h]
    · right
      have e : q ++ [sl] ++ (b ++ sl :: r) = ((q ++ sl :: b) ++ [sl]) ++ r := by simp
      have hp : IsDirPrefix ((q ++ sl :: b) ++ [sl]) (q ++ [sl] ++ (b ++ sl :: r)) :=
        ⟨⟨r, e.symm⟩, List.getLast?_concat⟩
      refine ⟨(q ++ sl :: b) ++ [sl], ⟨hp.good hs, ?_⟩, hp⟩
      rw [parentKeyOf_concat, (parent_base_slash q hb).1]

theorem under_of_dirKey {k s : Str} (hs : ¬ rootKey <+: s) (hd : dirKey s = k) : under k s = true := by
  rcases dirKey_cases hs with ⟨h, _⟩ | ⟨h, _⟩
  · rw [← hd, h]; simp [under]
  · rw [← hd]; exact under_iff.mpr (Or.inr h.1)

/-- for a folder key `k' ≠ k`: beneath `k` iff its path is -/
theorem under_key_iff {k F : Str} (hk : k = rootKey ∨ GoodNR k) (hne : F ++ [sl] ≠ k) :
    under k (F ++ [sl]) = under k F := by
  rcases hk with rfl | hk
  · simp [under]
  · have : (k <+: F ++ [sl]) ↔ k <+: F := by
      rw [List.prefix_concat_iff]
      constructor
      · rintro (e | h)
        · exact absurd e.symm hne
        · exact h
      · exact Or.inr
    rw [Bool.eq_iff_iff, under_iff, under_iff, this]

end CL.Codebase
