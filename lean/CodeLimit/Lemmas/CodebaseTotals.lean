import CodeLimit.Lemmas.CodebaseDict
import CodeLimit.Lemmas.CodebaseProfile
/-!
# Language totals and grand totals after `add_file*`
-/
namespace CL.Codebase

theorem langTotals_none {L : Str} {es : List FileEntry} (h : ∀ e ∈ es, e.language ≠ L) :
    langTotals L es = LanguageTotals.new L := by
  have : es.filter (fun e => e.language = L) = [] := by
    rw [List.filter_eq_nil_iff]; intro e he; simpa using h e he
  simp [langTotals, this, LanguageTotals.new]

theorem langTotals_snoc_same (es : List FileEntry) (e : FileEntry) :
    langTotals e.language (es ++ [e]) = (langTotals e.language es).add e := by
  simp [langTotals, LanguageTotals.add, List.filter_append, List.sum_append,
    makeCountProfile_get]

theorem langTotals_snoc_other {L : Str} (es : List FileEntry) {e : FileEntry} (h : e.language ≠ L) :
    langTotals L (es ++ [e]) = langTotals L es := by
  simp [langTotals, List.filter_append, h]

/-- the `totals` dict after adding the files `es` -/
def TotalsFor (es : List FileEntry) (t : Totals) : Prop :=
  (t.map Prod.fst).Nodup ∧
  ∀ L, dget? L t = if ∃ e ∈ es, e.language = L then some (langTotals L es) else none

theorem totalsAdd_spec {es : List FileEntry} {t : Totals} (h : TotalsFor es t) (e : FileEntry) :
    ∃ t', totalsAdd t e = .ok t' ∧ TotalsFor (es ++ [e]) t' := by
  obtain ⟨hnd, hget⟩ := h
  generalize ht1 : (if !dhas e.language t then dset e.language (LanguageTotals.new e.language) t else t) = t1
  have hnd1 : (t1.map Prod.fst).Nodup := by
    rw [← ht1]; split
    · exact nodup_keys_dset _ _ hnd
    · exact hnd
  have hget1 : ∀ L, dget? L t1 =
      if L = e.language then some (langTotals L es) else dget? L t := by
    intro L
    rw [← ht1]
    by_cases hh : dhas e.language t = true
    · simp only [hh, Bool.not_true, Bool.false_eq_true, if_false]
      by_cases hL : L = e.language
      · subst hL
        simp only [if_true]
        rw [hget]
        obtain ⟨v, hv⟩ := dhas_iff.mp hh
        rw [hget] at hv
        split at hv
        · rename_i hex; simp [hex]
        · cases hv
      · simp [hL]
    · have hn : dget? e.language t = none := dhas_false_iff.mp (by simpa using hh)
      have hh' : dhas e.language t = false := by simpa using hh
      simp only [hh', Bool.not_false, if_true, dget?_dset]
      by_cases hL : L = e.language
      · subst hL
        simp only [if_true]
        rw [hget] at hn
        split at hn
        · cases hn
        · rename_i hex
          rw [langTotals_none]
          intro x hx hxl
          exact hex ⟨x, hx, hxl⟩
      · simp [hL]
  refine ⟨dset e.language ((langTotals e.language es).add e) t1, ?_, nodup_keys_dset _ _ hnd1, ?_⟩
  · have : dget? e.language t1 = some (langTotals e.language es) := by rw [hget1]; simp
    simp only [totalsAdd, ht1, bind, Except.bind, dgetE_ok this, pure, Except.pure]
  · intro L
    rw [dget?_dset]
    by_cases hL : L = e.language
    · subst hL
      have : ∃ x ∈ es ++ [e], x.language = e.language := ⟨e, by simp, rfl⟩
      simp only [if_true, this, langTotals_snoc_same]
    · have hne : e.language ≠ L := fun h => hL h.symm
      simp only [hL, if_false, hget1, hget, langTotals_snoc_other es hne]
      have : (∃ x ∈ es ++ [e], x.language = L) ↔ (∃ x ∈ es, x.language = L) := by
        constructor
        · rintro ⟨x, hx, hl⟩
          rcases List.mem_append.mp hx with h | h
          · exact ⟨x, h, hl⟩
          · simp at h; subst h; exact absurd hl hne
        · rintro ⟨x, hx, hl⟩; exact ⟨x, List.mem_append.mpr (Or.inl hx), hl⟩
      simp only [this]

theorem totalsFor_nil : TotalsFor [] [] := by
  refine ⟨by simp, ?_⟩
  intro L; simp [dget?]

/-! ## grand totals -/

def sumBy (g : LanguageTotals → Int) (t : Totals) : Int := (t.map fun x => g x.2).sum

theorem sumBy_dset (g : LanguageTotals → Int) (k : Str) (v : LanguageTotals) (t : Totals) :
    sumBy g (dset k v t) = sumBy g t + g v - (match dget? k t with | some o => g o | none => 0) := by
  induction t with
  | nil => simp [sumBy, dset, dget?]
  | cons x r ih =>
    obtain ⟨kx, vx⟩ := x
    by_cases h : kx = k
    · simp [sumBy, dset, dget?, h]; omega
    · simp only [sumBy, dset, h, if_false, List.map_cons, List.sum_cons, dget?] at ih ⊢
      rw [ih]; omega

/-- one `add_file` raises a sum over the languages by what `LanguageTotals.add` adds -/
theorem sumBy_totalsAdd (g : LanguageTotals → Int) (δ : FileEntry → Int)
    (hnew : ∀ L, g (LanguageTotals.new L) = 0) (hadd : ∀ t e, g (t.add e) = g t + δ e)
    {t t' : Totals} {e : FileEntry} (h : totalsAdd t e = .ok t') : sumBy g t' = sumBy g t + δ e := by
  unfold totalsAdd at h
  generalize ht1 : (if !dhas e.language t then dset e.language (LanguageTotals.new e.language) t else t) = t1 at h
  have h1 : sumBy g t1 = sumBy g t := by
    rw [← ht1]
    by_cases hh : dhas e.language t = true
    · simp [hh]
    · have hn : dget? e.language t = none := dhas_false_iff.mp (by simpa using hh)
      have hh' : dhas e.language t = false := by simpa using hh
      simp only [hh', Bool.not_false, if_true, sumBy_dset, hn, hnew]; omega
  simp only [bind, Except.bind, dgetE] at h
  cases hv : dget? e.language t1 with
  | none => simp [hv] at h
  | some v =>
    simp only [hv, pure, Except.pure, Except.ok.injEq] at h
    subst h
    rw [sumBy_dset, hv, hadd, h1]
    simp only []
    omega

end CL.Codebase
