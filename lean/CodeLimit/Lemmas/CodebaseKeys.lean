import CodeLimit.Lemmas.CodebasePath
/-!
# Folder keys: prefixes ending in `/`, parent key and entry name of a key
-/
namespace CL.Codebase

theorem rootKey_def : rootKey = [dot, sl] := rfl

/-- a prefix that ends with `/` does not reach into a slash-free tail -/
theorem prefix_cut {k x y : Str} (hk : k.getLast? = some sl) (hp : k <+: x ++ y) (hy : sl ∉ y) :
    k <+: x := by
  rcases List.prefix_or_prefix_of_prefix hp (List.prefix_append x y) with h | ⟨t, rfl⟩
  · exact h
  · rw [List.prefix_append_right_inj] at hp
    cases t with
    | nil => simp
    | cons c t' =>
      have : (x ++ c :: t').getLast? = (c :: t').getLast? := by
        rw [List.getLast?_append]
        cases h : (c :: t').getLast? with
        | none => simp at h
        | some a => simp
      rw [this] at hk
      exact absurd (List.IsPrefix.mem (List.mem_of_getLast? hk) hp) hy

theorem dirKey_noslash {s : Str} (h : sl ∉ s) : dirKey s = rootKey := by
  simp [dirKey, (parent_base_noslash h).1, rootKey]

theorem dirKey_slash (q : Str) {b : Str} (h : sl ∉ b) : dirKey (q ++ sl :: b) = q ++ [sl] := by
  simp [dirKey, (parent_base_slash q h).1]

theorem isDirPrefix_file (k q : Str) {b : Str} (h : sl ∉ b) :
    IsDirPrefix k (q ++ sl :: b) ↔ IsDirPrefix k (q ++ [sl]) := by
  have e : q ++ sl :: b = (q ++ [sl]) ++ b := by simp
  constructor
  · rintro ⟨hp, hl⟩
    rw [e] at hp
    exact ⟨prefix_cut hl hp h, hl⟩
  · rintro ⟨hp, hl⟩
    exact ⟨e ▸ hp.trans (List.prefix_append _ _), hl⟩

theorem not_isDirPrefix_noslash (k : Str) {p : Str} (h : sl ∉ p) : ¬ IsDirPrefix k p := by
  rintro ⟨hp, hl⟩
  exact h (List.IsPrefix.mem (List.mem_of_getLast? hl) hp)

theorem isDirPrefix_self (F : Str) : IsDirPrefix (F ++ [sl]) (F ++ [sl]) :=
  ⟨List.prefix_rfl, List.getLast?_concat⟩

theorem IsDirPrefix.trans {a b c : Str} (h1 : IsDirPrefix a b) (h2 : b <+: c) : IsDirPrefix a c :=
  ⟨h1.1.trans h2, h1.2⟩

/-- the folder keys on the way to the folder `F/`: `F/` itself and those on the way to its parent -/
theorem isDirPrefix_step (k F : Str) (hF : ¬ rootKey <+: F ++ [sl]) :
    IsDirPrefix k (F ++ [sl]) ↔
      k = F ++ [sl] ∨ (getParentFolder F ≠ [dot] ∧ IsDirPrefix k (getParentFolder F ++ [sl])) := by
  rcases last_slash F with h | ⟨q, b, rfl, hb⟩
  · rw [(parent_base_noslash h).1]
    constructor
    · rintro ⟨hp, hl⟩
      rcases List.prefix_concat_iff.mp hp with e | hp'
      · exact Or.inl e
      · exact absurd (List.IsPrefix.mem (List.mem_of_getLast? hl) hp') h
    · rintro (rfl | ⟨h', _⟩)
      · exact isDirPrefix_self F
      · exact absurd rfl h'
  · rw [(parent_base_slash q hb).1]
    have hq : q ≠ [dot] := by
      rintro rfl
      exact hF ⟨b ++ [sl], by simp [rootKey]⟩
    constructor
    · rintro ⟨hp, hl⟩
      rcases List.prefix_concat_iff.mp hp with e | hp'
      · exact Or.inl e
      · exact Or.inr ⟨hq, ((isDirPrefix_file k q hb).mp ⟨hp', hl⟩)⟩
    · rintro (rfl | ⟨_, h'⟩)
      · exact isDirPrefix_self _
      · exact ((isDirPrefix_file k q hb).mpr h').trans (List.prefix_append _ _)

theorem IsDirPrefix.good {k s : Str} (h : IsDirPrefix k s) (hs : ¬ rootKey <+: s) : GoodNR k :=
  ⟨h.2, fun hr => hs (hr.trans h.1)⟩

theorem GoodNR.ne_root {k : Str} (h : GoodNR k) : k ≠ rootKey := by
  rintro rfl; exact h.2 List.prefix_rfl

theorem GoodNR.eq_concat {k : Str} (h : GoodNR k) : k = k.dropLast ++ [sl] := by
  obtain ⟨ys, rfl⟩ := List.getLast?_eq_some_iff.mp h.1
  simp

theorem goodNR_concat {F : Str} : GoodNR (F ++ [sl]) ↔ ¬ rootKey <+: F ++ [sl] := by
  simp [GoodNR]

theorem parentKeyOf_concat (F : Str) : parentKeyOf (F ++ [sl]) = getParentFolder F ++ [sl] := by
  simp [parentKeyOf, dirKey]

theorem nameOf_concat (F : Str) : nameOf (F ++ [sl]) = getBasename F ++ [sl] := by
  simp [nameOf]

/-- the shape of a sub-folder entry name: one component followed by `/` -/
def IsName (n : Str) : Prop := ∃ b, n = b ++ [sl] ∧ sl ∉ b

theorem nameOf_isName (k : Str) : IsName (nameOf k) := ⟨_, rfl, basename_noslash _⟩

/-- `aggregate_folder` finds a folder back from its parent's key and its entry name -/
theorem childKey_parent_name {k : Str} (h : GoodNR k) : childKey (parentKeyOf k) (nameOf k) = k := by
  have e := h.eq_concat
  generalize k.dropLast = F at e
  subst e
  rw [parentKeyOf_concat, nameOf_concat]
  rcases last_slash F with hs | ⟨q, b, rfl, hb⟩
  · rw [(parent_base_noslash hs).1, (parent_base_noslash hs).2]
    simp [childKey, rootKey]
  · rw [(parent_base_slash q hb).1, (parent_base_slash q hb).2]
    have : q ++ [sl] ≠ rootKey := by
      intro e
      have : q = [dot] := by
        have := congrArg List.dropLast e
        simpa [rootKey] using this
      subst this
      exact h.2 ⟨b ++ [sl], by simp [rootKey]⟩
    simp [childKey, this]

theorem goodNR_inj {k1 k2 : Str} (h1 : GoodNR k1) (h2 : GoodNR k2)
    (hp : parentKeyOf k1 = parentKeyOf k2) (hn : nameOf k1 = nameOf k2) : k1 = k2 := by
  rw [← childKey_parent_name h1, ← childKey_parent_name h2, hp, hn]

/-- the parent key of a good key is the root key or a good key, and lies on the way to it -/
theorem parentKeyOf_good {k : Str} (h : GoodNR k) :
    parentKeyOf k = rootKey ∨ (GoodNR (parentKeyOf k) ∧ parentKeyOf k <+: k ∧ parentKeyOf k ≠ k) := by
  have e := h.eq_concat
  generalize k.dropLast = F at e
  subst e
  rw [parentKeyOf_concat]
  rcases last_slash F with hs | ⟨q, b, rfl, hb⟩
  · left; rw [(parent_base_noslash hs).1]; rfl
  · right
    rw [(parent_base_slash q hb).1]
    have hp : q ++ [sl] <+: (q ++ sl :: b) ++ [sl] := ⟨b ++ [sl], by simp⟩
    refine ⟨⟨List.getLast?_concat, fun hr => h.2 (hr.trans hp)⟩, hp, ?_⟩
    intro e
    have := congrArg List.length e
    simp at this

end CL.Codebase
