import CodeLimit.Spec.FindAll
/-!
# Lemmas for C14 (`find_all`)

* `runM` / `slice` algebra;
* uniqueness of the greedy finish (`greedy_alive_le`, `not_greedy_of_stuck`);
* the loop invariants of `procOne` / `procAll` / `outer` / `finalize`;
* `dfaMachine_deadStuck`.
-/
namespace CL

variable {β σ : Type}

/-! ## `runM` and `slice` -/

theorem runM_append (A : Machine β σ) (s : σ) (l1 l2 : List β) :
    runM A s (l1 ++ l2) = (runM A s l1).bind (fun q => runM A q l2) := by
  induction l1 generalizing s with
  | nil => simp [runM]
  | cons x l ih =>
    rcases h : A.step s x with e | (_ | s') <;> simp [runM, h, ih]

theorem runM_snoc (A : Machine β σ) (s q : σ) (l : List β) (x : β)
    (h : runM A s l = some q) :
    runM A s (l ++ [x]) = (match A.step q x with | .ok (some q') => some q' | _ => none) := by
  rw [runM_append, h]
  rcases h' : A.step q x with e | (_ | s') <;> simp [runM, h']

theorem slice_self (xs : List β) (s : Nat) : slice xs s s = [] := by
  simp [slice]

theorem slice_split (xs : List β) {s e e' : Nat} (h1 : s ≤ e) (h2 : e ≤ e') :
    slice xs s e' = slice xs s e ++ slice xs e e' := by
  unfold slice
  have h : e' - s = (e - s) + (e' - e) := by omega
  rw [h, List.take_add, List.drop_drop]
  have h' : s + (e - s) = e := by omega
  rw [h']

theorem slice_one (xs : List β) {e : Nat} {x : β} (h : xs[e]? = some x) :
    slice xs e (e + 1) = [x] := by
  unfold slice
  have h0 : e + 1 - e = 1 := by omega
  rw [h0]
  have : (xs.drop e)[0]? = some x := by simpa using h
  cases hd : xs.drop e with
  | nil => simp [hd] at this
  | cons y t => simp [hd] at this; simp [this]

theorem slice_succ (xs : List β) {s e : Nat} {x : β} (h1 : s ≤ e) (h : xs[e]? = some x) :
    slice xs s (e + 1) = slice xs s e ++ [x] := by
  rw [slice_split xs h1 (Nat.le_succ e), slice_one xs h]

/-- a run over a longer slice that succeeds also succeeds over every shorter slice -/
theorem runM_slice_prefix (A : Machine β σ) (xs : List β) {s e e' : Nat} {q : σ}
    (h1 : s ≤ e) (h2 : e ≤ e') (h : runM A A.init (slice xs s e') = some q) :
    ∃ q', runM A A.init (slice xs s e) = some q' := by
  rw [slice_split xs h1 h2, runM_append] at h
  cases h' : runM A A.init (slice xs s e) with
  | none => simp [h'] at h
  | some q' => exact ⟨q', rfl⟩

/-- once the run is stuck at `e`, every longer slice fails -/
theorem runM_none_of_stuck (A : Machine β σ) (xs : List β) {s e e' : Nat} {q : σ} {x : β}
    (h1 : s ≤ e) (h2 : e < e') (hr : runM A A.init (slice xs s e) = some q)
    (hx : xs[e]? = some x) (hs : A.step q x = .ok none) :
    runM A A.init (slice xs s e') = none := by
  have h3 : runM A A.init (slice xs s (e + 1)) = none := by
    rw [slice_succ xs h1 hx, runM_snoc A _ _ _ _ hr, hs]
  rw [slice_split xs (Nat.le_succ_of_le h1) (Nat.succ_le_of_lt h2), runM_append, h3]
  rfl

/-! ## uniqueness of the greedy finish -/

/-- what `GreedyAt` says about the state at the finish when the input goes on -/
theorem GreedyAt.stuck {A : Machine β σ} {xs : List β} {p f : Nat} (hds : DeadStuck A)
    (hg : GreedyAt A xs p f) (hf : f < xs.length) :
    ∃ q x, runM A A.init (slice xs p f) = some q ∧ xs[f]? = some x ∧ A.step q x = .ok none := by
  obtain ⟨_, _, q, hr, _, hend⟩ := hg
  rcases hend with h | h | ⟨x, hx, hs⟩
  · omega
  · exact ⟨q, xs[f], hr, by simp [hf], hds q _ h⟩
  · exact ⟨q, x, hr, hx, hs⟩

/-- the stronger form of "longest": no longer slice can even be run -/
theorem GreedyAt.longer_none {A : Machine β σ} {xs : List β} {p f e' : Nat} (hds : DeadStuck A)
    (hg : GreedyAt A xs p f) (h1 : f < e') (h2 : e' ≤ xs.length) :
    runM A A.init (slice xs p e') = none := by
  obtain ⟨q, x, hr, hx, hs⟩ := hg.stuck hds (by omega)
  exact runM_none_of_stuck A xs (Nat.le_of_lt hg.1) h1 hr hx hs

/-- an attempt from `p` that is still alive at `e` has not passed the greedy finish -/
theorem greedy_alive_le {A : Machine β σ} {xs : List β} {p f e : Nat} {q : σ} (hds : DeadStuck A)
    (hg : GreedyAt A xs p f) (h2 : e ≤ xs.length)
    (hr : runM A A.init (slice xs p e) = some q) : e ≤ f := by
  by_cases h : e ≤ f
  · exact h
  · have := hg.longer_none hds (Nat.lt_of_not_le h) h2
    rw [this] at hr; cases hr

/-- an attempt that ends (stuck or end of input) in a non-accepting state is not greedy -/
theorem not_greedy_of_stuck {A : Machine β σ} {xs : List β} {p e : Nat} {q : σ}
    (hds : DeadStuck A) (h1 : p ≤ e) (h2 : e ≤ xs.length)
    (hr : runM A A.init (slice xs p e) = some q) (hacc : A.acc q = false)
    (hend : e = xs.length ∨ ∃ x, xs[e]? = some x ∧ A.step q x = .ok none) :
    ∀ f, ¬ GreedyAt A xs p f := by
  intro f hg
  have hle := greedy_alive_le hds hg h2 hr
  rcases Nat.lt_or_eq_of_le hle with hlt | heq
  · rcases hend with h | ⟨x, hx, hs⟩
    · have := hg.2.1; omega
    · obtain ⟨_, _, q', hr', _, _⟩ := hg
      rw [runM_none_of_stuck A xs h1 hlt hr hx hs] at hr'; cases hr'
  · subst heq
    obtain ⟨_, _, q', hr', hacc', _⟩ := hg
    rw [hr] at hr'; cases hr'
    rw [hacc] at hacc'; cases hacc'

/-! ## the committed list -/

/-- a committed match is a greedy match of the input and recorded exactly the matched items -/
def MOk (A : Machine β σ) (ys : List β) (m : Match β) : Prop :=
  GreedyAt A ys m.s m.e ∧ m.toks = slice ys m.s m.e

/-- the attempt `a` is in the state reached over `ys[a.start..k)` and recorded those items -/
def AttAt (A : Machine β σ) (ys : List β) (k : Nat) (a : Att β σ) : Prop :=
  a.start ≤ k ∧ runM A A.init (slice ys a.start k) = some a.st ∧
    a.toks.reverse = slice ys a.start k

/-- position `p` was overtaken by a committed match `m`: the attempt from `p` was still running
at `m.e`, and when `m` starts after `p` it was even running one item later -/
def Pre (A : Machine β σ) (ys : List β) (ms : List (Match β)) (p : Nat) : Prop :=
  ∃ m ∈ ms, p < m.e ∧ (∃ q, runM A A.init (slice ys p m.e) = some q) ∧
    (p < m.s → m.e < ys.length ∧ ∃ q, runM A A.init (slice ys p (m.e + 1)) = some q)

/-- greedy matching from `p` fails -/
def NoGreedy (A : Machine β σ) (ys : List β) (p : Nat) : Prop := ∀ f, ¬ GreedyAt A ys p f

theorem Pre.mono {A : Machine β σ} {ys : List β} {ms ms' : List (Match β)} {p : Nat}
    (h : Pre A ys ms p) (hsub : ∀ m ∈ ms, m ∈ ms') : Pre A ys ms' p := by
  obtain ⟨m, hm, h'⟩ := h
  exact ⟨m, hsub m hm, h'⟩

theorem le_lastEnd {ms : List (Match β)} (hpw : ms.Pairwise (fun m m' => m'.e ≤ m.s))
    (hlt : ∀ m ∈ ms, m.s < m.e) : ∀ m ∈ ms, m.e ≤ lastEnd ms := by
  cases ms with
  | nil => simp
  | cons m0 r =>
    intro m hm
    simp only [lastEnd]
    rcases List.mem_cons.1 hm with rfl | hm
    · exact Nat.le_refl _
    · have h1 := (List.pairwise_cons.1 hpw).1 m hm
      have h2 := hlt m0 (by simp)
      omega

theorem guard_false {ms : List (Match β)} {s : Nat}
    (hpw : ms.Pairwise (fun m m' => m'.e ≤ m.s)) (hlt : ∀ m ∈ ms, m.s < m.e)
    (hg : ¬ ((!ms.isEmpty && decide (s < lastEnd ms)) = true)) : ∀ m ∈ ms, m.e ≤ s := by
  intro m hm
  have h1 := le_lastEnd hpw hlt m hm
  cases ms with
  | nil => simp at hm
  | cons m0 r =>
    have h2 : ¬ s < m0.e := by
      simp only [List.isEmpty_cons, Bool.not_false, Bool.true_and, Bool.not_eq_true] at hg
      exact of_decide_eq_false hg
    have h3 : m.e ≤ m0.e := by simpa [lastEnd] using h1
    omega

theorem guard_true {ms : List (Match β)} {s : Nat}
    (hg : (!ms.isEmpty && decide (s < lastEnd ms)) = true) : ∃ m ∈ ms, s < m.e := by
  cases ms with
  | nil => simp at hg
  | cons m0 r =>
    refine ⟨m0, by simp, ?_⟩
    simp only [List.isEmpty_cons, Bool.not_false, Bool.true_and] at hg
    exact of_decide_eq_true hg

/-! ## invariant of the inner loop (also used, with `next = []`, for the final loop) -/

/-- state of the inner loop at index `idx`: `fs` is the loop state, `ps` the attempts still to
be processed -/
structure InInv (A : Machine β σ) (ys : List β) (idx : Nat) (fs : FS β σ)
    (ps : List (Att β σ)) : Prop where
  ms_ok : ∀ m ∈ fs.ms, MOk A ys m
  ms_le : ∀ m ∈ fs.ms, m.e ≤ idx
  ms_pw : fs.ms.Pairwise (fun m m' => m'.e ≤ m.s)
  ms_cur : ∀ m ∈ fs.ms, m.e = idx → ∀ a ∈ ps, m.s ≤ a.start
  next_ok : ∀ a ∈ fs.next, AttAt A ys (idx + 1) a ∧ a.start ≤ idx
  ps_ok : ∀ a ∈ ps, AttAt A ys idx a
  sorted : (fs.next.reverse.map (·.start) ++ ps.map (·.start)).Pairwise (· < ·)
  cover : ∀ p, p ≤ idx → (∃ a ∈ ps, a.start = p) ∨ (∃ a ∈ fs.next, a.start = p) ∨
    Pre A ys fs.ms p ∨ NoGreedy A ys p

section
variable {A : Machine β σ} {ys : List β} {idx : Nat} {fs : FS β σ} {a : Att β σ}
  {ps : List (Att β σ)}

/-- the attempt at the head of the work list is dropped -/
theorem InInv.drop (h : InInv A ys idx fs (a :: ps))
    (hc : Pre A ys fs.ms a.start ∨ NoGreedy A ys a.start) : InInv A ys idx fs ps where
  ms_ok := h.ms_ok
  ms_le := h.ms_le
  ms_pw := h.ms_pw
  ms_cur := fun m hm he b hb => h.ms_cur m hm he b (List.mem_cons_of_mem _ hb)
  next_ok := h.next_ok
  ps_ok := fun b hb => h.ps_ok b (List.mem_cons_of_mem _ hb)
  sorted := h.sorted.sublist (by simp)
  cover := by
    intro p hp
    rcases h.cover p hp with ⟨b, hb, rfl⟩ | h' | h' | h'
    · rcases List.mem_cons.1 hb with rfl | hb
      · rcases hc with hc | hc
        · exact .inr (.inr (.inl hc))
        · exact .inr (.inr (.inr hc))
      · exact .inl ⟨b, hb, rfl⟩
    · exact .inr (.inl h')
    · exact .inr (.inr (.inl h'))
    · exact .inr (.inr (.inr h'))

/-- the overlap guard fired: the head attempt is overtaken by the latest committed match -/
theorem InInv.pre_of_guard (h : InInv A ys idx fs (a :: ps)) (hidx : idx ≤ ys.length)
    (hg : (!fs.ms.isEmpty && decide (a.start < lastEnd fs.ms)) = true) :
    Pre A ys fs.ms a.start := by
  obtain ⟨m0, hm0, hlt⟩ := guard_true hg
  obtain ⟨hs, hr, _⟩ := h.ps_ok a (List.mem_cons_self ..)
  have hle := h.ms_le m0 hm0
  refine ⟨m0, hm0, hlt, runM_slice_prefix A ys (Nat.le_of_lt hlt) hle hr, ?_⟩
  intro hps
  have hne : m0.e ≠ idx := fun he => by
    have := h.ms_cur m0 hm0 he a (List.mem_cons_self ..); omega
  have h1 : m0.e + 1 ≤ idx := by omega
  exact ⟨by omega, runM_slice_prefix A ys (by omega) h1 hr⟩

/-- the head attempt is committed as a match ending at `idx` -/
theorem InInv.commit (hnn : A.acc A.init = false) (h : InInv A ys idx fs (a :: ps))
    (hidx : idx ≤ ys.length)
    (hg : ¬ ((!fs.ms.isEmpty && decide (a.start < lastEnd fs.ms)) = true))
    (hacc : A.acc a.st = true)
    (hend : idx = ys.length ∨ A.dead a.st = true ∨
      ∃ x, ys[idx]? = some x ∧ A.step a.st x = .ok none) :
    InInv A ys idx { fs with ms := a.toMatch idx :: fs.ms } ps := by
  obtain ⟨hs, hr, ht⟩ := h.ps_ok a (List.mem_cons_self ..)
  have hlt : a.start < idx := by
    apply Nat.lt_of_le_of_ne hs
    intro heq
    rw [heq, slice_self] at hr
    simp only [runM, Option.some.injEq] at hr
    rw [← hr, hnn] at hacc; cases hacc
  have hG : GreedyAt A ys a.start idx := ⟨hlt, hidx, a.st, hr, hacc, hend⟩
  have hge := guard_false h.ms_pw (fun m hm => (h.ms_ok m hm).1.1) hg
  have h' : InInv A ys idx { fs with ms := a.toMatch idx :: fs.ms } (a :: ps) :=
    { ms_ok := by
        intro m hm
        rcases List.mem_cons.1 hm with rfl | hm
        · exact ⟨hG, ht⟩
        · exact h.ms_ok m hm
      ms_le := by
        intro m hm
        rcases List.mem_cons.1 hm with rfl | hm
        · exact Nat.le_refl _
        · exact h.ms_le m hm
      ms_pw := List.pairwise_cons.2 ⟨fun m hm => hge m hm, h.ms_pw⟩
      ms_cur := by
        intro m hm he b hb
        rcases List.mem_cons.1 hm with rfl | hm
        · rcases List.mem_cons.1 hb with rfl | hb
          · exact Nat.le_refl _
          · have := h.sorted
            simp only [List.map_cons, List.pairwise_append, List.pairwise_cons] at this
            exact Nat.le_of_lt (this.2.1.1 _ (List.mem_map_of_mem hb))
        · exact h.ms_cur m hm he b hb
      next_ok := h.next_ok
      ps_ok := h.ps_ok
      sorted := h.sorted
      cover := by
        intro p hp
        rcases h.cover p hp with h' | h' | h' | h'
        · exact .inl h'
        · exact .inr (.inl h')
        · exact .inr (.inr (.inl (h'.mono (fun m hm => List.mem_cons_of_mem _ hm))))
        · exact .inr (.inr (.inr h')) }
  refine h'.drop (.inl ⟨a.toMatch idx, List.mem_cons_self .., hlt, ⟨a.st, hr⟩, ?_⟩)
  intro hcontra
  exact absurd hcontra (Nat.lt_irrefl _)

/-- the head attempt consumes the item and moves to the next-state list -/
theorem InInv.advance {x : β} {q : σ} (h : InInv A ys idx fs (a :: ps))
    (hx : ys[idx]? = some x) (hstep : A.step a.st x = .ok (some q)) :
    InInv A ys idx { fs with next := { a with st := q, toks := x :: a.toks } :: fs.next } ps := by
  obtain ⟨hs, hr, ht⟩ := h.ps_ok a (List.mem_cons_self ..)
  exact
    { ms_ok := h.ms_ok
      ms_le := h.ms_le
      ms_pw := h.ms_pw
      ms_cur := fun m hm he b hb => h.ms_cur m hm he b (List.mem_cons_of_mem _ hb)
      next_ok := by
        intro b hb
        rcases List.mem_cons.1 hb with rfl | hb
        · refine ⟨⟨Nat.le_succ_of_le hs, ?_, ?_⟩, hs⟩
          · show runM A A.init (slice ys a.start (idx + 1)) = some q
            rw [slice_succ ys hs hx, runM_snoc A _ _ _ _ hr, hstep]
          · show (x :: a.toks).reverse = slice ys a.start (idx + 1)
            rw [slice_succ ys hs hx, List.reverse_cons, ht]
        · exact h.next_ok b hb
      ps_ok := fun b hb => h.ps_ok b (List.mem_cons_of_mem _ hb)
      sorted := by
        have := h.sorted
        simpa [List.append_assoc] using this
      cover := by
        intro p hp
        rcases h.cover p hp with ⟨b, hb, rfl⟩ | ⟨b, hb, rfl⟩ | h' | h'
        · rcases List.mem_cons.1 hb with rfl | hb
          · exact .inr (.inl ⟨_, List.mem_cons_self .., rfl⟩)
          · exact .inl ⟨b, hb, rfl⟩
        · exact .inr (.inl ⟨b, List.mem_cons_of_mem _ hb, rfl⟩)
        · exact .inr (.inr (.inl h'))
        · exact .inr (.inr (.inr h')) }

/-- one step of the inner loop preserves the invariant -/
theorem procOne_inv {x : β} {fs' : FS β σ} (hnn : A.acc A.init = false) (hds : DeadStuck A)
    (hx : ys[idx]? = some x) (h : InInv A ys idx fs (a :: ps))
    (he : procOne A idx x fs a = .ok fs') : InInv A ys idx fs' ps := by
  have hidx : idx < ys.length := by
    rcases List.getElem?_eq_some_iff.1 hx with ⟨h, _⟩; exact h
  obtain ⟨hs, hr, ht⟩ := h.ps_ok a (List.mem_cons_self ..)
  unfold procOne at he
  split at he
  · rename_i hg
    cases he
    exact h.drop (.inl (h.pre_of_guard (Nat.le_of_lt hidx) hg))
  · rename_i hg
    split at he
    · rename_i hda
      cases he
      simp only [Bool.and_eq_true] at hda
      exact h.commit hnn (Nat.le_of_lt hidx) hg hda.2 (.inr (.inl hda.1))
    · split at he
      · cases he
      · rename_i q hstep
        cases he
        exact h.advance hx hstep
      · rename_i hstep
        cases he
        split
        · rename_i hacc
          exact h.commit hnn (Nat.le_of_lt hidx) hg hacc (.inr (.inr ⟨x, hx, hstep⟩))
        · rename_i hacc
          exact h.drop (.inr (not_greedy_of_stuck hds hs (Nat.le_of_lt hidx) hr
            (by simpa using hacc) (.inr ⟨x, hx, hstep⟩)))

theorem procAll_inv {x : β} {fs' : FS β σ} (hnn : A.acc A.init = false) (hds : DeadStuck A)
    (hx : ys[idx]? = some x) (h : InInv A ys idx fs ps)
    (he : procAll A idx x ps fs = .ok fs') : InInv A ys idx fs' [] := by
  induction ps generalizing fs with
  | nil => simp only [procAll, Except.ok.injEq] at he; subst he; exact h
  | cons a ps ih =>
    simp only [procAll] at he
    split at he
    · cases he
    · rename_i fs1 h1
      exact ih (procOne_inv hnn hds hx h h1) he

end

/-! ## invariant of the outer loop -/

/-- state at the top of the outer loop at index `idx` -/
structure OutInv (A : Machine β σ) (ys : List β) (idx : Nat) (ms : List (Match β))
    (act : List (Att β σ)) : Prop where
  ms_ok : ∀ m ∈ ms, MOk A ys m
  ms_lt : ∀ m ∈ ms, m.e < idx
  ms_pw : ms.Pairwise (fun m m' => m'.e ≤ m.s)
  act_ok : ∀ a ∈ act, AttAt A ys idx a ∧ a.start < idx
  sorted : (act.map (·.start)).Pairwise (· < ·)
  cover : ∀ p, p < idx → (∃ a ∈ act, a.start = p) ∨ Pre A ys ms p ∨ NoGreedy A ys p

section
variable {A : Machine β σ} {ys : List β} {idx : Nat} {ms : List (Match β)}
  {act : List (Att β σ)}

theorem OutInv.init (A : Machine β σ) (ys : List β) : OutInv A ys 0 [] ([] : List (Att β σ)) where
  ms_ok := by simp
  ms_lt := by simp
  ms_pw := List.Pairwise.nil
  act_ok := by simp
  sorted := by simp
  cover := by intro p hp; omega

/-- entering the inner loop: the fresh attempt is appended -/
theorem OutInv.toIn (h : OutInv A ys idx ms act) :
    InInv A ys idx ⟨ms, []⟩ (act ++ [⟨idx, A.init, []⟩]) where
  ms_ok := h.ms_ok
  ms_le := fun m hm => Nat.le_of_lt (h.ms_lt m hm)
  ms_pw := h.ms_pw
  ms_cur := fun m hm he => absurd he (Nat.ne_of_lt (h.ms_lt m hm))
  next_ok := by simp
  ps_ok := by
    intro a ha
    rcases List.mem_append.1 ha with ha | ha
    · exact (h.act_ok a ha).1
    · simp only [List.mem_singleton] at ha
      subst ha
      exact ⟨Nat.le_refl _, by simp [slice_self, runM], by simp [slice_self]⟩
  sorted := by
    have := h.sorted
    simp only [List.reverse_nil, List.map_nil, List.nil_append, List.map_append, List.map_cons,
      List.pairwise_append, List.pairwise_cons, List.mem_map, List.mem_singleton]
    refine ⟨this, ⟨by simp, List.Pairwise.nil⟩, ?_⟩
    rintro _ ⟨a, ha, rfl⟩ _ rfl
    exact (h.act_ok a ha).2
  cover := by
    intro p hp
    rcases Nat.lt_or_eq_of_le hp with hlt | rfl
    · rcases h.cover p hlt with ⟨a, ha, rfl⟩ | h' | h'
      · exact .inl ⟨a, List.mem_append_left _ ha, rfl⟩
      · exact .inr (.inr (.inl h'))
      · exact .inr (.inr (.inr h'))
    · exact .inl ⟨_, List.mem_append_right _ (List.mem_singleton.2 rfl), rfl⟩

/-- entering the final loop (no fresh attempt) -/
theorem OutInv.toFin (h : OutInv A ys ys.length ms act) :
    InInv A ys ys.length ⟨ms, []⟩ act where
  ms_ok := h.ms_ok
  ms_le := fun m hm => Nat.le_of_lt (h.ms_lt m hm)
  ms_pw := h.ms_pw
  ms_cur := fun m hm he => absurd he (Nat.ne_of_lt (h.ms_lt m hm))
  next_ok := by simp
  ps_ok := fun a ha => (h.act_ok a ha).1
  sorted := by simpa using h.sorted
  cover := by
    intro p hp
    rcases Nat.lt_or_eq_of_le hp with hlt | rfl
    · rcases h.cover p hlt with h' | h' | h'
      · exact .inl h'
      · exact .inr (.inr (.inl h'))
      · exact .inr (.inr (.inr h'))
    · refine .inr (.inr (.inr ?_))
      intro f hg
      have h1 := hg.1
      have h2 := hg.2.1
      omega

/-- leaving the inner loop -/
theorem InInv.toOut {fs : FS β σ} (h : InInv A ys idx fs []) :
    OutInv A ys (idx + 1) fs.ms fs.next.reverse where
  ms_ok := h.ms_ok
  ms_lt := fun m hm => Nat.lt_succ_of_le (h.ms_le m hm)
  ms_pw := h.ms_pw
  act_ok := by
    intro a ha
    have := h.next_ok a (List.mem_reverse.1 ha)
    exact ⟨this.1, Nat.lt_succ_of_le this.2⟩
  sorted := by simpa using h.sorted
  cover := by
    intro p hp
    rcases h.cover p (Nat.le_of_lt_succ hp) with ⟨a, ha, _⟩ | ⟨a, ha, rfl⟩ | h' | h'
    · simp at ha
    · exact .inl ⟨a, List.mem_reverse.2 ha, rfl⟩
    · exact .inr (.inl h')
    · exact .inr (.inr h')

theorem outer_inv (hnn : A.acc A.init = false) (hds : DeadStuck A)
    {rest : List β} {ms' : List (Match β)} {act' : List (Att β σ)}
    (h : OutInv A ys idx ms act) (hrest : ys.drop idx = rest) (hle : idx ≤ ys.length)
    (he : outer A idx rest ms act = .ok (ms', act')) : OutInv A ys ys.length ms' act' := by
  induction rest generalizing idx ms act with
  | nil =>
    simp only [outer, Except.ok.injEq, Prod.mk.injEq] at he
    obtain ⟨rfl, rfl⟩ := he
    have : ys.length ≤ idx := by simpa using hrest
    have : idx = ys.length := by omega
    subst this; exact h
  | cons x rest ih =>
    have hx : ys[idx]? = some x := by
      have : (ys.drop idx)[0]? = some x := by rw [hrest]; rfl
      simpa using this
    have hidx : idx < ys.length := by
      rcases List.getElem?_eq_some_iff.1 hx with ⟨h, _⟩; exact h
    have hrest' : ys.drop (idx + 1) = rest := by
      have : (ys.drop idx).drop 1 = rest := by rw [hrest]; rfl
      simpa [List.drop_drop] using this
    simp only [outer] at he
    split at he
    · cases he
    · rename_i fs hfs
      exact ih (procAll_inv hnn hds hx h.toIn hfs).toOut hrest' hidx he

/-! ## the final loop -/

theorem finalize_cons (A : Machine β σ) (n : Nat) (ms : List (Match β)) (a : Att β σ)
    (ps : List (Att β σ)) :
    finalize A n ms (a :: ps) = finalize A n
      (if !ms.isEmpty && a.start < lastEnd ms then ms
       else if A.acc a.st then a.toMatch n :: ms else ms) ps := rfl

theorem finalize_inv (hnn : A.acc A.init = false) (hds : DeadStuck A)
    (h : InInv A ys ys.length ⟨ms, []⟩ act) :
    InInv A ys ys.length ⟨finalize A ys.length ms act, []⟩ [] := by
  induction act generalizing ms with
  | nil => exact h
  | cons a ps ih =>
    rw [finalize_cons]
    obtain ⟨hs, hr, ht⟩ := h.ps_ok a (List.mem_cons_self ..)
    split
    · rename_i hg
      exact ih (h.drop (.inl (h.pre_of_guard (Nat.le_refl _) hg)))
    · rename_i hg
      split
      · rename_i hacc
        exact ih (h.commit hnn (Nat.le_refl _) hg hacc (.inl rfl))
      · rename_i hacc
        exact ih (h.drop (.inr (not_greedy_of_stuck hds hs (Nat.le_refl _) hr
          (by simpa using hacc) (.inl rfl))))

end

/-! ## summary for `findAll` -/

/-- everything the loop invariants say about a successful `findAll` -/
theorem findAll_spec {A : Machine β σ} {xs : List β} {ms : List (Match β)}
    (hnn : A.acc A.init = false) (hds : DeadStuck A) (h : findAll A xs = .ok ms) :
    (∀ m ∈ ms, MOk A xs m) ∧ ms.Pairwise (fun m m' => m.e ≤ m'.s) ∧
      ∀ p, p < xs.length → Pre A xs ms p ∨ NoGreedy A xs p := by
  unfold findAll at h
  split at h
  · cases h
  · rename_i ms0 act ho
    simp only [Except.ok.injEq] at h
    subst h
    have hO := outer_inv hnn hds (OutInv.init A xs) (by simp) (Nat.zero_le _) ho
    have hF := finalize_inv hnn hds hO.toFin
    refine ⟨fun m hm => hF.ms_ok m (List.mem_reverse.1 hm), List.pairwise_reverse.2 hF.ms_pw, ?_⟩
    intro p hp
    rcases hF.cover p (Nat.le_of_lt hp) with ⟨a, ha, _⟩ | ⟨a, ha, _⟩ | h' | h'
    · simp at ha
    · simp at ha
    · exact .inl (h'.mono (fun m hm => List.mem_reverse.2 hm))
    · exact .inr h'

/-! ## errors -/

theorem procOne_error {A : Machine β σ} {idx : Nat} {x : β} {fs : FS β σ} {a : Att β σ} {e : Err}
    (h : procOne A idx x fs a = .error e) : ∃ q x, A.step q x = .error e := by
  unfold procOne at h
  split at h
  · cases h
  · split at h
    · cases h
    · split at h
      · rename_i e' hs
        cases h
        exact ⟨_, _, hs⟩
      · cases h
      · cases h

theorem procAll_error {A : Machine β σ} {idx : Nat} {x : β} {ps : List (Att β σ)} {fs : FS β σ}
    {e : Err} (h : procAll A idx x ps fs = .error e) : ∃ q x, A.step q x = .error e := by
  induction ps generalizing fs with
  | nil => cases h
  | cons a ps ih =>
    simp only [procAll] at h
    split at h
    · rename_i e' h1
      cases h
      exact procOne_error h1
    · exact ih h

theorem outer_error {A : Machine β σ} {idx : Nat} {xs : List β} {ms : List (Match β)}
    {act : List (Att β σ)} {e : Err} (h : outer A idx xs ms act = .error e) :
    ∃ q x, A.step q x = .error e := by
  induction xs generalizing idx ms act with
  | nil => cases h
  | cons x xs ih =>
    simp only [outer] at h
    split at h
    · rename_i e' h1
      cases h
      exact procAll_error h1
    · exact ih h

theorem findAll_error {A : Machine β σ} {xs : List β} {e : Err}
    (h : findAll A xs = .error e) : ∃ q x, A.step q x = .error e := by
  unfold findAll at h
  split at h
  · rename_i e' h1
    cases h
    exact outer_error h1
  · cases h

/-! ## the DFA instantiation -/

theorem dfaMachine_deadStuck {α π : Type} [DecidableEq α] (D : Dfa α) (C : Acceptor α π β) :
    DeadStuck (dfaMachine D C) := by
  intro q x hd
  have hrow : D.row q.1 = [] := by simpa [dfaMachine] using hd
  simp [dfaMachine, consume, hrow, consumeAux]

end CL
