import CodeLimit.Spec.ProgTreeCanonArrow
import CodeLimit.Lemmas.ProgTreeCanonTree
/-!
# `Prog.plain`: arrow nodes read as tokens and a brace group

* `flat_plain`, `size_plain` - the token sequence does not change;
* `wfCore_plain` - structural well-formedness is preserved;
* `fnsK_plain` - the function nodes of `p.plain` are the function / method nodes `fnsF p`;
* `mem_fnsK_iff`, `fnsF_sublist`, `fnsA_sublist` - the function nodes of `p` are its function /
  method nodes and its arrow nodes.
-/
namespace CL
open CL.Syn

theorem arrowGap_iff {g : List Tok} :
    arrowGap g = true ↔ ∃ a, g = [a] ∧ a.isSymbol [61, 62] = true := by
  match g with
  | [] => simp [arrowGap]
  | [a] => simp [arrowGap]
  | a :: b :: r => simp [arrowGap]

theorem flat_app {α : Type} : ∀ (a b : Prog α), (a.app b).flat = a.flat ++ b.flat
  | .nil, b => rfl
  | .leaf t r, b => by simp only [Prog.app, Prog.flat, flat_app r b, List.cons_append]
  | .group op cl items r, b => by
    simp only [Prog.app, Prog.flat, flat_app r b, List.cons_append, List.append_assoc]
  | .fn h k g op cl body r, b => by
    simp only [Prog.app, Prog.flat, flat_app r b, List.cons_append, List.append_assoc]

theorem size_app {α : Type} : ∀ (a b : Prog α), (a.app b).size = a.size + b.size
  | .nil, b => by simp [Prog.app, Prog.size]
  | .leaf t r, b => by simp only [Prog.app, Prog.size, size_app r b]; omega
  | .group op cl items r, b => by simp only [Prog.app, Prog.size, size_app r b]; omega
  | .fn h k g op cl body r, b => by simp only [Prog.app, Prog.size, size_app r b]; omega

theorem flat_toks {α : Type} (ts : List α) (r : Prog α) : (Prog.toks ts r).flat = ts ++ r.flat := by
  induction ts with
  | nil => rfl
  | cons t ts ih =>
    simp only [Prog.toks, List.foldr_cons, Prog.flat, List.cons_append] at ih ⊢
    rw [ih]

theorem flat_plain : ∀ (p : Prog Tok), p.plain.flat = p.flat
  | .nil => rfl
  | .leaf t rest => by simp only [Prog.plain, Prog.flat, flat_plain rest]
  | .group op cl items rest => by
    simp only [Prog.plain, Prog.flat, flat_plain items, flat_plain rest]
  | .fn hdr k gap op cl body rest => by
    simp only [Prog.plain]
    split
    · simp only [flat_app, flat_toks, Prog.flat, flat_plain body, flat_plain rest]
    · simp only [Prog.flat, flat_plain body, flat_plain rest]

theorem size_plain (p : Prog Tok) : p.plain.size = p.size := by
  rw [← Prog.size_eq, ← Prog.size_eq, flat_plain]

/-! ## well-formedness -/

theorem wfCore_app : ∀ (a b : Prog Tok), a.wfCore = true → b.wfCore = true →
    (a.app b).wfCore = true
  | .nil, b, _, hb => hb
  | .leaf t r, b, ha, hb => by
    simp only [Prog.wfCore, Bool.and_eq_true] at ha
    simp only [Prog.app, Prog.wfCore, Bool.and_eq_true]
    exact ⟨ha.1, wfCore_app r b ha.2 hb⟩
  | .group op cl items r, b, ha, hb => by
    simp only [Prog.wfCore, Bool.and_eq_true] at ha
    simp only [Prog.app, Prog.wfCore, Bool.and_eq_true]
    exact ⟨ha.1, wfCore_app r b ha.2 hb⟩
  | .fn h k g op cl body r, b, ha, hb => by
    simp only [Prog.wfCore, Bool.and_eq_true] at ha
    simp only [Prog.app, Prog.wfCore, Bool.and_eq_true]
    exact ⟨ha.1, wfCore_app r b ha.2 hb⟩

theorem wfCore_toks (ts : List Tok) (r : Prog Tok) (h : ts.all Tok.noBrace = true)
    (hr : r.wfCore = true) : (Prog.toks ts r).wfCore = true := by
  induction ts with
  | nil => exact hr
  | cons t ts ih =>
    simp only [List.all_cons, Bool.and_eq_true] at h
    have := ih h.2
    simp only [Prog.toks, List.foldr_cons, Prog.wfCore, Bool.and_eq_true] at this ⊢
    exact ⟨h.1, this⟩

/-- the parts of `wfCore` at a function node -/
theorem wfCore_fn' {hdr : Prog Tok} {k : Nat} {gap : List Tok} {op cl : Tok} {body rest : Prog Tok}
    (h : (Prog.fn hdr k gap op cl body rest).wfCore = true) :
    hdr.startsWithLeaf = true ∧ hdr.noFn = true ∧ hdr.wfCore = true ∧ k < hdr.size ∧
      (hdr.flat.getD k default).isName = true ∧ gap.all Tok.noBrace = true ∧
      op.isSymbol [123] = true ∧ cl.isSymbol [125] = true ∧ body.wfCore = true ∧
      rest.wfCore = true := by
  simp only [Prog.wfCore, Bool.and_eq_true, decide_eq_true_eq] at h
  obtain ⟨⟨⟨⟨⟨⟨⟨⟨⟨h1, h2⟩, h3⟩, h4⟩, h5⟩, h6⟩, h7⟩, h8⟩, h9⟩, h10⟩ := h
  exact ⟨h1, h2, h3, h4, h5, h6, h7, h8, h9, h10⟩

theorem wfCore_plain : ∀ (p : Prog Tok), p.wfCore = true → p.plain.wfCore = true
  | .nil, _ => rfl
  | .leaf t rest, h => by
    simp only [Prog.wfCore, Bool.and_eq_true] at h
    simp only [Prog.plain, Prog.wfCore, Bool.and_eq_true]
    exact ⟨h.1, wfCore_plain rest h.2⟩
  | .group op cl items rest, h => by
    simp only [Prog.wfCore, Bool.and_eq_true] at h
    simp only [Prog.plain, Prog.wfCore, Bool.and_eq_true]
    exact ⟨⟨h.1.1, wfCore_plain items h.1.2⟩, wfCore_plain rest h.2⟩
  | .fn hdr k gap op cl body rest, h => by
    obtain ⟨h1, h2, h3, h4, h5, h6, h7, h8, h9, h10⟩ := wfCore_fn' h
    simp only [Prog.plain]
    split
    · refine wfCore_app _ _ h3 (wfCore_toks _ _ h6 ?_)
      simp only [Prog.wfCore, Bool.and_eq_true]
      exact ⟨⟨⟨h7, h8⟩, wfCore_plain body h9⟩, wfCore_plain rest h10⟩
    · simp only [Prog.wfCore, Bool.and_eq_true, decide_eq_true_eq]
      exact ⟨⟨⟨⟨⟨⟨⟨⟨⟨h1, h2⟩, h3⟩, h4⟩, h5⟩, h6⟩, h7⟩, h8⟩, wfCore_plain body h9⟩,
        wfCore_plain rest h10⟩

/-! ## the function nodes -/

theorem fnsK_noFn : ∀ (p : Prog Tok) (i : Nat), p.noFn = true → fnsK p i = []
  | .nil, _, _ => rfl
  | .leaf _ rest, i, h => fnsK_noFn rest (i + 1) h
  | .group _ _ items rest, i, h => by
    simp only [Prog.noFn, Bool.and_eq_true] at h
    simp only [fnsK, fnsK_noFn items _ h.1, fnsK_noFn rest _ h.2, List.append_nil]
  | .fn .., _, h => by cases h

theorem fnsK_app_noFn : ∀ (a b : Prog Tok) (i : Nat), a.noFn = true →
    fnsK (a.app b) i = fnsK b (i + a.size)
  | .nil, b, i, _ => by simp [Prog.app, Prog.size]
  | .leaf t r, b, i, h => by
    simp only [Prog.app, fnsK, Prog.size]
    rw [fnsK_app_noFn r b (i + 1) h]
    congr 1; omega
  | .group op cl items r, b, i, h => by
    simp only [Prog.noFn, Bool.and_eq_true] at h
    simp only [Prog.app, fnsK, Prog.size]
    rw [fnsK_app_noFn r b _ h.2, fnsK_noFn items _ h.1, List.nil_append]
    congr 1; omega
  | .fn .., _, _, h => by cases h

theorem fnsK_toks (ts : List Tok) (r : Prog Tok) (i : Nat) :
    fnsK (Prog.toks ts r) i = fnsK r (i + ts.length) := by
  induction ts generalizing i with
  | nil => rfl
  | cons t ts ih =>
    have := ih (i + 1)
    simp only [Prog.toks, List.foldr_cons, fnsK, List.length_cons] at this ⊢
    rw [this]; congr 1; omega

/-- the function nodes of `p.plain` are the function / method nodes of `p` -/
theorem fnsK_plain : ∀ (p : Prog Tok) (i : Nat), p.wfCore = true → fnsK p.plain i = fnsF p i
  | .nil, _, _ => rfl
  | .leaf t rest, i, h => by
    simp only [Prog.wfCore, Bool.and_eq_true] at h
    simp only [Prog.plain, fnsK, fnsF, fnsK_plain rest _ h.2]
  | .group op cl items rest, i, h => by
    simp only [Prog.wfCore, Bool.and_eq_true] at h
    simp only [Prog.plain, fnsK, fnsF, fnsK_plain items _ h.1.2, fnsK_plain rest _ h.2, size_plain]
  | .fn hdr k gap op cl body rest, i, h => by
    obtain ⟨_, h2, _, _, _, _, _, _, h9, h10⟩ := wfCore_fn' h
    simp only [Prog.plain, fnsF]
    split
    · rw [fnsK_app_noFn _ _ _ h2, fnsK_toks]
      simp only [fnsK, fnsK_plain body _ h9, fnsK_plain rest _ h10, size_plain, List.nil_append]
    · simp only [fnsK, fnsK_plain body _ h9, fnsK_plain rest _ h10, size_plain,
        List.singleton_append]

/-- every function node is a function / method node or an arrow node -/
theorem mem_fnsK_iff : ∀ (p : Prog Tok) (i : Nat) (x : Fn × Nat),
    x ∈ fnsK p i ↔ x ∈ fnsF p i ∨ x ∈ fnsA p i
  | .nil, _, _ => by simp [fnsK, fnsF, fnsA]
  | .leaf t rest, i, x => by simp only [fnsK, fnsF, fnsA, mem_fnsK_iff rest]
  | .group op cl items rest, i, x => by
    simp only [fnsK, fnsF, fnsA, List.mem_append, mem_fnsK_iff items, mem_fnsK_iff rest]
    grind
  | .fn hdr k gap op cl body rest, i, x => by
    simp only [fnsK, fnsF, fnsA, List.mem_cons, List.mem_append, mem_fnsK_iff body,
      mem_fnsK_iff rest]
    split <;> simp <;> grind

theorem fnsF_sublist : ∀ (p : Prog Tok) (i : Nat), ((fnsF p i).map (·.1)).Sublist (fnsOf p i)
  | .nil, _ => List.Sublist.refl _
  | .leaf t rest, i => fnsF_sublist rest (i + 1)
  | .group op cl items rest, i => by
    simp only [fnsF, fnsOf, List.map_append]
    exact (fnsF_sublist items _).append (fnsF_sublist rest _)
  | .fn hdr k gap op cl body rest, i => by
    simp only [fnsF, fnsOf, List.map_append]
    split
    · exact List.Sublist.cons _ ((fnsF_sublist body _).append (fnsF_sublist rest _))
    · exact List.Sublist.cons_cons _ ((fnsF_sublist body _).append (fnsF_sublist rest _))

theorem fnsA_sublist : ∀ (p : Prog Tok) (i : Nat), ((fnsA p i).map (·.1)).Sublist (fnsOf p i)
  | .nil, _ => List.Sublist.refl _
  | .leaf t rest, i => fnsA_sublist rest (i + 1)
  | .group op cl items rest, i => by
    simp only [fnsA, fnsOf, List.map_append]
    exact (fnsA_sublist items _).append (fnsA_sublist rest _)
  | .fn hdr k gap op cl body rest, i => by
    simp only [fnsA, fnsOf, List.map_append]
    split
    · exact List.Sublist.cons_cons _ ((fnsA_sublist body _).append (fnsA_sublist rest _))
    · exact List.Sublist.cons _ ((fnsA_sublist body _).append (fnsA_sublist rest _))

end CL
