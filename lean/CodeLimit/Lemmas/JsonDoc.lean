import CodeLimit.Lemmas.JsonNum
/-!
# Reading composite JSON texts: whitespace, members, objects, arrays

`VP t v`: the text `t`, read where a value is expected and followed by something that cannot
continue a number, yields the value `v`.  `VPc`: the same followed by anything (texts that end
with a closing quote, bracket or literal).  `MP t k v`: `t` read where a property name is
expected yields the member `k : v`.
-/
namespace CL.Json

/-- pointwise relation between two lists of equal length -/
inductive All2 {α β : Type} (R : α → β → Prop) : List α → List β → Prop
  | nil : All2 R [] []
  | cons {a b as bs} : R a b → All2 R as bs → All2 R (a :: as) (b :: bs)

theorem All2.map {α β γ : Type} {R : α → β → Prop} (f : γ → α) (g : γ → β) :
    ∀ (xs : List γ), (∀ x ∈ xs, R (f x) (g x)) → All2 R (xs.map f) (xs.map g)
  | [], _ => .nil
  | x :: xs, h => .cons (h x (List.mem_cons_self ..)) (All2.map f g xs fun y hy => h y (List.mem_cons_of_mem _ hy))

theorem All2.imp {α β : Type} {R S : α → β → Prop} (h : ∀ a b, R a b → S a b) :
    ∀ {as bs}, All2 R as bs → All2 S as bs
  | _, _, .nil => .nil
  | _, _, .cons r t => .cons (h _ _ r) (All2.imp h t)

theorem All2.exists {α β γ : Type} {R : α → γ → Prop} {S : γ → β → Prop} :
    ∀ {as : List α} {bs : List β}, All2 (fun a b => ∃ c, R a c ∧ S c b) as bs →
      ∃ cs, All2 R as cs ∧ All2 S cs bs
  | _, _, .nil => ⟨[], .nil, .nil⟩
  | _, _, .cons ⟨c, r, s⟩ t =>
    let ⟨cs, h1, h2⟩ := All2.exists t
    ⟨c :: cs, .cons r h1, .cons s h2⟩

theorem All2.nil_iff {α β : Type} {R : α → β → Prop} {as : List α} {bs : List β} (h : All2 R as bs) :
    as = [] ↔ bs = [] := by
  cases h <;> simp

def VP (t : Str) (v : JVal) : Prop :=
  ∀ (b : Bool) (K : List Frame) (r : List Nat), numEnd r = true →
    run ⟨.value b, K⟩ (t ++ r) = run (complete v K) r

def VPc (t : Str) (v : JVal) : Prop :=
  ∀ (b : Bool) (K : List Frame) (r : List Nat), run ⟨.value b, K⟩ (t ++ r) = run (complete v K) r

def MP (t : Str) (k : Str) (v : JVal) : Prop :=
  ∀ (b : Bool) (acc : List (Str × JVal)) (K : List Frame) (r : List Nat), numEnd r = true →
    run ⟨.key b, .obj acc none :: K⟩ (t ++ r) = run ⟨.next, .obj ((k, v) :: acc) none :: K⟩ r

theorem VPc.vp {t : Str} {v : JVal} (h : VPc t v) : VP t v := fun b K r _ => h b K r

/-! ## whitespace -/

theorem run_ws {st : St} (h : ∀ c, isWs c = true → step st c = st) :
    ∀ (w : Str), AllWs w → ∀ r, run st (w ++ r) = run st r
  | [], _, _ => rfl
  | c :: w, hw, r => by
    simp only [List.cons_append, run_cons, h c (hw c (List.mem_cons_self ..))]
    exact run_ws h w (fun x hx => hw x (List.mem_cons_of_mem _ hx)) r

theorem ws_value (b : Bool) (K : List Frame) : ∀ c, isWs c = true → step ⟨.value b, K⟩ c = ⟨.value b, K⟩ := by
  intro c h; simp [step, h]
theorem ws_key (b : Bool) (K : List Frame) : ∀ c, isWs c = true → step ⟨.key b, K⟩ c = ⟨.key b, K⟩ := by
  intro c h; simp [step, h]
theorem ws_colon (K : List Frame) : ∀ c, isWs c = true → step ⟨.colon, K⟩ c = ⟨.colon, K⟩ := by
  intro c h; simp [step, h]
theorem ws_next (K : List Frame) : ∀ c, isWs c = true → step ⟨.next, K⟩ c = ⟨.next, K⟩ := by
  intro c h; simp [step, stepNext, h]
theorem ws_done (v : JVal) : ∀ c, isWs c = true → step ⟨.done v, []⟩ c = ⟨.done v, []⟩ := by
  intro c h; simp [step, stepDone, h]

theorem AllWs.nil : AllWs [] := fun _ h => by cases h
theorem AllWs.append {a b : Str} (ha : AllWs a) (hb : AllWs b) : AllWs (a ++ b) := by
  intro c hc
  rcases List.mem_append.1 hc with h | h
  · exact ha c h
  · exact hb c h
theorem AllWs.replicate (n : Nat) : AllWs (List.replicate n 32) := by
  intro c hc
  rw [List.eq_of_mem_replicate hc]; rfl
theorem AllWs.nl : AllWs [10] := by intro c hc; simp at hc; subst hc; rfl
theorem AllWs.blank : AllWs [32] := by intro c hc; simp at hc; subst hc; rfl

theorem numEnd_of_ws {c : Nat} (h : isWs c = true) (r : List Nat) : numEnd (c :: r) = true := by
  simp only [isWs, Bool.or_eq_true, decide_eq_true_eq] at h
  rcases h with ((h | h) | h) | h <;> subst h <;> rfl

theorem numEnd_ws_append {w : Str} (hw : AllWs w) {r : List Nat} (hr : numEnd r = true) :
    numEnd (w ++ r) = true := by
  cases w with
  | nil => exact hr
  | cons c w => exact numEnd_of_ws (hw c (List.mem_cons_self ..)) _

theorem VP.ws {t : Str} {v : JVal} {w : Str} (hw : AllWs w) (h : VP t v) : VP (w ++ t) v := by
  intro b K r hr
  rw [List.append_assoc, run_ws (ws_value b K) w hw]
  exact h b K r hr

theorem VPc.ws {t : Str} {v : JVal} {w : Str} (hw : AllWs w) (h : VPc t v) : VPc (w ++ t) v := by
  intro b K r
  rw [List.append_assoc, run_ws (ws_value b K) w hw]
  exact h b K r

/-! ## scalars -/

theorem vpc_str {s : Str} (hs : GoodStr s) : VPc (dumpsStr s) (.str s) :=
  fun b K r => run_dumpsStr s hs b K r

theorem vp_int (n : Int) : VP (intText n) (.num n) :=
  fun b K r hr => run_intText n b K r hr

theorem vpc_null : VPc (cp! "null") .null := by
  intro b K r
  simp [step, isWs, startValue]

/-! ## members -/

theorem mp_mk {w0 w1 tv : Str} {k : Str} {v : JVal} (hw0 : AllWs w0) (hk : GoodStr k) (hw1 : AllWs w1)
    (hv : VP tv v) : MP (w0 ++ (dumpsStr k ++ 58 :: (w1 ++ tv))) k v := by
  intro b acc K r hr
  rw [List.append_assoc, run_ws (ws_key b _) w0 hw0, List.append_assoc, run_dumpsStr_key k hk]
  simp only [List.cons_append, run_cons]
  have : step ⟨.colon, .obj acc (some k) :: K⟩ 58 = ⟨.value false, .obj acc (some k) :: K⟩ := by
    simp [step, isWs]
  rw [this, List.append_assoc, run_ws (ws_value _ _) w1 hw1, hv false _ r hr]
  rfl

theorem run_members {w : Str} (hw : AllWs w) :
    ∀ {bodies : List Str} {kvs : List (Str × JVal)}, All2 (fun t kv => MP t kv.1 kv.2) bodies kvs →
      bodies ≠ [] → ∀ (b : Bool) (acc : List (Str × JVal)) (K : List Frame) (r : List Nat), numEnd r = true →
        run ⟨.key b, .obj acc none :: K⟩ ((44 :: w).intercalate bodies ++ r) =
          run ⟨.next, .obj (kvs.reverse ++ acc) none :: K⟩ r := by
  intro bodies kvs h
  induction h with
  | nil => intro h; exact absurd rfl h
  | @cons t kv ts kvs' hm ht ih =>
    intro _ b acc K r hr
    cases ht with
    | nil =>
      simp only [List.intercalate_singleton]
      rw [hm b acc K r hr]
      simp
    | @cons t' kv' ts' kvs'' hm' ht' =>
      rw [List.intercalate_cons_cons, List.append_assoc, List.append_assoc, hm b acc K _ (by rfl)]
      simp only [List.cons_append, run_cons]
      have h44 : step ⟨.next, .obj (kv :: acc) none :: K⟩ 44 = ⟨.key false, .obj (kv :: acc) none :: K⟩ := by
        simp [step, stepNext, isWs]
      rw [h44, run_ws (ws_key _ _) w hw]
      rw [ih (by simp) false (kv :: acc) K r hr]
      simp

/-- an object: `{`, members separated by `,` and whitespace, `}` -/
theorem vpc_obj {w w1 w2 : Str} (hw : AllWs w) (hw1 : AllWs w1) (hw2 : AllWs w2)
    {bodies : List Str} {kvs : List (Str × JVal)} (h : All2 (fun t kv => MP t kv.1 kv.2) bodies kvs) :
    VPc (123 :: (w1 ++ ((44 :: w).intercalate bodies ++ (w2 ++ [125])))) (.obj (dictOfPairs kvs)) := by
  intro b K r
  have h123 : step ⟨.value b, K⟩ 123 = ⟨.key true, .obj [] none :: K⟩ := by
    simp [step, isWs, startValue]
  simp only [List.cons_append, run_cons, h123, List.append_assoc]
  rw [run_ws (ws_key _ _) w1 hw1]
  by_cases hb : bodies = []
  · subst hb
    cases h
    simp only [List.intercalate_nil, List.nil_append]
    rw [run_ws (ws_key _ _) w2 hw2]
    simp [step, isWs, dictOfPairs]
  · rw [run_members hw h hb true [] K _ (numEnd_ws_append hw2 (by rfl))]
    rw [run_ws (ws_next _) w2 hw2]
    simp [step, stepNext, isWs]

/-! ## array elements -/

theorem run_elems {w : Str} (hw : AllWs w) :
    ∀ {bodies : List Str} {vs : List JVal}, All2 VP bodies vs →
      bodies ≠ [] → ∀ (b : Bool) (acc : List JVal) (K : List Frame) (r : List Nat), numEnd r = true →
        run ⟨.value b, .arr acc :: K⟩ ((44 :: w).intercalate bodies ++ r) =
          run ⟨.next, .arr (vs.reverse ++ acc) :: K⟩ r := by
  intro bodies vs h
  induction h with
  | nil => intro h; exact absurd rfl h
  | @cons t v ts vs' hm ht ih =>
    intro _ b acc K r hr
    cases ht with
    | nil =>
      simp only [List.intercalate_singleton]
      rw [hm b _ r hr]
      simp [complete]
    | @cons t' v' ts' vs'' hm' ht' =>
      rw [List.intercalate_cons_cons, List.append_assoc, List.append_assoc, hm b _ _ (by rfl)]
      simp only [List.cons_append, run_cons, complete]
      have h44 : step ⟨.next, .arr (v :: acc) :: K⟩ 44 = ⟨.value false, .arr (v :: acc) :: K⟩ := by
        simp [step, stepNext, isWs]
      rw [h44, run_ws (ws_value _ _) w hw]
      rw [ih (by simp) false (v :: acc) K r hr]
      simp

/-- an array: `[`, values separated by `,` and whitespace, `]` -/
theorem vpc_arr {w w1 w2 : Str} (hw : AllWs w) (hw1 : AllWs w1) (hw2 : AllWs w2)
    {bodies : List Str} {vs : List JVal} (h : All2 VP bodies vs) :
    VPc (91 :: (w1 ++ ((44 :: w).intercalate bodies ++ (w2 ++ [93])))) (.arr vs) := by
  intro b K r
  have h91 : step ⟨.value b, K⟩ 91 = ⟨.value true, .arr [] :: K⟩ := by
    simp [step, isWs, startValue]
  simp only [List.cons_append, run_cons, h91, List.append_assoc]
  rw [run_ws (ws_value _ _) w1 hw1]
  by_cases hb : bodies = []
  · subst hb
    cases h
    simp only [List.intercalate_nil, List.nil_append]
    rw [run_ws (ws_value _ _) w2 hw2]
    simp [step, isWs]
  · rw [run_elems hw h hb true [] K _ (numEnd_ws_append hw2 (by rfl))]
    rw [run_ws (ws_next _) w2 hw2]
    simp [step, stepNext, isWs]

/-! ## `dict` keys -/

theorem dictInsert_of_not_mem {α : Type} (d : List (Str × α)) (k : Str) (v : α)
    (h : k ∉ d.map (·.1)) : dictInsert d k v = d ++ [(k, v)] := by
  induction d with
  | nil => rfl
  | cons kv t ih =>
    obtain ⟨k', v'⟩ := kv
    simp only [List.map_cons, List.mem_cons, not_or] at h
    have hne : ¬ k' = k := fun e => h.1 e.symm
    simp [dictInsert, hne, ih h.2]

theorem foldl_dictInsert_nodup {α : Type} (ps d : List (Str × α))
    (h : ((d ++ ps).map (·.1)).Nodup) :
    ps.foldl (fun d kv => dictInsert d kv.1 kv.2) d = d ++ ps := by
  induction ps generalizing d with
  | nil => simp
  | cons kv t ih =>
    have hk : kv.1 ∉ d.map (·.1) := by
      rw [List.map_append, List.nodup_append] at h
      intro hm
      exact h.2.2 _ hm _ (by simp) rfl
    rw [List.foldl_cons, dictInsert_of_not_mem d kv.1 kv.2 hk, ih]
    · simp
    · simpa using h

/-- a `dict` built from pairs with pairwise distinct keys holds exactly those pairs, in order -/
theorem dictOfPairs_nodup {α : Type} (ps : List (Str × α)) (h : (ps.map (·.1)).Nodup) :
    dictOfPairs ps = ps := by
  have := foldl_dictInsert_nodup ps [] (by simpa using h)
  simpa [dictOfPairs] using this

end CL.Json
