import CodeLimit.Lemmas.IndependenceAcc
import CodeLimit.Model.Scopes
/-!
# The token predicates commute; header extraction is independent of set order and id counter

`tokAcceptor` evaluates a predicate on the pattern's own copy of it: a `Balanced` predicate
reads and writes only its own nesting depth, all other predicates are stateless. Hence
evaluations of different predicates commute (`tokAcceptor_compat`) and `get_headers` gives the
same result whatever the iteration order of the transition sets and whatever the value of the
state id counter when its patterns are compiled.
-/
namespace CL

/-- two predicate maps that assign the same depth to every predicate -/
def DepthEq (ds ds' : Depths) : Prop := ∀ p, getDepth ds p = getDepth ds' p

theorem getDepth_setDepth (ds : Depths) (p : Pred) (d : Int) (q : Pred) :
    getDepth (setDepth ds p d) q = if q = p then d else getDepth ds q := by
  unfold getDepth setDepth
  by_cases h : q = p
  · subst h
    simp
  · rw [if_neg h, List.find?_cons_of_neg (by simpa using fun h' => h h'.symm), List.find?_filter]
    have : (fun a : Pred × Int => decide (decide (a.1 ≠ p) = true ∧ decide (a.1 = q) = true))
        = (fun e : Pred × Int => decide (e.1 = q)) := by
      funext a
      by_cases ha : a.1 = q
      · simp [ha, h]
      · simp [ha]
    rw [this]

/-- the depth of the copy of `p` after it judged `t` (only `Balanced` has a depth) -/
def newDepth : Pred → Int → Tok → Int
  | .balanced l r, d, t => if l.eval t then d + 1 else if r.eval t then d - 1 else d
  | _, d, _ => d

/-- evaluating `p` changes only the depth of `p` -/
theorem getDepth_acceptTok (p : Pred) (ds : Depths) (t : Tok) (q : Pred) :
    getDepth (acceptTok p ds t).2 q
      = if q = p then newDepth p (getDepth ds p) t else getDepth ds q := by
  cases p
  case balanced l r =>
    simp only [acceptTok, newDepth]
    split
    · exact getDepth_setDepth _ _ _ _
    · split
      · exact getDepth_setDepth _ _ _ _
      · split
        · rename_i h; rw [h]
        · rfl
  all_goals
    simp only [acceptTok, newDepth]
    split
    · rename_i h; rw [h]
    · rfl

/-- the verdict of `p` depends only on the depth of `p` -/
theorem acceptTok_fst_congr (p : Pred) {ds ds' : Depths} (t : Tok)
    (h : getDepth ds p = getDepth ds' p) : (acceptTok p ds t).1 = (acceptTok p ds' t).1 := by
  cases p
  case balanced l r =>
    simp only [acceptTok, h]
    split
    · rfl
    · split <;> rfl
  all_goals rfl

theorem tokAcceptor_compat : AccCompat tokAcceptor DepthEq where
  refl := fun _ _ => rfl
  trans := fun h1 h2 p => (h1 p).trans (h2 p)
  cong := by
    intro p x ps ps' hE
    refine ⟨acceptTok_fst_congr p x (hE p), ?_⟩
    intro q
    show getDepth (acceptTok p ps x).2 q = getDepth (acceptTok p ps' x).2 q
    rw [getDepth_acceptTok, getDepth_acceptTok, hE p, hE q]
  comm_fst := by
    intro p p' ps x hne
    apply acceptTok_fst_congr
    show getDepth (acceptTok p' ps x).2 p = getDepth ps p
    rw [getDepth_acceptTok, if_neg hne]
  comm_snd := by
    intro p p' ps x hne q
    show getDepth (acceptTok p' (acceptTok p ps x).2 x).2 q
      = getDepth (acceptTok p (acceptTok p' ps x).2 x).2 q
    simp only [getDepth_acceptTok]
    by_cases h1 : q = p
    · subst h1
      simp [hne]
    · by_cases h2 : q = p'
      · subst h2
        simp [h1]
      · simp [h1, h2]

/-! ## `get_headers` with explicit set order and id counter -/

/-- `compileTok` with the id counter and the set-iteration order as parameters -/
def compileTokWith (base : Nat) (ord : List Pred → List Pred) (r : Rx Pred) :
    Except Err (Dfa Pred) :=
  match nfaToDfa (compile r base) ord with
  | some D => .ok D
  | none => .error .fuel

/-- `getHeaders` with the id counters (one for the header pattern, one for the follow pattern)
and the set-iteration order as parameters -/
def getHeadersWith (base baseF : Nat) (ord : List Pred → List Pred) (hp : HeaderPat)
    (toks : List Tok) : Except Err (List Header) := do
  let D ← compileTokWith base ord hp.expr
  let ms ← findAll (dfaMachine D tokAcceptor) toks
  let ms' ← match hp.follow with
    | none => pure ms
    | some f => do
      let F ← compileTokWith baseF ord f
      filterFollow (dfaMachine F tokAcceptor) toks ms
  namesOf ms'

/-- the model's `getHeaders` is the instance with counter 1 and the identity order -/
theorem getHeadersWith_default (hp : HeaderPat) (toks : List Tok) :
    getHeadersWith 1 1 id hp toks = getHeaders hp toks := rfl

theorem compileTokWith_ok (base : Nat) {ord : List Pred → List Pred} (hord : IsOrder ord)
    (r : Rx Pred) : ∃ D, nfaToDfa (compile r base) ord = some D ∧
      compileTokWith base ord r = .ok D := by
  obtain ⟨D, hD⟩ := compile_terminates r base hord
  exact ⟨D, hD, by simp only [compileTokWith, hD]⟩

theorem filterFollow_bisim {F F' : Machine Tok (DState × Depths)}
    {R : DState × Depths → DState × Depths → Prop} (hB : Bisim F F' R) (toks : List Tok)
    (ms : List (Match Tok)) : filterFollow F toks ms = filterFollow F' toks ms := by
  induction ms with
  | nil => rfl
  | cons m ms ih =>
    simp only [filterFollow, ih, startsWithM_bisim hB _ 0 hB.init]

/-- `get_headers` does not depend on the set-iteration order nor on the id counter -/
theorem getHeadersWith_indep {base baseF base' baseF' : Nat} {ord ord' : List Pred → List Pred}
    (hord : IsOrder ord) (hord' : IsOrder ord') (hp : HeaderPat) (toks : List Tok) :
    getHeadersWith base baseF ord hp toks = getHeadersWith base' baseF' ord' hp toks := by
  obtain ⟨D, hD, hc⟩ := compileTokWith_ok base hord hp.expr
  obtain ⟨D', hD', hc'⟩ := compileTokWith_ok base' hord' hp.expr
  have hfa : findAll (dfaMachine D tokAcceptor) toks = findAll (dfaMachine D' tokAcceptor) toks :=
    findAll_bisim (dfa_bisim_acc tokAcceptor_compat hord hord' hD hD') toks
  unfold getHeadersWith
  rw [hc, hc']
  simp only [bind, Except.bind]
  rw [hfa]
  cases hp.follow with
  | none => rfl
  | some f =>
    obtain ⟨F, hF, hcF⟩ := compileTokWith_ok baseF hord f
    obtain ⟨F', hF', hcF'⟩ := compileTokWith_ok baseF' hord' f
    have hff := fun ms => filterFollow_bisim
      (dfa_bisim_acc tokAcceptor_compat hord hord' hF hF') toks ms
    simp only [hcF, hcF', hff]

end CL
