import CodeLimit.Lemmas.SelectCacheHonest
import CodeLimit.Lemmas.PipelineMain
/-!
# The cache model (`Model/Cache.lean`) instantiated by `Pipeline.cacheParams` IS
`Sel.scanPathCached` on the tree

`Cache.scanFile` looks a file up in the rows of the document (`lookupLast`), `Sel.scanFileC` in the
`dict` the reader builds from them (`dictOfRows`); rows carry language names and integers, entries
language numbers and natural numbers.  Here: the two agree file by file, hence row list by row
list, hence `Pipeline.scan` is `scanPathCached` + `Codebase.build` + `ReportWriter`.
-/
namespace CL.Sel

/-! ## `d[k] = v` then `d[k']` -/

theorem dictGet_cons {β : Type} (kv : Str × β) (d : List (Str × β)) (k : Str) :
    dictGet (kv :: d) k = if kv.1 = k then some kv.2 else dictGet d k := by
  unfold dictGet
  by_cases h : kv.1 = k
  · simp [h]
  · rw [List.find?_cons_of_neg (by simpa using h)]
    simp [h]

theorem dictGet_replace {β : Type} (k : Str) (v : β) (k' : Str) : ∀ d : List (Str × β),
    dictGet (d.map (fun kv => if kv.1 == k then (kv.1, v) else kv)) k' =
      if k' = k then (dictGet d k).map (fun _ => v) else dictGet d k'
  | [] => by simp [dictGet]
  | kv :: d => by
    have ih := dictGet_replace k v k' d
    simp only [List.map_cons, dictGet_cons, ih]
    by_cases h1 : kv.1 = k
    · by_cases h2 : k' = k
      · subst h2; simp [h1]
      · have : ¬ k = k' := fun e => h2 e.symm
        simp [h1, h2, this]
    · by_cases h2 : k' = k
      · subst h2; simp [h1]
      · simp only [beq_iff_eq, h1, if_false, h2]

theorem dictGet_append_singleton {β : Type} (d : List (Str × β)) (k : Str) (v : β) (k' : Str) :
    dictGet (d ++ [(k, v)]) k' =
      match dictGet d k' with
      | some w => some w
      | none => if k = k' then some v else none := by
  induction d with
  | nil => simp [dictGet]
  | cons kv d ih =>
    simp only [List.cons_append, dictGet_cons, ih]
    by_cases h : kv.1 = k' <;> simp [h]

/-- **`d[k] = v; d[k']`** -/
theorem dictGet_dictSet {β : Type} (d : List (Str × β)) (k : Str) (v : β) (k' : Str) :
    dictGet (dictSet d k v) k' = if k' = k then some v else dictGet d k' := by
  unfold dictSet
  by_cases ha : d.any (fun kv => kv.1 == k) = true
  · simp only [ha, if_true, dictGet_replace]
    by_cases h : k' = k
    · simp only [h, if_true]
      obtain ⟨kv, hm, hk⟩ := List.any_eq_true.1 ha
      have : dictGet d k ≠ none := by
        rw [Ne, dictGet_eq_none]
        intro hn
        exact hn (List.mem_map.2 ⟨kv, hm, by simpa using hk⟩)
      cases hg : dictGet d k with
      | none => exact absurd hg this
      | some w => rfl
    · simp [h]
  · simp only [ha, Bool.false_eq_true, if_false, dictGet_append_singleton]
    by_cases h : k' = k
    · subst h
      have : dictGet d k' = none := by
        rw [dictGet_eq_none]
        intro hm
        obtain ⟨kv, hkv, hk⟩ := List.mem_map.1 hm
        exact ha (List.any_eq_true.2 ⟨kv, hkv, by simpa using hk⟩)
      simp [this]
    · have : ¬ k = k' := fun e => h e.symm
      cases dictGet d k' <;> simp [h, this]

end CL.Sel

namespace CL.Pipeline

open CL CL.Sel

/-! ## the reader's `dict` and the rows of the document -/

theorem lookupLast_cons (r : CacheRow) (es : List CacheRow) (p : Str) :
    Cache.lookupLast (r :: es) p =
      match Cache.lookupLast es p with
      | some x => some x
      | none => if r.1 = p then some r.2 else none := by
  unfold Cache.lookupLast
  rw [List.reverse_cons, List.find?_append]
  cases hf : es.reverse.find? (fun r => decide (r.1 = p)) with
  | some y => simp
  | none =>
    by_cases h : r.1 = p <;> simp [h]

theorem dictGet_foldl (k : Str) : ∀ (es : List CacheRow) (d : CachedFiles),
    dictGet (es.foldl (fun d r => dictSet d r.1 (entryOfRow r)) d) k =
      match Cache.lookupLast es k with
      | some he => some (entryOfRow (k, he))
      | none => dictGet d k
  | [], d => by simp [Cache.lookupLast]
  | r :: es, d => by
    rw [List.foldl_cons, dictGet_foldl k es, lookupLast_cons]
    cases Cache.lookupLast es k with
    | some he => rfl
    | none =>
      simp only [dictGet_dictSet]
      by_cases h : k = r.1
      · subst h; simp
      · have : ¬ r.1 = k := fun e => h e.symm
        simp [h, this]

/-- **`cached_report.codebase.files[rel_path]` is the LAST row of the document under that key** -/
theorem dictGet_dictOfRows (es : List CacheRow) (k : Str) :
    dictGet (dictOfRows es) k = (Cache.lookupLast es k).map (fun he => entryOfRow (k, he)) := by
  unfold dictOfRows
  rw [dictGet_foldl]
  cases Cache.lookupLast es k <;> simp [dictGet]

/-! ## rows that `Model/Select.lean` can express -/

theorem langNum_langName_lt : ∀ i, i < numLangs → langNum (langName i) = i := by decide

theorem langName_ge {i : Nat} (h : numLangs ≤ i) : langName i = [] := by
  have : Gen.all[i]? = none := by
    apply List.getElem?_eq_none
    exact h
  simp [langName, this]

theorem langName_langNum_langName (i : Nat) : langName (langNum (langName i)) = langName i := by
  by_cases h : i < numLangs
  · rw [langNum_langName_lt i h]
  · rw [langName_ge (i := i) (by omega)]
    decide

theorem measOf_measBack_measOf (m : Measurement) : measBack (measOf m) = m := by
  cases m
  simp [measBack, measOf]

/-- every row that comes from an entry of `Model/Select.lean` is expressible -/
theorem rowOfSel_selOfRow_rowOfSel (k h : Str) (e : FileEntry) :
    rowOfSel (selOfRow k h (rowOfSel e)) = rowOfSel e := by
  simp only [rowOfSel, selOfRow, langName_langNum_langName, Int.toNat_natCast, List.map_map,
    Row.mk.injEq, true_and]
  apply List.map_congr_left
  intro m _
  simp only [Function.comp, measOf_measBack_measOf]

/-- … and reading it back gives the entry, for a supported language -/
theorem selOfRow_rowOfSel {e : FileEntry} (h : e.lang < numLangs) :
    selOfRow e.path e.checksum (rowOfSel e) = e := by
  obtain ⟨p, c, l, lo, ms⟩ := e
  simp only at h
  simp only [rowOfSel, selOfRow, langNum_langName_lt l h, Int.toNat_natCast, List.map_map,
    FileEntry.mk.injEq, true_and]
  conv => rhs; rw [← List.map_id ms]
  apply List.map_congr_left
  intro m _
  simp only [Function.comp, measOf_measBack_measOf, id]

theorem rowDefault_ok (k h : Str) : rowOfSel (selOfRow k h ⟨[], 0, []⟩) = ⟨[], 0, []⟩ := by
  have : langName (langNum []) = [] := by decide
  simp [rowOfSel, selOfRow, this]

theorem rowOk_default (k h : Str) : RowOk (k, h, .ok ⟨[], 0, []⟩) := ⟨_, rfl, rowDefault_ok k h⟩

theorem analyzeRow_rowOk (E : Env) (k h c : Str) : RowOk (k, h, analyzeRow E k c) := by
  obtain ⟨row, hrow⟩ := analyzeRow_total E k c
  refine ⟨row, hrow, ?_⟩
  unfold analyzeRow at hrow
  split at hrow
  · cases hrow; exact rowDefault_ok k h
  · split at hrow
    · cases hrow
    · cases hrow
      exact rowOfSel_selOfRow_rowOfSel k h _

end CL.Pipeline
