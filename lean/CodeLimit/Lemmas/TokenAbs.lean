import CodeLimit.Model.Token
/-!
# Finite token abstraction (for C15)

A stateless predicate only looks at the `kind` of a token (and only distinguishes the kinds
1-4) and compares the token text with finitely many string constants. Hence "is there a token
accepted by both `p` and `q`" is decidable by enumerating finitely many abstract tokens.
-/
namespace CL

/-- the string constants a predicate compares token texts with (`Balanced` evaluates to
`false` in `Pred.eval`, `Identity` too, so they contribute nothing) -/
def Pred.consts : Pred → List Str
  | .name => []
  | .keyword v => [v]
  | .symbol v => [v]
  | .operator v => [v]
  | .value v => [v]
  | .ident _ => []
  | .not p => p.consts
  | .and p q => p.consts ++ q.consts
  | .or p q => p.consts ++ q.consts
  | .balanced _ _ => []

def maxLen : List Str → Nat
  | [] => 0
  | v :: vs => max v.length (maxLen vs)

theorem le_maxLen {cs : List Str} {v : Str} (h : v ∈ cs) : v.length ≤ maxLen cs := by
  induction cs with
  | nil => cases h
  | cons c cs ih =>
    rcases List.mem_cons.1 h with rfl | h
    · simp [maxLen]; omega
    · have := ih h
      simp [maxLen]; omega

/-- a string that differs from every member of `cs` (it is longer) -/
def fresh (cs : List Str) : Str := List.replicate (maxLen cs + 1) 0

theorem fresh_not_mem (cs : List Str) : fresh cs ∉ cs := by
  intro h
  have := le_maxLen h
  simp [fresh] at this
  omega

def absKind (k : Nat) : Nat := if k = 1 ∨ k = 2 ∨ k = 3 ∨ k = 4 then k else 0

def absVal (cs : List Str) (v : Str) : Str := if v ∈ cs then v else fresh cs

/-- the abstract token of `t`: kinds other than 1-4 collapse to 0, a text that is not one of
the constants `cs` becomes `fresh cs`, type and position are dropped -/
def absTok (cs : List Str) (t : Tok) : Tok := ⟨absKind t.kind, 0, absVal cs t.val, 0, 0⟩

theorem absKind_beq (k j : Nat) (hj : j = 1 ∨ j = 2 ∨ j = 3 ∨ j = 4) :
    (absKind k == j) = (k == j) := by
  unfold absKind
  split
  · rfl
  · rename_i h
    have h1 : ¬ (0 = j) := by omega
    have h2 : ¬ (k = j) := by omega
    rw [beq_false_of_ne h1, beq_false_of_ne h2]

theorem absVal_beq (cs : List Str) (v c : Str) (hc : c ∈ cs) :
    (absVal cs v == c) = (v == c) := by
  unfold absVal
  split
  · rfl
  · rename_i h
    have h1 : ¬ (fresh cs = c) := fun e => fresh_not_mem cs (e ▸ hc)
    have h2 : ¬ (v = c) := fun e => h (e ▸ hc)
    rw [beq_false_of_ne h1, beq_false_of_ne h2]

/-- a stateless predicate cannot tell a token from its abstraction -/
theorem Pred.eval_absTok (p : Pred) (cs : List Str) (t : Tok) (h : ∀ c ∈ p.consts, c ∈ cs) :
    p.eval t = p.eval (absTok cs t) := by
  induction p with
  | name => simp [Pred.eval, Tok.isName, absTok, absKind_beq]
  | keyword v =>
    have hv : v ∈ cs := h v (by simp [Pred.consts])
    simp [Pred.eval, Tok.isKeyword, absTok, absKind_beq, absVal_beq cs _ _ hv]
  | symbol v =>
    have hv : v ∈ cs := h v (by simp [Pred.consts])
    simp [Pred.eval, Tok.isSymbol, absTok, absKind_beq, absVal_beq cs _ _ hv]
  | operator v =>
    have hv : v ∈ cs := h v (by simp [Pred.consts])
    simp [Pred.eval, Tok.isOperator, absTok, absKind_beq, absVal_beq cs _ _ hv]
  | value v =>
    have hv : v ∈ cs := h v (by simp [Pred.consts])
    simp [Pred.eval, absTok, absVal_beq cs _ _ hv]
  | ident _ => rfl
  | not p ih =>
    simp only [Pred.eval]
    rw [ih (fun c hc => h c (by simpa [Pred.consts] using hc))]
  | and p q ihp ihq =>
    simp only [Pred.eval]
    rw [ihp (fun c hc => h c (by simp [Pred.consts, hc])),
      ihq (fun c hc => h c (by simp [Pred.consts, hc]))]
  | or p q ihp ihq =>
    simp only [Pred.eval]
    rw [ihp (fun c hc => h c (by simp [Pred.consts, hc])),
      ihq (fun c hc => h c (by simp [Pred.consts, hc]))]
  | balanced _ _ _ _ => rfl

/-- all abstract tokens over the constants `cs` -/
def absToks (cs : List Str) : List Tok :=
  [0, 1, 2, 3, 4].flatMap (fun k => (cs ++ [fresh cs]).map (fun v => ⟨k, 0, v, 0, 0⟩))

theorem absTok_mem (cs : List Str) (t : Tok) : absTok cs t ∈ absToks cs := by
  simp only [absToks, List.mem_flatMap, List.mem_map]
  refine ⟨absKind t.kind, ?_, absVal cs t.val, ?_, rfl⟩
  · unfold absKind; split
    · rename_i h; rcases h with h | h | h | h <;> simp [h]
    · simp
  · unfold absVal; split
    · rename_i h; exact List.mem_append_left _ h
    · simp

/-- is there a token accepted by both stateless predicates? -/
def overlapPure (p q : Pred) : Bool :=
  (absToks (p.consts ++ q.consts)).any (fun t => p.eval t && q.eval t)

theorem overlapPure_sound {p q : Pred} (h : overlapPure p q = false) (t : Tok) :
    ¬ (p.eval t = true ∧ q.eval t = true) := by
  rintro ⟨hp, hq⟩
  have hm := absTok_mem (p.consts ++ q.consts) t
  rw [p.eval_absTok (p.consts ++ q.consts) t (fun c hc => List.mem_append_left _ hc)] at hp
  rw [q.eval_absTok (p.consts ++ q.consts) t (fun c hc => List.mem_append_right _ hc)] at hq
  have : overlapPure p q = true := by
    unfold overlapPure
    rw [List.any_eq_true]
    exact ⟨_, hm, by simp [hp, hq]⟩
  rw [h] at this; cases this

/-- completeness (so that a `false` verdict of a checker built on `overlapPure` is a real
ambiguity): an overlap found by enumeration is witnessed by a token -/
theorem overlapPure_complete {p q : Pred} (h : overlapPure p q = true) :
    ∃ t, p.eval t = true ∧ q.eval t = true := by
  unfold overlapPure at h
  rw [List.any_eq_true] at h
  obtain ⟨t, _, ht⟩ := h
  exact ⟨t, by simpa using ht⟩

end CL
