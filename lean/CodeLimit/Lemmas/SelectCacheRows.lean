import CodeLimit.Lemmas.SelectCachePipeline
import CodeLimit.Lemmas.PipelineCache
/-!
# Row by row: `Cache.scanFile` under `Pipeline.cacheParams` is `Sel.scanFileC`; hence
`Cache.report` is `Sel.scanPathCached`, and `Pipeline.scan` is `scanPathCached` + build + write
-/
namespace CL.Pipeline

open CL CL.Sel

/-- an entry (or the exception) of `Model/Select.lean` as the `Entry` of the cache model -/
def rowE : Except Err FileEntry → Except Err Row
  | .ok e => .ok (rowOfSel e)
  | .error e => .error e

/-- how the cache model reports what `_scan_file` did -/
def howOf (hit : Option FileEntry) : Cache.How := if hit.isSome then .reused else .analysed

theorem rowOfSel_reuse (k h : Str) (ce : FileEntry) : rowOfSel (reuseEntry k h ce) = rowOfSel ce := rfl

theorem entryOfRow_checksum (r : CacheRow) : (entryOfRow r).checksum = r.2.1 := by
  unfold entryOfRow
  cases r.2.2 <;> rfl

/-- **one file.**  For a file the walk selects, `_scan_file` of the cache model (rows of the
document, `lookupLast`) and `_scan_file` of the tree model (the reader's `dict`) do the same: both
reuse or both analyse, and the rows agree through `rowOfSel` -/
theorem scanFile_eq_entryC (E : Env) (pats : List Gi.Pat) {x : List Str × Nat × Str} (hx : GoodItem E x)
    (cached : Option (List CacheRow)) (hok : ∀ es, cached = some es → ∀ r ∈ es, RowOk r) :
    Cache.scanFile (cacheParams E) cached (keyOf x, x.2.2) =
      ((keyOf x, E.checksum x.2.2, rowE (entryC (oracles E pats) (cached.map dictOfRows) x)),
        howOf (hitOf (oracles E pats) (cached.map dictOfRows) x)) := by
  have hana : (cacheParams E).analyze (keyOf x) x.2.2 = rowE (analysisOf (oracles E pats) x) := by
    show analyzeRow E (keyOf x) x.2.2 = _
    rw [analyzeRow_item E pats hx]
    cases analysisOf (oracles E pats) x <;> rfl
  cases cached with
  | none =>
    rw [Cache.scanFile_none, hana]
    rfl
  | some es =>
    have hget := dictGet_dictOfRows es (keyOf x)
    unfold Cache.scanFile
    simp only [Option.map_some]
    cases hl : Cache.lookupLast es (keyOf x) with
    | none =>
      rw [hl] at hget
      have hh : hitOf (oracles E pats) (some (dictOfRows es)) x = none := by
        simp only [hitOf, cacheHit, hget, Option.map_none]
      simp only [entryC, hh, howOf, Option.isSome_none, Bool.false_eq_true, if_false, hana]
      rfl
    | some he =>
      obtain ⟨h, e⟩ := he
      rw [hl] at hget
      simp only [Option.map_some] at hget
      have hcs : (entryOfRow (keyOf x, h, e)).checksum = h := entryOfRow_checksum _
      by_cases hh : h = E.checksum x.2.2
      · subst hh
        have hhit : hitOf (oracles E pats) (some (dictOfRows es)) x = some (entryOfRow (keyOf x, E.checksum x.2.2, e)) := by
          simp only [hitOf, cacheHit, hget, hcs]
          exact if_pos rfl
        obtain ⟨row, hrow, hrep⟩ := hok es rfl _ (Cache.lookupLast_mem hl)
        simp only at hrow hrep
        subst hrow
        simp only [entryC, hhit, howOf, Option.isSome_some, if_true, rowE, rowOfSel_reuse]
        have : rowOfSel (entryOfRow (keyOf x, E.checksum x.2.2, Except.ok row)) = row := hrep
        rw [this]
        exact if_pos rfl
      · have hhit : hitOf (oracles E pats) (some (dictOfRows es)) x = none := by
          simp only [hitOf, cacheHit, hget, hcs]
          exact if_neg hh
        simp only [entryC, hhit, howOf, Option.isSome_none, Bool.false_eq_true, if_false, hana]
        exact if_neg hh


/-! ## one file, as a step on the state of `scan_path` -/

theorem langNum_le (s : Str) : langNum s ≤ numLangs := by
  unfold langNum
  cases hf : (List.range numLangs).find? (fun i => langName i == s) with
  | none => simp
  | some i =>
    have := List.mem_of_find?_eq_some hf
    simp only [List.mem_range] at this
    simp only [Option.getD_some]
    omega

theorem langNum_langName_langNum (s : Str) : langNum (langName (langNum s)) = langNum s := by
  rcases Nat.lt_or_ge (langNum s) numLangs with h | h
  · exact langNum_langName_lt _ h
  · have : langNum s = numLangs := Nat.le_antisymm (langNum_le s) h
    rw [this]
    decide

theorem selOfRow_fixed (k h : Str) (row : Row) :
    selOfRow k h (rowOfSel (selOfRow k h row)) = selOfRow k h row := by
  simp only [selOfRow, rowOfSel, langNum_langName_langNum, Int.toNat_natCast, List.map_map,
    FileEntry.mk.injEq, true_and]
  apply List.map_congr_left
  intro m _
  simp only [Function.comp, measOf_measBack_measOf]

/-- **one file, on the loop state.**  For a file the walk selects, `Sel.scanFileC` (with the `dict`
the reader builds from the rows) updates the state of `scan_path` with exactly what `Cache.scanFile`
(on the rows) returns: the row read back as a `SourceFileEntry` is appended to `Codebase.files`, and
the path is recorded as analysed unless the cache model says `reused` -/
theorem scanFileC_eq_cacheStep (E : Env) (pats : List Gi.Pat) {x : List Str × Nat × Str} (hx : GoodItem E x)
    (rows : Option (List CacheRow)) (hok : ∀ es, rows = some es → ∀ r ∈ es, RowOk r) (st : ScanSt)
    (hfresh : keyOf x ∉ st.files.map (·.1)) :
    scanFileC (oracles E pats) (rows.map dictOfRows) x.1 x.2.1 x.2.2 st =
      match Cache.scanFile (cacheParams E) rows (keyOf x, x.2.2) with
      | ((_, _, .ok row), how) =>
        (⟨st.analysed ++ (if how = .reused then [] else [keyOf x]),
          st.files ++ [(keyOf x, selOfRow (keyOf x) (E.checksum x.2.2) row)]⟩, none)
      | ((_, _, .error e), _) => (⟨st.analysed ++ [keyOf x], st.files⟩, some e) := by
  rw [scanFile_eq_entryC E pats hx rows hok, scanFileC_step _ _ _ _ hfresh]
  rcases he : entryC (oracles E pats) (rows.map dictOfRows) x with e | en
  · have hh : hitOf (oracles E pats) (rows.map dictOfRows) x = none := by
      cases hh : hitOf (oracles E pats) (rows.map dictOfRows) x with
      | none => rfl
      | some ce => simp [entryC, hh] at he
    simp [rowE, missKeys, hh]
  · have hfix : selOfRow (keyOf x) (E.checksum x.2.2) (rowOfSel en) = en := by
      rcases entryC_ok_iff.1 he with ⟨ce, hh, rfl⟩ | ⟨_, ha⟩
      · obtain ⟨files, hc, hg, _⟩ := cacheHit_eq_some.1 hh
        cases rows with
        | none => cases hc
        | some es =>
          simp only [Option.map_some, Option.some.injEq] at hc
          subst hc
          rw [dictGet_dictOfRows] at hg
          cases hl : Cache.lookupLast es (keyOf x) with
          | none => simp [hl] at hg
          | some he' =>
            obtain ⟨h', e'⟩ := he'
            simp only [hl, Option.map_some, Option.some.injEq] at hg
            obtain ⟨row, hrow, _⟩ := hok es rfl _ (Cache.lookupLast_mem hl)
            simp only at hrow
            subst hrow
            subst hg
            have := selOfRow_fixed (keyOf x) (E.checksum x.2.2) row
            have hcs : (oracles E pats).checksum x.2.2 = E.checksum x.2.2 := rfl
            simpa [entryOfRow, reuseEntry, selOfRow, rowOfSel, hcs] using this
      · obtain ⟨h1, h2, h3⟩ := analysisOf_fields ha
        have hlt : en.lang < numLangs := by rw [h3]; exact langOf_lt hx.2.2
        have := selOfRow_rowOfSel hlt
        rw [h1, h2] at this
        exact this
    cases hh : hitOf (oracles E pats) (rows.map dictOfRows) x <;>
      simp [rowE, missKeys, hh, howOf, hfix]

/-! ## the row list -/

/-- the result of `scan_path(path, cached_report)` seen through the adapters -/
def selResultC (E : Env) (pats : List Gi.Pat) (cached : Option CachedFiles) (root : Node) :
    Except Err (List (Str × Json.FileData)) :=
  match (scanPathCached (oracles E pats) cached root).result with
  | .ok files => .ok (files.map (fun kv => fileOfSel kv.2))
  | .error e => .error e

/-- `codebase.aggregate(); report = Report(codebase, …); report_path.write_text(…)` for the entries
a scan collected (or the exception that aborted it) -/
def finishScan (E : Env) (R : Run) : Except Err (List (Str × Json.FileData)) → Except Err (Json.ReportData × Str)
  | .error e => .error e
  | .ok files =>
    match reportOf E R files with
    | .error e => .error e
    | .ok d => .ok (d, Json.write true d)

theorem scan_eq_finish (E : Env) (R : Run) (root : Node) (prev : Option Str) :
    scan E R root prev = finishScan E R (entriesOf (scanRows E R.pats root prev)) := by
  unfold scan finishScan
  cases entriesOf (scanRows E R.pats root prev) <;> rfl

theorem selResultC_none (E : Env) (pats : List Gi.Pat) (root : Node) :
    selResultC E pats none root = selResult E pats root := by
  unfold selResultC selResult
  cases root with
  | file n c => rfl
  | dir rn ch =>
    have : scanPathCached (oracles E pats) none (.dir rn ch) = scanPath (oracles E pats) (.dir rn ch) := by
      unfold scanPathCached scanPath
      rw [scanDirBodyC_none]
      rfl
    rw [this]
    rfl

theorem entriesOf_rowsC (E : Env) (pats : List Gi.Pat) (cached : Option CachedFiles) :
    ∀ sel : List (List Str × Nat × Str),
      entriesOf (sel.map (fun x => (keyOf x, E.checksum x.2.2, rowE (entryC (oracles E pats) cached x)))) =
        match (runSelC (oracles E pats) cached sel).2 with
        | .ok es => .ok (es.map fileOfSel)
        | .error e => .error e
  | [] => rfl
  | x :: r => by
    have ih := entriesOf_rowsC E pats cached r
    simp only [List.map_cons, runSelC]
    rcases he : entryC (oracles E pats) cached x with e | en
    · simp [entriesOf, rowE]
    · rw [show rowE (Except.ok en) = .ok (rowOfSel en) from rfl]
      simp only [entriesOf]
      rw [ih]
      obtain ⟨hp, hc⟩ := entryC_fields he
      rcases (runSelC (oracles E pats) cached r).2 with e | es
      · rfl
      · simp only [List.map_cons, fileOfSel, hp, hc]
        rfl

/-- the walk of the cache model in any state whose files are those of the tree -/
theorem walk_state (E : Env) {ch : List Node} (hwf : wfDir ch = true) (s : CacheState) (hfs : s.fs = fsOf ch) :
    Cache.walk (cacheParams E) s = (selection (oracles E s.excl) ch).map keyed := by
  rw [← walk_eq_selection E s.excl hwf none]
  simp only [Cache.walk, cacheState, hfs]

/-- **the rows of a scan of the cache model, in ANY state whose files are those of a tree and whose
cache file holds expressible rows, are the entries of `scan_path(path, cached_report)` on that
tree** -/
theorem report_eq_scanPathCached (E : Env) (rn : Str) {ch : List Node} (hwf : wfDir ch = true)
    (s : CacheState) (hfs : s.fs = fsOf ch) (hok : FileOk E s.cache) :
    entriesOf (Cache.report (cacheParams E) s) = selResultC E s.excl (cacheOfFile E s.cache) (.dir rn ch) := by
  have hrows : Cache.report (cacheParams E) s =
      (selection (oracles E s.excl) ch).map (fun x =>
        (keyOf x, E.checksum x.2.2, rowE (entryC (oracles E s.excl) (cacheOfFile E s.cache) x))) := by
    simp only [Cache.report, Cache.scanLog, walk_state E hwf s hfs, List.map_map]
    apply List.map_congr_left
    intro x hx
    simp only [Function.comp, keyed]
    rw [scanFile_eq_entryC E s.excl (goodItem_of_mem hwf hx) _ hok]
    rfl
  rw [hrows, entriesOf_rowsC, selResultC, scanPathCached_eq _ _ rn ch hwf]
  rcases (runSelC (oracles E s.excl) (cacheOfFile E s.cache) (selection (oracles E s.excl) ch)).2 with e | es
  · rfl
  · simp [asDict, List.map_map, Function.comp_def]

/-! ## the instrumentation -/

theorem entryC_total (E : Env) (pats : List Gi.Pat) (cached : Option CachedFiles) (x : List Str × Nat × Str) :
    ∃ en, entryC (oracles E pats) cached x = .ok en := by
  unfold entryC
  cases hitOf (oracles E pats) cached x with
  | some ce => exact ⟨_, rfl⟩
  | none =>
    obtain ⟨ms, hms⟩ := analysisOf_total E pats x
    exact ⟨_, analysisOf_ok.2 ⟨ms, hms, rfl⟩⟩

/-- under the instantiated oracles a scan always completes (C03), so `analysed` is the list of all
misses -/
theorem analysed_eq_misses (E : Env) (pats : List Gi.Pat) (cached : Option CachedFiles) (rn : Str)
    {ch : List Node} (hwf : wfDir ch = true) :
    (scanPathCached (oracles E pats) cached (.dir rn ch)).analysed =
      (misses (oracles E pats) cached (selection (oracles E pats) ch)).map keyOf := by
  obtain ⟨es, hes⟩ := runSelC_total (O := oracles E pats) (cached := cached)
    (sel := selection (oracles E pats) ch) (fun x _ => entryC_total E pats cached x)
  rw [scanPathCached_eq _ _ rn ch hwf]
  exact (runSelC_ok hes).1

/-- **the instrumentation of the two models agrees**: the files the cache model counts as analysed
(reused) are the paths `scanPathCached` hands (does not hand) to `_analyze_file` -/
theorem analysedFiles_eq (E : Env) (rn : Str) {ch : List Node} (hwf : wfDir ch = true)
    (s : CacheState) (hfs : s.fs = fsOf ch) (hok : FileOk E s.cache) :
    (Cache.analysedFiles (cacheParams E) s).map (·.1) =
      (scanPathCached (oracles E s.excl) (cacheOfFile E s.cache) (.dir rn ch)).analysed ∧
    (Cache.reusedFiles (cacheParams E) s).map (·.1) =
      ((selection (oracles E s.excl) ch).filter
        (fun x => (hitOf (oracles E s.excl) (cacheOfFile E s.cache) x).isSome)).map keyOf := by
  have hhow : ∀ x ∈ selection (oracles E s.excl) ch,
      (Cache.scanFile (cacheParams E) (Cache.readCachedReport (cacheParams E) s.cache) (keyed x)).2 =
        howOf (hitOf (oracles E s.excl) (cacheOfFile E s.cache) x) := by
    intro x hx
    simp only [keyed]
    rw [scanFile_eq_entryC E s.excl (goodItem_of_mem hwf hx) _ hok]
    rfl
  constructor
  · rw [analysed_eq_misses E s.excl _ rn hwf]
    simp only [Cache.analysedFiles, walk_state E hwf s hfs, misses, List.filter_map, List.map_map]
    have : ((selection (oracles E s.excl) ch).filter
        ((fun f => !decide ((Cache.scanFile (cacheParams E) (Cache.readCachedReport (cacheParams E) s.cache) f).2 = .reused)) ∘ keyed)) =
        (selection (oracles E s.excl) ch).filter (fun x => (hitOf (oracles E s.excl) (cacheOfFile E s.cache) x).isNone) := by
      apply List.filter_congr
      intro x hx
      simp only [Function.comp, hhow x hx, howOf]
      cases hitOf (oracles E s.excl) (cacheOfFile E s.cache) x <;> simp
    rw [this]
    rfl
  · simp only [Cache.reusedFiles, walk_state E hwf s hfs, List.filter_map, List.map_map]
    have : ((selection (oracles E s.excl) ch).filter
        ((fun f => decide ((Cache.scanFile (cacheParams E) (Cache.readCachedReport (cacheParams E) s.cache) f).2 = .reused)) ∘ keyed)) =
        (selection (oracles E s.excl) ch).filter (fun x => (hitOf (oracles E s.excl) (cacheOfFile E s.cache) x).isSome) := by
      apply List.filter_congr
      intro x hx
      simp only [Function.comp, hhow x hx, howOf]
      cases hitOf (oracles E s.excl) (cacheOfFile E s.cache) x <;> simp
    rw [this]
    rfl

/-! ## which cache files are expressible -/

theorem fileOk_of_inv {E : Env} {cf : CacheFileT}
    (h : Cache.Honest (cacheParams E) cf ∨ ¬ Cache.Usable (cacheParams E) cf) : FileOk E cf := by
  intro es hes r hr
  have hd := (Cache.readCachedReport_eq_some (cacheParams E)).1 hes
  rcases h with h | h
  · obtain ⟨c, _, h2⟩ := h _ _ hd r hr
    obtain ⟨k, hsh, e⟩ := r
    simp only at h2
    subst h2
    exact analyzeRow_rowOk E k hsh c
  · exact absurd ⟨es, hd⟩ h

theorem fileOk_of_cacheOk {E : Env} (hE : EnvOk E) {prev : Option Str} (h : CacheOk E prev) :
    FileOk E (readCache prev) := fileOk_of_inv (inv_of_cacheOk hE h)

theorem fileOk_none (E : Env) : FileOk E (readCache none) := by
  intro es hes
  simp [readCache, Cache.readCachedReport] at hes


/-! ## an honest cache file of the cache model, seen from the tree model -/

/-- **the invariant of C09, per file, on the tree model**: when the cache file is honest (or not
used) and MD5 has no collisions, the entry `_scan_file` files for a selected file is its analysis -/
theorem entryC_eq_analysis_of_inv {E : Env} (hinj : Function.Injective E.checksum) {cf : CacheFileT}
    (hinv : Cache.Honest (cacheParams E) cf ∨ ¬ Cache.Usable (cacheParams E) cf) (pats : List Gi.Pat)
    {x : List Str × Nat × Str} (hx : GoodItem E x) :
    entryC (oracles E pats) (cacheOfFile E cf) x = analysisOf (oracles E pats) x := by
  cases hh : hitOf (oracles E pats) (cacheOfFile E cf) x with
  | none => simp only [entryC, hh]
  | some ce =>
    obtain ⟨files, hc, hg, hsum⟩ := cacheHit_eq_some.1 hh
    unfold cacheOfFile at hc
    cases hes : Cache.readCachedReport (cacheParams E) cf with
    | none => simp [hes] at hc
    | some es =>
      simp only [hes, Option.map_some, Option.some.injEq] at hc
      subst hc
      have hd := (Cache.readCachedReport_eq_some (cacheParams E)).1 hes
      have hhon : Cache.HonestRows (cacheParams E) es := by
        rcases hinv with h | h
        · exact h _ _ hd
        · exact absurd ⟨es, hd⟩ h
      rw [dictGet_dictOfRows] at hg
      cases hl : Cache.lookupLast es (keyOf x) with
      | none => simp [hl] at hg
      | some he =>
        obtain ⟨h', e'⟩ := he
        simp only [hl, Option.map_some, Option.some.injEq] at hg
        subst hg
        obtain ⟨c, h1, h2⟩ := hhon _ (Cache.lookupLast_mem hl)
        simp only at h1 h2
        have hcs : h' = E.checksum x.2.2 := by
          have := entryOfRow_checksum (keyOf x, h', e')
          simp only at this
          rw [← this]
          exact hsum
        have hc : c = x.2.2 := hinj (h1.symm.trans hcs)
        subst hc
        have hrow : e' = rowE (analysisOf (oracles E pats) x) := by
          rw [h2]
          show analyzeRow E (keyOf x) x.2.2 = _
          rw [analyzeRow_item E pats hx]
          cases analysisOf (oracles E pats) x <;> rfl
        obtain ⟨ms, hms⟩ := analysisOf_total E pats x
        have ha : analysisOf (oracles E pats) x = .ok (entryOf (oracles E pats) x.1 x.2.2 x.2.1 ms) :=
          analysisOf_ok.2 ⟨ms, hms, rfl⟩
        rw [ha] at hrow
        simp only [rowE] at hrow
        subst hrow
        subst hcs
        simp only [entryC, hh, ha]
        congr 1
        have hlt : (entryOf (oracles E pats) x.1 x.2.2 x.2.1 ms).lang < numLangs := langOf_lt hx.2.2
        have := selOfRow_rowOfSel hlt
        simp only [entryOfRow, reuseEntry]
        simp only [entryOf] at this ⊢
        rw [show keyOf x = joinPath x.1 from rfl, show (oracles E pats).checksum = E.checksum from rfl] at *
        rw [this]

/-- **one scan**: with an honest (or unused) cache file the tree model returns what it returns
without cache -/
theorem cached_result_eq_fresh_of_inv {E : Env} (hinj : Function.Injective E.checksum) {cf : CacheFileT}
    (hinv : Cache.Honest (cacheParams E) cf ∨ ¬ Cache.Usable (cacheParams E) cf) (pats : List Gi.Pat)
    (rn : Str) {ch : List Node} (hwf : wfDir ch = true) :
    (scanPathCached (oracles E pats) (cacheOfFile E cf) (.dir rn ch)).result =
      (scanPath (oracles E pats) (.dir rn ch)).result := by
  rw [scanPathCached_eq _ _ rn ch hwf, scanPath_eq _ rn ch hwf, ← runSelC_none]
  have : (runSelC (oracles E pats) (cacheOfFile E cf) (selection (oracles E pats) ch)).2 =
      (runSelC (oracles E pats) none (selection (oracles E pats) ch)).2 := by
    apply runSelC_result_congr
    intro x hx
    rw [entryC_none]
    exact entryC_eq_analysis_of_inv hinj hinv pats (goodItem_of_mem hwf hx)
  simp only [this]
  rcases (runSelC (oracles E pats) none (selection (oracles E pats) ch)).2 with e | es <;> rfl


/-- `FileOk` by evaluation -/
theorem fileOk_of_check {E : Env} {cf : CacheFileT}
    (h : (match Cache.readCachedReport (cacheParams E) cf with
      | none => true
      | some es => es.all rowOkB) = true) : FileOk E cf := by
  intro es hes r hr
  rw [hes] at h
  exact (rowOkB_iff r).1 (List.all_eq_true.1 h r hr)

/-! ## `Pipeline.scan` -/

/-- **`scan_command` = `scan_path(path, cached_report)` + `aggregate` + `Report` + `ReportWriter`**,
for every cache file whose usable rows are expressible -/
theorem scan_eq_scanPathCached (E : Env) (R : Run) (rn : Str) {ch : List Node} (hwf : wfDir ch = true)
    {prev : Option Str} (hok : FileOk E (readCache prev)) :
    scan E R (.dir rn ch) prev = finishScan E R (selResultC E R.pats (cacheOf E prev) (.dir rn ch)) := by
  rw [scan_eq_finish, scanRows_root]
  rw [report_eq_scanPathCached E rn hwf (cacheState R.pats ch prev) rfl hok]
  rfl

end CL.Pipeline
