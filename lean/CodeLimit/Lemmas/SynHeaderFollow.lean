import CodeLimit.Lemmas.SynHeaderList
import CodeLimit.Lemmas.Compose
/-!
# The follow-up tests and the name extraction of `get_headers`, syntactically

* `followsAt_brace`: the follow-up `Symbol("{")` succeeds at `f` iff `toks[f]` is the symbol `{`;
* `followsAt_tail`: the follow-up `{` or `K ZeroOrMore(And(Not(";"), Not("{"))) {` (Java:
  `K = Keyword("throws")`, TypeScript: `K = Operator(":")`) succeeds at `f` iff `toks[f]` is the
  symbol `{`, or `toks[f]` satisfies `K` and `braceAhead` holds of the rest;
* `firstName_slice`: the name of a header whose first token is a name token is that token;
* `javaPrevOk_iff`: Java's `filter_headers` test.
-/
namespace CL.Syn
open CL.Compose

/-! ## `Symbol("{")` -/

/-- `Symbol("{")` -/
def braceRx : Rx Pred := .atom (.symbol [123])

def braceDfa : Dfa Pred := ⟨[(.set [2], []), (.start, [(.symbol [123], .set [2])])], [.set [2]]⟩

theorem compile_braceRx : compileTok braceRx = .ok braceDfa := by rfl

theorem brace_row_start : braceDfa.row .start = [(.symbol [123], .set [2])] := by decide

theorem brace_step_start (ds : Depths) (x : Tok) :
    (dfaMachine braceDfa tokAcceptor).step (.start, ds) x =
      if x.isSymbol [123] then .ok (some (.set [2], ds)) else .ok none := by
  by_cases h : x.isSymbol [123] = true <;>
    simp [dfaMachine, consume, brace_row_start, consumeAux, tokAcceptor, acceptTok, Pred.eval, h]

theorem getElem?_of_drop_cons {toks : List Tok} {f : Nat} {x : Tok} {xs : List Tok}
    (h : toks.drop f = x :: xs) : toks[f]? = some x := by
  have : (toks.drop f)[0]? = some x := by rw [h]; rfl
  simpa using this

/-- the follow-up `Symbol("{")` succeeds at `f` exactly when `toks[f]` is the symbol `{` -/
theorem followsAt_brace (toks : List Tok) (f : Nat) :
    FollowsAt (some braceRx) toks f ↔ SymbolAt toks f [123] := by
  simp only [FollowsAt, compile_braceRx, Except.ok.injEq, exists_and_left, exists_eq_left']
  constructor
  · rintro ⟨k, hk⟩
    cases hd : toks.drop f with
    | nil => rw [hd] at hk; simp [startsWithM] at hk
    | cons x xs =>
      refine ⟨x, getElem?_of_drop_cons hd, ?_⟩
      rw [hd] at hk
      show x.isSymbol [123] = true
      cases hx : x.isSymbol [123]
      · simp only [startsWithM] at hk
        rw [show (dfaMachine braceDfa tokAcceptor).init = (.start, []) from rfl,
          brace_step_start, hx] at hk
        simp at hk
      · rfl
  · rintro ⟨t, ht, hs⟩
    refine ⟨1, ?_⟩
    rw [drop_eq_cons ht]
    simp only [startsWithM]
    rw [show (dfaMachine braceDfa tokAcceptor).init = (.start, []) from rfl, brace_step_start, hs]
    rfl

/-! ## `{` or `K ... {` -/

/-- `And(Not(";"), Not("{"))` -/
def skipP : Pred := .and (.not (.value [59])) (.not (.value [123]))

/-- `{` or `K`, then tokens other than `;` and `{`, then `{` -/
def tailRx (K : Pred) : Rx Pred :=
  .alt (.atom (.symbol [123]))
    (.cat (.cat (.atom K) (.star (.atom skipP))) (.atom (.symbol [123])))

def tA1 : DState := .set [4, 10]
def tA2 : DState := .set [9, 10]
def tB1 : DState := .set [5, 6, 8]
def tB2 : DState := .set [6, 7, 8]

def tailDfa (K : Pred) : Dfa Pred :=
  ⟨[(tA1, []), (tB2, [(skipP, tB2), (.symbol [123], tA2)]), (tA2, []),
    (tB1, [(skipP, tB2), (.symbol [123], tA2)]),
    (.start, [(.symbol [123], tA1), (K, tB1)])], [tA1, tA2]⟩

theorem compile_tail_throws :
    compileTok (tailRx (.keyword [116, 104, 114, 111, 119, 115])) =
      .ok (tailDfa (.keyword [116, 104, 114, 111, 119, 115])) := by rfl

theorem compile_tail_colon :
    compileTok (tailRx (.operator [58])) = .ok (tailDfa (.operator [58])) := by rfl

section tail
variable (K : Pred)

theorem tail_row_start : (tailDfa K).row .start = [(.symbol [123], tA1), (K, tB1)] := by
  simp [Dfa.row, tailDfa, tA1, tA2, tB1, tB2]

theorem tail_row_B1 : (tailDfa K).row tB1 = [(skipP, tB2), (.symbol [123], tA2)] := by
  simp [Dfa.row, tailDfa, tA1, tA2, tB1, tB2]

theorem tail_row_B2 : (tailDfa K).row tB2 = [(skipP, tB2), (.symbol [123], tA2)] := by
  simp [Dfa.row, tailDfa, tA1, tA2, tB1, tB2]

theorem tail_acc_A1 : (tailDfa K).isAcc tA1 = true := by
  simp [Dfa.isAcc, tailDfa, tA1, tA2]

theorem tail_acc_A2 : (tailDfa K).isAcc tA2 = true := by
  simp [Dfa.isAcc, tailDfa, tA1, tA2]

theorem tail_acc_B1 : (tailDfa K).isAcc tB1 = false := by
  simp [Dfa.isAcc, tailDfa, tA1, tA2, tB1]

theorem tail_acc_B2 : (tailDfa K).isAcc tB2 = false := by
  simp [Dfa.isAcc, tailDfa, tA1, tA2, tB2]

variable {K}

/-- the step from the start state; `K` is stateless and never accepts the symbol `{` -/
theorem tail_step_start (hK : K.isBal = false)
    (hdisj : ∀ t : Tok, t.isSymbol [123] = true → K.eval t = false) (ds : Depths) (x : Tok) :
    (dfaMachine (tailDfa K) tokAcceptor).step (.start, ds) x =
      if x.isSymbol [123] then .ok (some (tA1, ds))
      else if K.eval x then .ok (some (tB1, ds)) else .ok none := by
  have hKa : tokAcceptor.accept K ds x = (K.eval x, ds) := acceptTok_pure hK ds x
  have hsy : tokAcceptor.accept (.symbol [123]) ds x = (x.isSymbol [123], ds) := rfl
  simp only [dfaMachine, consume, tail_row_start, consumeAux, hKa, hsy]
  by_cases h : x.isSymbol [123] = true
  · have := hdisj x h
    simp [h, this]
  · by_cases h' : K.eval x = true <;> simp [h, h']

theorem skipP_eval (x : Tok) : skipP.eval x = (!(x.val == [59]) && !(x.val == [123])) := rfl

theorem symbol_not_skip {x : Tok} (h : x.isSymbol [123] = true) : skipP.eval x = false := by
  simp only [Tok.isSymbol, Bool.and_eq_true, beq_iff_eq] at h
  simp [skipP_eval, h.2]

theorem skip_not_symbol {x : Tok} (h : skipP.eval x = true) : x.isSymbol [123] = false := by
  cases hs : x.isSymbol [123]
  · rfl
  · rw [symbol_not_skip hs] at h; cases h

/-- the step from either of the two states after `K` -/
theorem tail_step_B {s : DState}
    (hs : (tailDfa K).row s = [(skipP, tB2), (.symbol [123], tA2)]) (ds : Depths) (x : Tok) :
    (dfaMachine (tailDfa K) tokAcceptor).step (s, ds) x =
      if x.isSymbol [123] then .ok (some (tA2, ds))
      else if skipP.eval x then .ok (some (tB2, ds)) else .ok none := by
  have hsk : tokAcceptor.accept skipP ds x = (skipP.eval x, ds) := rfl
  have hsy : tokAcceptor.accept (.symbol [123]) ds x = (x.isSymbol [123], ds) := rfl
  simp only [dfaMachine, consume, hs, consumeAux, hsk, hsy]
  by_cases h : x.isSymbol [123] = true
  · have := symbol_not_skip h
    simp [h, this]
  · by_cases h' : skipP.eval x = true <;> simp [h, h']

/-- `starts_with` from a state after `K` succeeds exactly when `braceAhead` holds -/
theorem tail_startsWith_B {s : DState}
    (hs : (tailDfa K).row s = [(skipP, tB2), (.symbol [123], tA2)]) (ts : List Tok)
    (ds : Depths) (n : Nat) :
    (∃ k, startsWithM (dfaMachine (tailDfa K) tokAcceptor) (s, ds) ts n = .ok (some k)) ↔
      braceAhead ts = true := by
  induction ts generalizing s n with
  | nil => simp [startsWithM, braceAhead]
  | cons x xs ih =>
    simp only [startsWithM, tail_step_B hs, braceAhead]
    by_cases h : x.isSymbol [123] = true
    · simp only [h, if_true]
      have : (dfaMachine (tailDfa K) tokAcceptor).acc (tA2, ds) = true := tail_acc_A2 K
      simp [this]
    · simp only [h, Bool.false_eq_true, if_false]
      by_cases h' : skipP.eval x = true
      · have hv : (x.val == [59] || x.val == [123]) = false := by
          rw [skipP_eval] at h'
          cases h1 : x.val == [59] <;> cases h2 : x.val == [123] <;> simp [h1, h2] at h' ⊢
        have hna : (dfaMachine (tailDfa K) tokAcceptor).acc (tB2, ds) = false := tail_acc_B2 K
        simp only [h', if_true, hna, Bool.false_eq_true, if_false, hv]
        exact ih (tail_row_B2 K) (n + 1)
      · have hv : (x.val == [59] || x.val == [123]) = true := by
          rw [skipP_eval] at h'
          cases h1 : x.val == [59] <;> cases h2 : x.val == [123] <;> simp [h1, h2] at h' ⊢
        simp [h', hv]

/-- the follow-up `{` or `K ... {` succeeds at `f` exactly when `toks[f]` is the symbol `{`, or
`toks[f]` satisfies `K` and a symbol `{` comes before any other `;` / `{` in the rest -/
theorem followsAt_tail (hK : K.isBal = false)
    (hdisj : ∀ t : Tok, t.isSymbol [123] = true → K.eval t = false)
    (hc : compileTok (tailRx K) = .ok (tailDfa K)) (toks : List Tok) (f : Nat) :
    FollowsAt (some (tailRx K)) toks f ↔
      SymbolAt toks f [123] ∨
        ((∃ t, toks[f]? = some t ∧ K.eval t = true) ∧ braceAhead (toks.drop (f + 1)) = true) := by
  simp only [FollowsAt, hc, Except.ok.injEq, exists_and_left, exists_eq_left']
  have hinit : (dfaMachine (tailDfa K) tokAcceptor).init = (.start, []) := rfl
  cases hd : toks.drop f with
  | nil =>
    have hnone : toks[f]? = none := by
      rw [List.getElem?_eq_none_iff]
      exact List.drop_eq_nil_iff.1 hd
    simp [startsWithM, SymbolAt, hnone]
  | cons x xs =>
    have hx : toks[f]? = some x := getElem?_of_drop_cons hd
    have hxs : toks.drop (f + 1) = xs := by
      have := drop_eq_cons hx
      rw [hd] at this
      exact (List.cons.inj this).2.symm
    simp only [startsWithM, hinit, tail_step_start hK hdisj, SymbolAt, hx, Option.some.injEq,
      exists_eq_left', hxs]
    by_cases h : x.isSymbol [123] = true
    · have : (dfaMachine (tailDfa K) tokAcceptor).acc (tA1, []) = true := tail_acc_A1 K
      simp [h, this]
    · simp only [h, Bool.false_eq_true, if_false, false_or]
      by_cases h' : K.eval x = true
      · have hna : (dfaMachine (tailDfa K) tokAcceptor).acc (tB1, []) = false := tail_acc_B1 K
        simp only [h', if_true, hna, Bool.false_eq_true, if_false, true_and]
        exact tail_startsWith_B (tail_row_B1 K) xs [] (0 + 1)
      · simp [h']

end tail

/-- Java's follow-up pattern -/
theorem followsAt_java (toks : List Tok) (f : Nat) :
    FollowsAt (some (tailRx (.keyword [116, 104, 114, 111, 119, 115]))) toks f ↔
      JavaFollow toks f := by
  rw [followsAt_tail rfl (by
    intro t ht
    simp only [Tok.isSymbol, Bool.and_eq_true, beq_iff_eq] at ht
    simp [Pred.eval, Tok.isKeyword, ht.1]) compile_tail_throws]
  rfl

/-- TypeScript's follow-up pattern (function / method headers) -/
theorem followsAt_ts (toks : List Tok) (f : Nat) :
    FollowsAt (some (tailRx (.operator [58]))) toks f ↔ TsFollow toks f := by
  rw [followsAt_tail rfl (by
    intro t ht
    simp only [Tok.isSymbol, Bool.and_eq_true, beq_iff_eq] at ht
    simp [Pred.eval, Tok.isOperator, ht.1]) compile_tail_colon]
  rfl

/-- a successful follow-up test needs a token at `f` -/
theorem SymbolAt.lt {toks : List Tok} {f : Nat} {s : Str} (h : SymbolAt toks f s) :
    f < toks.length := by
  obtain ⟨t, ht, _⟩ := h
  exact (List.getElem?_eq_some_iff.1 ht).1

theorem JavaFollow.lt {toks : List Tok} {f : Nat} (h : JavaFollow toks f) : f < toks.length := by
  rcases h with h | ⟨⟨t, ht, _⟩, _⟩
  · exact h.lt
  · exact (List.getElem?_eq_some_iff.1 ht).1

theorem TsFollow.lt {toks : List Tok} {f : Nat} (h : TsFollow toks f) : f < toks.length := by
  rcases h with h | ⟨⟨t, ht, _⟩, _⟩
  · exact h.lt
  · exact (List.getElem?_eq_some_iff.1 ht).1

/-! ## the name of a header -/

/-- the name extracted from a match whose first token is a name token is that token -/
theorem firstName_slice {toks : List Tok} {p f : Nat} {n : Tok} (hn : toks[p]? = some n)
    (hname : n.isName = true) (hpf : p < f) : firstName (slice toks p f) = .ok n := by
  unfold slice
  rw [drop_eq_cons hn]
  obtain ⟨k, hk⟩ : ∃ k, f - p = k + 1 := ⟨f - p - 1, by omega⟩
  rw [hk, List.take_succ_cons]
  simp [firstName, hname]

/-- the name extracted from a match whose first token is a keyword and whose second token is a
name token is the second token -/
theorem firstName_slice_succ {toks : List Tok} {p f : Nat} {k n : Tok} (hk : toks[p]? = some k)
    (hkw : k.isName = false) (hn : toks[p + 1]? = some n) (hname : n.isName = true)
    (hpf : p + 1 < f) : firstName (slice toks p f) = .ok n := by
  unfold slice
  rw [drop_eq_cons hk, drop_eq_cons hn]
  obtain ⟨j, hj⟩ : ∃ j, f - p = j + 1 + 1 := ⟨f - p - 2, by omega⟩
  rw [hj, List.take_succ_cons, List.take_succ_cons]
  simp [firstName, hname, hkw]

/-! ## Java's `filter_headers` -/

/-- Java's keyword filter -/
def javaPrev : Pred := .or (.keyword [114, 101, 99, 111, 114, 100]) (.keyword [110, 101, 119])

theorem prevOk_none {L : Language} (h : L.prevKw = none) (toks : List Tok) (p : Nat) :
    PrevOk L toks p := by
  simp [PrevOk, h]

theorem prevOk_java {L : Language} (h : L.prevKw = some javaPrev) (toks : List Tok) (p : Nat) :
    PrevOk L toks p ↔ JavaPrevOk toks p := by
  simp only [PrevOk, h, JavaPrevOk, KeywordAt, javaPrev, Pred.eval, Bool.or_eq_true]
  apply not_congr
  apply and_congr_right
  intro _
  constructor
  · rintro ⟨t, ht, h1 | h1⟩
    · exact .inl ⟨t, ht, h1⟩
    · exact .inr ⟨t, ht, h1⟩
  · rintro (⟨t, ht, h1⟩ | ⟨t, ht, h1⟩)
    · exact ⟨t, ht, .inl h1⟩
    · exact ⟨t, ht, .inr h1⟩

end CL.Syn
