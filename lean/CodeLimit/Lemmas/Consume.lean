import CodeLimit.Model.Pattern
/-!
# `Pattern.consume` with `Identity` predicates on a row with pairwise distinct labels
-/
namespace CL

variable {α : Type} [DecidableEq α]

theorem consumeAux_id_cons (x : α) (p : α) (t : DState) (rest : List (α × DState))
    (f : Option DState) (ps : Unit) :
    consumeAux idAcceptor x ((p, t) :: rest) f ps
      = if p = x then
          (if f.isSome then .error .multipleTransitions
           else consumeAux idAcceptor x rest (some t) ())
        else consumeAux idAcceptor x rest f () := by
  simp [consumeAux, idAcceptor]

theorem consumeAux_id_no_match (x : α) (row : List (α × DState)) (f : Option DState) (ps : Unit)
    (h : ∀ t ∈ row, t.1 ≠ x) :
    consumeAux idAcceptor x row f ps = .ok (f, ()) := by
  induction row generalizing f ps with
  | nil => rfl
  | cons hd rest ih =>
    obtain ⟨p, t⟩ := hd
    have hp : p ≠ x := h (p, t) (by simp)
    have hrest : ∀ t ∈ rest, t.1 ≠ x := fun t ht => h t (by simp [ht])
    rw [consumeAux_id_cons, if_neg hp]
    exact ih f () hrest

theorem consumeAux_id (x : α) (row : List (α × DState)) (ps : Unit)
    (hnd : (row.map (·.1)).Nodup) :
    consumeAux idAcceptor x row none ps
      = .ok ((row.find? (fun t => t.1 = x)).map (·.2), ()) := by
  induction row generalizing ps with
  | nil => rfl
  | cons hd rest ih =>
    obtain ⟨p, t⟩ := hd
    simp only [List.map_cons, List.nodup_cons, List.mem_map, not_exists, not_and] at hnd
    rw [consumeAux_id_cons]
    by_cases hp : p = x
    · subst hp
      have hrest : ∀ t ∈ rest, t.1 ≠ p := fun t' ht' he => hnd.1 t' ht' he
      rw [if_pos rfl, consumeAux_id_no_match p rest (some t) () hrest]
      simp
    · rw [if_neg hp, ih () hnd.2]
      simp [hp]

/-- item 3: on a row with pairwise distinct labels `consume` never raises and returns the
unique matching target -/
theorem consume_id (row : List (α × DState)) (x : α) (hnd : (row.map (·.1)).Nodup) :
    consume idAcceptor row () x
      = .ok ((row.find? (fun t => t.1 = x)).map (fun t => (t.2, ()))) := by
  unfold consume
  rw [consumeAux_id x row () hnd]
  cases h : row.find? (fun t => t.1 = x) <;> simp

end CL
