import CodeLimit.Model.Scopes
import CodeLimit.Gen.Logic
/-!
# The comparison primitives of the hand-written scope model are the ones in the source

`Gen/Logic.lean` is regenerated from the Python source on every run; these lemmas prove that
the comparisons used by `Model/Scopes.lean` (`TokenRange.lt/contains/overlaps`, `Scope.contains`,
the candidate test of `_get_nearest_block`, the two index tests of `_scope_tokens`) are exactly
the regenerated ones. An off-by-one edit of any of them in the source breaks these proofs (and
with them every property file that imports this module) even if no generated input happens to
distinguish the two versions.
-/
namespace CL

open Gen.Logic

theorem Range.lt_tie (a b : Range) : a.lt b = true ↔ range_lt a.s a.e b.s b.e := by
  unfold Range.lt range_lt; simp <;> omega

theorem Range.contains_tie (a b : Range) : a.contains b = true ↔ range_contains a.s a.e b.s b.e := by
  unfold Range.contains range_contains; simp <;> omega

theorem Range.overlaps_tie (a b : Range) : a.overlaps b = true ↔ range_overlaps a.s a.e b.s b.e := by
  unfold Range.overlaps range_overlaps; simp <;> omega

theorem Scope.contains_tie (a b : Scope) :
    a.contains b = true ↔ scope_contains a.hdr.rng.s a.blk.e b.hdr.rng.s b.blk.e := by
  unfold Scope.contains scope_contains; simp <;> omega

/-- the `elif block.start >= header.end` test of `_get_nearest_block` as used in `nearestBlock` -/
theorem nearest_candidate_tie (b h : Range) : decide (b.s ≥ h.e) = true ↔ nearest_candidate b.s b.e h.s h.e := by
  unfold nearest_candidate; simp <;> omega

/-- `scopeLinesLoop` drops a child range exactly when the source's `while` test holds and keeps a
token exactly when the source's `if` test holds -/
theorem scope_tokens_tie (i : Nat) (c : Range) :
    (decide (i ≥ c.e) = true ↔ scope_tokens_pops i c.e) ∧ (decide (i < c.s) = true ↔ scope_tokens_keeps i c.s) := by
  unfold scope_tokens_pops scope_tokens_keeps; simp <;> omega

end CL
