import CodeLimit.Model.Scopes
import CodeLimit.Gen.Logic
/-!
# The comparison primitives of the hand-written scope model are the ones in the source

`Gen/Logic.lean` is regenerated from the Python source on every run; these lemmas prove that
the comparisons used by `Model/Scopes.lean` (`TokenRange.lt/contains/overlaps`, `Scope.contains`,
the candidate test of `_get_nearest_block`, the two index tests of `_scope_tokens`, the end
location of `scan_file`, the two tests of Python's block search), by `Model/Token.lean`
(`Balanced.accept`) and by `Model/Pattern.lean` (the pre-emption guards of `find_all`) are exactly
the regenerated ones. An off-by-one edit of any of them in the source breaks these proofs (and
with them every property file that imports this module) even if no generated input happens to
distinguish the two versions.
-/
namespace CL

open Gen.Logic

theorem Range.lt_tie (a b : Range) : a.lt b = true ↔ range_lt a.s a.e b.s b.e := by
  unfold Range.lt range_lt; simp <;> omega

theorem Range.contains_tie (a b : Range) : a.contains b = true ↔ range_contains a.s a.e b.s b.e := by
  unfold Range.contains range_contains; simp <;> omega

theorem Range.overlaps_tie (a b : Range) : a.overlaps b = true ↔ range_overlaps a.s a.e b.s b.e := by
  unfold Range.overlaps range_overlaps; simp <;> omega

theorem Scope.contains_tie (a b : Scope) :
    a.contains b = true ↔ scope_contains a.hdr.rng.s a.blk.e b.hdr.rng.s b.blk.e := by
  unfold Scope.contains scope_contains; simp <;> omega

/-- the `elif block.start >= header.end` test of `_get_nearest_block` as used in `nearestBlock` -/
theorem nearest_candidate_tie (b h : Range) : decide (b.s ≥ h.e) = true ↔ nearest_candidate b.s b.e h.s h.e := by
  unfold nearest_candidate; simp <;> omega

/-- `scopeLinesLoop` drops a child range exactly when the source's `while` test holds and keeps a
token exactly when the source's `if` test holds -/
theorem scope_tokens_tie (i : Nat) (c : Range) :
    (decide (i ≥ c.e) = true ↔ scope_tokens_pops i c.e) ∧ (decide (i < c.s) = true ↔ scope_tokens_keeps i c.s) := by
  unfold scope_tokens_pops scope_tokens_keeps; simp <;> omega

/-! ### `Balanced.accept` (`Model/Token.lean: acceptTok`) -/

theorem getDepth_setDepth_same (ds : Depths) (p : Pred) (d : Int) : getDepth (setDepth ds p d) p = d := by
  simp [getDepth, setDepth]

/-- on a `Balanced` predicate the model's `acceptTok` accepts exactly when the source's
`Balanced.accept` does, and leaves the predicate at the depth the source leaves it at; the
inputs of the generated definition are what `left.accept(token)` / `right.accept(token)` return
and the current depth -/
theorem acceptTok_balanced_tie (l r : Pred) (ds : Depths) (t : Tok) :
    (acceptTok (.balanced l r) ds t).1 =
      (balanced_accept (l.eval t) (r.eval t) (getDepth ds (.balanced l r))).1 ∧
    getDepth (acceptTok (.balanced l r) ds t).2 (.balanced l r) =
      (balanced_accept (l.eval t) (r.eval t) (getDepth ds (.balanced l r))).2 := by
  simp only [acceptTok]
  generalize l.eval t = a
  generalize r.eval t = b
  generalize hd : getDepth ds (.balanced l r) = d
  unfold balanced_accept
  cases a <;> cases b <;> simp only [Bool.false_eq_true, if_false, if_true, getDepth_setDepth_same] <;> grind

/-! ### the pre-emption guards of `matcher.find_all` (`Model/Pattern.lean: procOne, finalize`) -/

/-- the test `p.start < lastEnd ms` of `procOne` (guard inside the loop) and of `finalize`
(guard after the loop) is the source's `pattern.start < fs.matches[-1].end` -/
theorem find_all_guard_tie (start lastEnd : Nat) :
    (decide (start < lastEnd) = true ↔ find_all_preempts start lastEnd) ∧
    (decide (start < lastEnd) = true ↔ find_all_preempts_final start lastEnd) := by
  unfold find_all_preempts find_all_preempts_final
  simp only [decide_eq_true_eq]
  omega

/-! ### end location of a measurement (`Model/Scopes.lean: measure`) -/

/-- `measure` computes the end location from `n` = number of newlines in the last token's text
(so `value.split("\n")` has `n + 1` pieces) and `last` = length of the text after the last
newline, exactly as the source does -/
theorem end_location_tie (line col vlen n last : Nat) :
    scan_end_location line col vlen (n + 1) last =
      (((if n = 0 then (line, col + vlen) else (line + n, last + 1) : Nat × Nat).1 : Int),
       ((if n = 0 then (line, col + vlen) else (line + n, last + 1) : Nat × Nat).2 : Int)) := by
  unfold scan_end_location
  by_cases h : n = 0
  · subst h; simp
  · simp only [h, if_false]
    split <;> first | (refine Prod.ext ?_ ?_ <;> simp <;> omega) | omega

/-! ### Python blocks (`Model/Scopes.lean: blockLineIndices`) -/

/-- the two tests of the inner loop of `Python.extract_blocks`: `line_nr <= header_line_nr` stops
the search; on a later line `line_indentation > header_indentation` decides membership -/
theorem python_block_tie (ln lc hl hc : Nat) :
    (decide (ln ≤ hl) = true ↔ python_line_stops ln hl) ∧
    (hl < ln → (decide (lc > hc) = true ↔ python_line_in_block ln lc hl hc)) := by
  unfold python_line_stops python_line_in_block
  simp only [decide_eq_true_eq]
  omega

end CL
