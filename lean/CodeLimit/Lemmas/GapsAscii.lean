import CodeLimit.Lemmas.JsonNum
import CodeLimit.Model.Report
/-!
# The report writer emits ASCII without carriage returns

Hence `Path.write_text` stores the code points of the document as bytes, and `Path.read_text`
(strict UTF-8, universal newlines) gives the document back.
-/
namespace CL.Json

/-- only code points below 128, none of them a carriage return -/
def Ascii (s : Str) : Prop := ∀ c ∈ s, c < 128 ∧ c ≠ 13

theorem Ascii.nil : Ascii [] := fun _ h => by cases h

theorem Ascii.append {a b : Str} (ha : Ascii a) (hb : Ascii b) : Ascii (a ++ b) := by
  intro c hc
  rcases List.mem_append.1 hc with h | h
  · exact ha c h
  · exact hb c h

theorem Ascii.cons {c : Nat} {s : Str} (hc : c < 128 ∧ c ≠ 13) (hs : Ascii s) : Ascii (c :: s) := by
  intro x hx
  rcases List.mem_cons.1 hx with rfl | h
  · exact hc
  · exact hs x h

theorem Ascii.of_decide {s : Str} (h : s.all (fun c => decide (c < 128) && decide (c ≠ 13)) = true) : Ascii s := by
  intro c hc
  have := List.all_eq_true.1 h c hc
  simpa using this

theorem Ascii.replicate (n : Nat) : Ascii (List.replicate n 32) := by
  intro c hc
  rw [List.mem_replicate] at hc
  rw [hc.2]; exact ⟨by decide, by decide⟩

theorem Ascii.sublist {a b : Str} (h : a.Sublist b) (hb : Ascii b) : Ascii a :=
  fun c hc => hb c (h.subset hc)

theorem ascii_rstrip {s : Str} (h : Ascii s) : Ascii (rstrip s) := by
  unfold rstrip
  intro c hc
  have h1 : c ∈ s.reverse.dropWhile isSpaceChar := List.mem_reverse.1 hc
  have h2 : c ∈ s.reverse := (List.dropWhile_sublist _).subset h1
  exact h c (List.mem_reverse.1 h2)

theorem ascii_intercalate {sep : Str} (hsep : Ascii sep) : ∀ {items : List Str}, (∀ i ∈ items, Ascii i) →
    Ascii (sep.intercalate items)
  | [], _ => by simpa [List.intercalate] using Ascii.nil
  | [a], h => by
    have : sep.intercalate [a] = a := by simp [List.intercalate]
    rw [this]; exact h a (List.mem_cons_self ..)
  | a :: b :: t, h => by
    have e : sep.intercalate (a :: b :: t) = a ++ sep ++ sep.intercalate (b :: t) := by
      simp [List.intercalate, List.intersperse]
    rw [e]
    exact ((h a (List.mem_cons_self ..)).append hsep).append
      (ascii_intercalate hsep (fun i hi => h i (List.mem_cons_of_mem _ hi)))

theorem ascii_line (p : Bool) (lvl : Nat) {t : Str} (h : Ascii t) : Ascii (line p lvl t) := by
  unfold line
  split
  · exact ((Ascii.replicate lvl).append h).append (Ascii.of_decide (by decide))
  · exact h

theorem ascii_collection (p : Bool) {items : List Str} (h : ∀ i ∈ items, Ascii i) : Ascii (collection p items) := by
  unfold collection
  have hj : Ascii ((if p = true then cp! ",\n" else cp! ", ").intercalate (items.map rstrip)) := by
    apply ascii_intercalate
    · split <;> exact Ascii.of_decide (by decide)
    · intro i hi
      obtain ⟨x, hx, rfl⟩ := List.mem_map.1 hi
      exact ascii_rstrip (h x hx)
  simp only
  split
  · exact hj.append (Ascii.of_decide (by decide))
  · exact hj

theorem ascii_natText : ∀ (n : Nat), Ascii (natText n) := by
  intro n
  induction n using Nat.strongRecOn with
  | _ n ih =>
    by_cases h : n < 10
    · rw [natText_lt h]
      intro c hc
      simp only [List.mem_singleton] at hc
      omega
    · rw [natText_ge (by omega)]
      refine (ih (n / 10) (by omega)).append ?_
      intro c hc
      simp only [List.mem_singleton] at hc
      omega

theorem ascii_intText (n : Int) : Ascii (intText n) := by
  cases n with
  | ofNat n => exact ascii_natText n
  | negSucc n => exact Ascii.cons ⟨by decide, by decide⟩ (ascii_natText _)

theorem hexDigit_ascii (n : Nat) (h : n < 16) : hexDigit n < 128 ∧ hexDigit n ≠ 13 := by
  unfold hexDigit
  split <;> omega

theorem ascii_uEsc (c : Nat) : Ascii (uEsc c) := by
  unfold uEsc
  intro x hx
  simp only [List.mem_cons, List.not_mem_nil, or_false] at hx
  rcases hx with rfl | rfl | rfl | rfl | rfl | rfl
  · exact ⟨by decide, by decide⟩
  · exact ⟨by decide, by decide⟩
  · exact hexDigit_ascii _ (Nat.mod_lt _ (by decide))
  · exact hexDigit_ascii _ (Nat.mod_lt _ (by decide))
  · exact hexDigit_ascii _ (Nat.mod_lt _ (by decide))
  · exact hexDigit_ascii _ (Nat.mod_lt _ (by decide))

theorem ascii_escCp (c : Nat) : Ascii (escCp c) := by
  unfold escCp
  repeat' split
  all_goals first
    | exact Ascii.of_decide (by decide)
    | exact (ascii_uEsc _).append (ascii_uEsc _)
    | exact ascii_uEsc _
    | (intro x hx; simp only [List.mem_singleton] at hx; omega)

theorem ascii_strBody (s : Str) : Ascii (strBody s) := by
  unfold strBody
  intro c hc
  obtain ⟨x, _, hx⟩ := List.mem_flatMap.1 hc
  exact ascii_escCp x c hx

theorem ascii_dumpsStr (s : Str) : Ascii (dumpsStr s) :=
  Ascii.cons ⟨by decide, by decide⟩ ((ascii_strBody s).append (Ascii.of_decide (by decide)))

theorem ascii_dumpsOpt (o : Option Str) : Ascii (dumpsOpt o) := by
  cases o with
  | none => exact Ascii.of_decide (by decide)
  | some s => exact ascii_dumpsStr s

theorem ascii_intListText (xs : List Int) : Ascii (intListText xs) := by
  unfold intListText
  refine ((Ascii.of_decide (by decide)).append ?_).append (Ascii.of_decide (by decide))
  apply ascii_intercalate (Ascii.of_decide (by decide))
  intro i hi
  obtain ⟨x, _, rfl⟩ := List.mem_map.1 hi
  exact ascii_intText x

/-- a literal prefix followed by an ASCII text -/
theorem ascii_lit {l : Str} (hl : l.all (fun c => decide (c < 128) && decide (c ≠ 13)) = true) {t : Str} (ht : Ascii t) :
    Ascii (l ++ t) := (Ascii.of_decide hl).append ht

theorem forall_mem_cons_iff {α : Type} {P : α → Prop} {a : α} {l : List α} (ha : P a) (hl : ∀ x ∈ l, P x) :
    ∀ x ∈ a :: l, P x := by
  intro x hx
  rcases List.mem_cons.1 hx with rfl | h
  · exact ha
  · exact hl x h

theorem ascii_block (p : Bool) (lvl : Nat) {hd cl : Str} (hh : Ascii hd) (hc : Ascii cl) {items : List Str}
    (hi : ∀ i ∈ items, Ascii i) : Ascii (line p lvl hd ++ collection p items ++ line p lvl cl) :=
  ((ascii_line p lvl hh).append (ascii_collection p hi)).append (ascii_line p lvl hc)

theorem ascii_write (p : Bool) (d : ReportData) : Ascii (write p d) := by
  have lit : ∀ (l : Str), l.all (fun c => decide (c < 128) && decide (c ≠ 13)) = true → Ascii l := fun _ h => Ascii.of_decide h
  have hmeas : ∀ (lvl : Nat) (m : Meas), Ascii (measurementToJson p lvl m) := by
    intro lvl m
    unfold measurementToJson
    apply ascii_line
    repeat' first
      | apply Ascii.append
      | exact ascii_dumpsStr _
      | exact ascii_intText _
      | exact Ascii.of_decide (by decide)
  have hfile : ∀ (lvl : Nat) (k : Str) (f : FileData), Ascii (fileToJson p lvl k f) := by
    intro lvl k f
    unfold fileToJson
    apply ascii_block p lvl ((ascii_dumpsStr k).append (lit _ (by decide))) (lit _ (by decide))
    refine forall_mem_cons_iff (ascii_line _ _ (ascii_lit (by decide) (ascii_dumpsStr _)))
      (forall_mem_cons_iff (ascii_line _ _ (ascii_lit (by decide) (ascii_dumpsStr _)))
      (forall_mem_cons_iff (ascii_line _ _ (ascii_lit (by decide) (ascii_intText _)))
      (forall_mem_cons_iff (ascii_line _ _ (ascii_lit (by decide) (ascii_intListText _)))
      (forall_mem_cons_iff ?_ (fun _ h => by cases h)))))
    unfold fileMeasurementsToJson
    apply ascii_block p _ (lit _ (by decide)) (lit _ (by decide))
    intro i hi
    obtain ⟨m, _, rfl⟩ := List.mem_map.1 hi
    exact hmeas _ m
  have htot : ∀ (lvl : Nat) (k : Str) (t : Totals), Ascii (totalsItemToJson p lvl k t) := by
    intro lvl k t
    unfold totalsItemToJson
    apply ascii_block p lvl ((ascii_dumpsStr k).append (lit _ (by decide))) (lit _ (by decide))
    exact forall_mem_cons_iff (ascii_line _ _ (ascii_lit (by decide) (ascii_intText _)))
      (forall_mem_cons_iff (ascii_line _ _ (ascii_lit (by decide) (ascii_intText _)))
      (forall_mem_cons_iff (ascii_line _ _ (ascii_lit (by decide) (ascii_intText _)))
      (forall_mem_cons_iff (ascii_line _ _ (ascii_lit (by decide) (ascii_intText _)))
      (forall_mem_cons_iff (ascii_line _ _ (ascii_lit (by decide) (ascii_intText _))) (fun _ h => by cases h)))))
  have htree : ∀ (lvl : Nat) (k : Str) (f : Folder), Ascii (treeItemToJson p lvl k f) := by
    intro lvl k f
    unfold treeItemToJson
    apply ascii_block p lvl ((ascii_dumpsStr k).append (lit _ (by decide))) (lit _ (by decide))
    refine forall_mem_cons_iff ?_ (forall_mem_cons_iff (ascii_line _ _ (ascii_lit (by decide) (ascii_intListText _)))
      (fun _ h => by cases h))
    unfold treeItemEntriesToJson
    apply ascii_block p _ (lit _ (by decide)) (lit _ (by decide))
    intro i hi
    obtain ⟨e, _, rfl⟩ := List.mem_map.1 hi
    exact ascii_line _ _ (ascii_dumpsStr e)
  have hcb : Ascii (codebaseToJson p 2 d) := by
    unfold codebaseToJson
    apply ascii_block p _ (lit _ (by decide)) (lit _ (by decide))
    refine forall_mem_cons_iff ?_ (forall_mem_cons_iff ?_ (forall_mem_cons_iff ?_ (fun _ h => by cases h)))
    · unfold totalsToJson
      apply ascii_block p _ (lit _ (by decide)) (lit _ (by decide))
      intro i hi
      obtain ⟨kv, _, rfl⟩ := List.mem_map.1 hi
      exact htot _ _ _
    · unfold treeToJson
      apply ascii_block p _ (lit _ (by decide)) (lit _ (by decide))
      intro i hi
      obtain ⟨kv, _, rfl⟩ := List.mem_map.1 hi
      exact htree _ _ _
    · unfold filesToJson
      apply ascii_block p _ (lit _ (by decide)) (lit _ (by decide))
      intro i hi
      obtain ⟨kv, _, rfl⟩ := List.mem_map.1 hi
      exact hfile _ _ _
  unfold write
  apply ascii_block p 0 (lit _ (by decide)) (lit _ (by decide))
  intro i hi
  simp only [List.mem_append, List.mem_cons, List.not_mem_nil, or_false] at hi
  rcases hi with (⟨rfl | rfl | rfl | rfl⟩ | hr) | rfl
  · exact ascii_line _ _ (ascii_lit (by decide) (ascii_dumpsOpt _))
  · exact ascii_line _ _ (ascii_lit (by decide) (ascii_dumpsStr _))
  · exact ascii_line _ _ (ascii_lit (by decide) (ascii_dumpsStr _))
  · exact ascii_line _ _ (ascii_lit (by decide) (ascii_dumpsStr _))
  · cases hrep : d.repository with
    | none => rw [hrep] at hr; cases hr
    | some r =>
      rw [hrep] at hr
      simp only [List.mem_singleton] at hr
      subst hr
      unfold repositoryToJson
      apply ascii_block p _ (lit _ (by decide)) (lit _ (by decide))
      exact forall_mem_cons_iff (ascii_line _ _ (ascii_lit (by decide) (ascii_dumpsStr _)))
        (forall_mem_cons_iff (ascii_line _ _ (ascii_lit (by decide) (ascii_dumpsStr _)))
        (forall_mem_cons_iff (ascii_line _ _ (ascii_lit (by decide) (ascii_dumpsOpt _))) (fun _ h => by cases h)))
  · exact hcb

end CL.Json
