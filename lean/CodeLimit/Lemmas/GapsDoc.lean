import CodeLimit.Spec.GapsDoc
import CodeLimit.Lemmas.ReportRead
/-!
# Lemmas about the dynamically typed reader (`Model/CacheDoc.lean`)
-/
namespace CL.Json

/-! ## the reader on the value of a written document -/

theorem readMeasurementU_measJson (m : Meas) : readMeasurementU (measJson m) = .ok m.untyped := by
  simp [readMeasurementU, measJson, getKey, lookup, bind, Except.bind, Meas.untyped]

theorem isNumber_num (n : Int) : isNumber (.num n) = true := rfl

theorem all_isNumber_untyped (ms : List Meas) : ∀ x ∈ ms, isNumber x.untyped.value = true :=
  fun _ _ => rfl

theorem readFileU_fileJson (k : Str) (f : FileData) : readFileU k (fileJson f) = .ok (k, f.untyped) := by
  have hm := mapM_map_ok readMeasurementU measJson Meas.untyped f.measurements
    (fun m _ => readMeasurementU_measJson m)
  have ha := all_isNumber_untyped f.measurements
  simp [readFileU, fileJson, getKey, lookup, iterMeasurements, bind, Except.bind, hm, isHashable, isNumber_num,
    FileData.untyped]
  exact ha

theorem readRepositoryU_repoJson (r : Repo) : readRepositoryU (repoJson r) = .ok r.untyped := by
  simp [readRepositoryU, repoJson, lookup, Repo.untyped]

theorem fromJsonU_toJson (buildOk : List Str → Bool) (d : ReportData) (hk : (d.files.map (·.1)).Nodup)
    (hb : buildOk (d.files.map (·.1)) = true) :
    fromJsonU buildOk (toJson d) = .ok d.untyped := by
  have hf := mapM_map_ok (fun kv : Str × JVal => readFileU kv.1 kv.2)
    (fun kv : Str × FileData => (kv.1, fileJson kv.2)) (fun kv => (kv.1, kv.2.untyped)) d.files
    (fun kv _ => readFileU_fileJson kv.1 kv.2)
  have hnd : dictOfPairs (d.files.map fun kv => (kv.1, kv.2.untyped)) = d.files.map fun kv => (kv.1, kv.2.untyped) :=
    dictOfPairs_nodup _ (by simpa [List.map_map, Function.comp_def] using hk)
  have hb' : buildOk (List.map ((fun x : Str × UFile => x.1) ∘ fun kv : Str × FileData => (kv.1, kv.2.untyped)) d.files) = true := by
    simpa [Function.comp_def] using hb
  cases hrep : d.repository with
  | none =>
    simp [fromJsonU, toJson, toJsonWith, hrep, getKey, getOpt, lookup, items, bind, Except.bind,
      hf, hnd, hb', ReportData.untyped]
  | some r =>
    simp [fromJsonU, toJson, toJsonWith, hrep, getKey, getOpt, lookup, items, bind, Except.bind,
      hf, hnd, hb', ReportData.untyped, readRepositoryU_repoJson, Except.map]

/-! ## well-formedness and rows -/

theorem typed?_untyped (m : Meas) : m.untyped.typed? = some m := rfl

theorem wellFormed_untyped_meas (m : Meas) : m.untyped.wellFormed = true := rfl

theorem mapM_typed?_untyped (ms : List Meas) : (ms.map Meas.untyped).mapM UMeas.typed? = some ms := by
  induction ms with
  | nil => rfl
  | cons m ms ih => simp [List.mapM_cons, typed?_untyped, ih]

theorem row?_untyped (k : Str) (f : FileData) : f.untyped.row? k = some (f.row k) := by
  unfold UFile.row?
  simp only [FileData.untyped]
  rw [mapM_typed?_untyped]
  rfl

theorem wellFormed_untyped_file (f : FileData) : f.untyped.wellFormed = true := by
  simp [UFile.wellFormed, FileData.untyped, isStr, isInt, wellFormed_untyped_meas]

theorem rows?_untyped (d : ReportData) : d.untyped.rows? = some d.rows := by
  unfold UReport.rows? ReportData.untyped ReportData.rows
  simp only
  induction d.files with
  | nil => rfl
  | cons kv t ih => simp [List.mapM_cons, row?_untyped, ih]

theorem isInt_iff (v : JVal) : isInt v = true ↔ ∃ n, v = .num n := by
  cases v <;> simp [isInt]

theorem isStr_iff (v : JVal) : isStr v = true ↔ ∃ s, v = .str s := by
  cases v <;> simp [isStr]

theorem isInt_eq (v : JVal) : isInt v = v.num?.isSome := by cases v <;> rfl
theorem isStr_eq (v : JVal) : isStr v = v.str?.isSome := by cases v <;> rfl

theorem typed?_isSome (m : UMeas) : m.typed?.isSome = m.wellFormed := by
  simp only [UMeas.wellFormed, isInt_eq, isStr_eq, UMeas.typed?]
  cases m.unitName.str? <;> cases m.sl.num? <;> cases m.sc.num? <;> cases m.el.num? <;> cases m.ec.num? <;>
    cases m.value.num? <;> rfl

/-! ## when the reader succeeds -/

theorem bind_ok_iff {α β : Type} (x : Except RErr α) (f : α → Except RErr β) (b : β) :
    (x >>= f) = .ok b ↔ ∃ a, x = .ok a ∧ f a = .ok b := by
  cases x <;> simp [bind, Except.bind]

theorem mapM_ok_iff {α β : Type} (f : α → Except RErr β) :
    ∀ (l : List α) (r : List β), l.mapM f = .ok r ↔ All2 (fun a b => f a = .ok b) l r
  | [], r => by
    cases r with
    | nil => simp [List.mapM_nil, pure, Except.pure]; exact .nil
    | cons b bs => simp [List.mapM_nil, pure, Except.pure]; intro h; cases h
  | a :: l, r => by
    rw [List.mapM_cons]
    cases h : f a with
    | error e =>
      simp [bind, Except.bind]
      intro hf
      cases hf with
      | cons h1 _ => rw [h] at h1; cases h1
    | ok b =>
      cases h2 : l.mapM f with
      | error e =>
        simp [bind, Except.bind]
        intro hf
        cases hf with
        | cons _ h3 =>
          have := (mapM_ok_iff f l _).2 h3
          rw [h2] at this; cases this
      | ok bs =>
        have ih := (mapM_ok_iff f l bs).1 h2
        simp [bind, Except.bind, pure, Except.pure]
        constructor
        · rintro rfl; exact .cons h ih
        · intro hf
          cases hf with
          | cons h1 h3 =>
            rw [h] at h1; cases h1
            have := (mapM_ok_iff f l _).2 h3
            rw [h2] at this; cases this; rfl

theorem all2_of_forall_exists {α β : Type} {R : α → β → Prop} :
    ∀ (l : List α), (∀ a ∈ l, ∃ b, R a b) → ∃ r, All2 R l r
  | [], _ => ⟨[], .nil⟩
  | a :: l, h => by
    obtain ⟨b, hb⟩ := h a (List.mem_cons_self ..)
    obtain ⟨r, hr⟩ := all2_of_forall_exists l (fun x hx => h x (List.mem_cons_of_mem _ hx))
    exact ⟨b :: r, .cons hb hr⟩

theorem All2.forall_left {α β : Type} {R : α → β → Prop} {l : List α} {r : List β} (h : All2 R l r) :
    ∀ a ∈ l, ∃ b ∈ r, R a b := by
  induction h with
  | nil => intro a ha; cases ha
  | cons hab _ ih =>
    intro x hx
    rcases List.mem_cons.1 hx with rfl | hx
    · exact ⟨_, List.mem_cons_self .., hab⟩
    · obtain ⟨b, hb, hr⟩ := ih x hx
      exact ⟨b, List.mem_cons_of_mem _ hb, hr⟩

theorem All2.forall_right {α β : Type} {R : α → β → Prop} {l : List α} {r : List β} (h : All2 R l r) :
    ∀ b ∈ r, ∃ a ∈ l, R a b := by
  induction h with
  | nil => intro a ha; cases ha
  | cons hab _ ih =>
    intro x hx
    rcases List.mem_cons.1 hx with rfl | hx
    · exact ⟨_, List.mem_cons_self .., hab⟩
    · obtain ⟨b, hb, hr⟩ := ih x hx
      exact ⟨b, List.mem_cons_of_mem _ hb, hr⟩


theorem getKey_ok_iff (k : Str) (v x : JVal) :
    getKey k v = .ok x ↔ ∃ ms, v = .obj ms ∧ lookup k ms = some x := by
  cases v <;> simp [getKey]
  rename_i ms
  cases h : lookup k ms <;> simp

theorem readMeasurementU_ok_iff (m : JVal) (u : UMeas) :
    readMeasurementU m = .ok u ↔ ∃ ms st en, m = .obj ms ∧ lookup (cp! "start") ms = some (.obj st) ∧
      lookup (cp! "end") ms = some (.obj en) ∧ lookup (cp! "line") st = some u.sl ∧ lookup (cp! "column") st = some u.sc ∧
      lookup (cp! "line") en = some u.el ∧ lookup (cp! "column") en = some u.ec ∧
      lookup (cp! "unit_name") ms = some u.unitName ∧ lookup (cp! "value") ms = some u.value := by
  unfold readMeasurementU
  simp only [bind_ok_iff, getKey_ok_iff]
  constructor
  · rintro ⟨sl, ⟨_, ⟨ms, rfl, h1⟩, st, rfl, h2⟩, sc, ⟨_, ⟨_, h3, h4⟩, st', h5, h6⟩, el, ⟨_, ⟨_, h7, h8⟩, en, rfl, h9⟩,
      ec, ⟨_, ⟨_, h10, h11⟩, en', h12, h13⟩, nm, ⟨_, h14, h15⟩, v, ⟨_, h16, h17⟩, h18⟩
    cases h3; cases h7; cases h10; cases h14; cases h16; cases h18
    rw [h1] at h4; cases h4; rw [h8] at h11; cases h11; cases h5; cases h12
    exact ⟨ms, st, en, rfl, h1, h8, h2, h6, h9, h13, h15, h17⟩
  · rintro ⟨ms, st, en, rfl, h1, h2, h3, h4, h5, h6, h7, h8⟩
    obtain ⟨a, b, c, d, e, f⟩ := u
    exact ⟨b, ⟨_, ⟨ms, rfl, h1⟩, st, rfl, h3⟩, c, ⟨_, ⟨ms, rfl, h1⟩, st, rfl, h4⟩, d, ⟨_, ⟨ms, rfl, h2⟩, en, rfl, h5⟩,
      e, ⟨_, ⟨ms, rfl, h2⟩, en, rfl, h6⟩, a, ⟨ms, rfl, h7⟩, f, ⟨ms, rfl, h8⟩, rfl⟩

theorem iterMeasurements_ok_iff (v : JVal) (l : List JVal) : iterMeasurements v = .ok l ↔ v = .arr l := by
  cases v <;> simp [iterMeasurements]

theorem items_ok_iff (v : JVal) (l : List (Str × JVal)) : items v = .ok l ↔ v = .obj l := by
  cases v <;> simp [items]

theorem guard_ok_iff {α : Type} (c : Bool) (e : RErr) (x : Except RErr α) (b : α) :
    (if (!c) = true then .error e else x) = .ok b ↔ c = true ∧ x = .ok b := by
  cases c <;> simp

theorem readFileU_ok_iff (k : Str) (v : JVal) (kf : Str × UFile) :
    readFileU k v = .ok kf ↔ ∃ ms its, v = .obj ms ∧ lookup (cp! "measurements") ms = some (.arr its) ∧
      All2 (fun a b => readMeasurementU a = .ok b) its kf.2.measurements ∧
      lookup (cp! "checksum") ms = some kf.2.checksum ∧ lookup (cp! "language") ms = some kf.2.language ∧
      lookup (cp! "loc") ms = some kf.2.loc ∧ (kf.2.measurements.all fun m => isNumber m.value) = true ∧
      isHashable kf.2.language = true ∧ isNumber kf.2.loc = true ∧ kf.1 = k := by
  unfold readFileU
  simp only [bind_ok_iff, getKey_ok_iff, iterMeasurements_ok_iff, mapM_ok_iff, guard_ok_iff]
  constructor
  · rintro ⟨its, ⟨_, ⟨ms, rfl, h1⟩, rfl⟩, mm, h2, c, ⟨_, h3, h4⟩, l, ⟨_, h5, h6⟩, n, ⟨_, h7, h8⟩, h9, h10, h11, h12⟩
    cases h3; cases h5; cases h7; cases h12
    exact ⟨ms, its, rfl, h1, h2, h4, h6, h8, h9, h10, h11, rfl⟩
  · rintro ⟨ms, its, rfl, h1, h2, h3, h4, h5, h6, h7, h8, rfl⟩
    obtain ⟨k, c, l, n, mm⟩ := kf
    exact ⟨its, ⟨_, ⟨ms, rfl, h1⟩, rfl⟩, mm, h2, c, ⟨ms, rfl, h3⟩, l, ⟨ms, rfl, h4⟩, n, ⟨ms, rfl, h5⟩, h6, h7, h8, rfl⟩

theorem measShape_iff (m : JVal) : MeasShape m ↔ ∃ u, readMeasurementU m = .ok u ∧ isNumber u.value = true := by
  constructor
  · rintro ⟨ms, st, en, rfl, h1, h2, h3, h4, h5, h6, h7, v, h8, h9⟩
    obtain ⟨a, ha⟩ := Option.isSome_iff_exists.1 h3
    obtain ⟨b, hb⟩ := Option.isSome_iff_exists.1 h4
    obtain ⟨c, hc⟩ := Option.isSome_iff_exists.1 h5
    obtain ⟨d, hd⟩ := Option.isSome_iff_exists.1 h6
    obtain ⟨e, he⟩ := Option.isSome_iff_exists.1 h7
    exact ⟨⟨e, a, b, c, d, v⟩, (readMeasurementU_ok_iff _ _).2 ⟨ms, st, en, rfl, h1, h2, ha, hb, hc, hd, he, h8⟩, h9⟩
  · rintro ⟨u, hu, hn⟩
    obtain ⟨ms, st, en, rfl, h1, h2, h3, h4, h5, h6, h7, h8⟩ := (readMeasurementU_ok_iff _ _).1 hu
    exact ⟨ms, st, en, rfl, h1, h2, by simp [h3], by simp [h4], by simp [h5], by simp [h6], by simp [h7], _, h8, hn⟩

theorem fileShape_iff (k : Str) (v : JVal) : FileShape v ↔ ∃ kf, readFileU k v = .ok kf := by
  constructor
  · rintro ⟨ms, its, lang, loc, rfl, h1, h2, h3, h4, h5, h6, h7⟩
    obtain ⟨c, hc⟩ := Option.isSome_iff_exists.1 h3
    obtain ⟨mm, hmm⟩ := all2_of_forall_exists (R := fun a b => readMeasurementU a = .ok b ∧ isNumber b.value = true) its
      (fun m hm => (measShape_iff m).1 (h2 m hm))
    refine ⟨(k, ⟨c, lang, loc, mm⟩), (readFileU_ok_iff _ _ _).2 ⟨ms, its, rfl, h1, All2.imp (fun _ _ h => h.1) hmm, hc, h4, h6, ?_, h5, h7, rfl⟩⟩
    rw [List.all_eq_true]
    intro u hu
    obtain ⟨a, _, ha⟩ := hmm.forall_right u hu
    exact ha.2
  · rintro ⟨kf, h⟩
    obtain ⟨ms, its, rfl, h1, h2, h3, h4, h5, h6, h7, h8, _⟩ := (readFileU_ok_iff _ _ _).1 h
    refine ⟨ms, its, _, _, rfl, h1, ?_, by simp [h3], h4, h7, h5, h8⟩
    intro m hm
    obtain ⟨u, hu, hr⟩ := h2.forall_left m hm
    exact (measShape_iff m).2 ⟨u, hr, (List.all_eq_true.1 h6) u hu⟩

theorem repoShape_iff (v : JVal) : RepoShape v ↔ ∃ r, readRepositoryU v = .ok r := by
  constructor
  · rintro ⟨ms, rfl, h1, h2, h3⟩
    obtain ⟨o, ho⟩ := Option.isSome_iff_exists.1 h2
    obtain ⟨n, hn⟩ := Option.isSome_iff_exists.1 h3
    have hall : ms.all (fun kv => kv.1 = cp! "owner" || kv.1 = cp! "name" || kv.1 = cp! "branch" || kv.1 = cp! "tag") = true := by
      rw [List.all_eq_true]
      intro kv hkv
      rcases h1 kv hkv with h | h | h | h <;> simp [h]
    simp [readRepositoryU, hall, ho, hn]
  · rintro ⟨r, h⟩
    cases v with
    | obj ms =>
      simp only [readRepositoryU] at h
      split at h
      · rename_i hall
        refine ⟨ms, rfl, ?_, ?_, ?_⟩
        · intro kv hkv
          have := (List.all_eq_true.1 hall) kv hkv
          simpa [Bool.or_eq_true, or_assoc] using this
        · cases ho : lookup (cp! "owner") ms <;> simp [ho] at h ⊢
        · cases ho : lookup (cp! "owner") ms <;> cases hn : lookup (cp! "name") ms <;> simp [ho, hn] at h ⊢
      · cases h
    | _ => simp [readRepositoryU] at h


theorem ok_bind {α β : Type} (a : α) (f : α → Except RErr β) : (Except.ok a >>= f) = f a := rfl

theorem map_some_ok_iff {α : Type} (x : Except RErr α) (o : Option α) :
    Except.map some x = .ok o ↔ ∃ p, x = .ok p ∧ o = some p := by
  cases x <;> simp [Except.map]
  exact eq_comm

theorem fromJsonU_ok_iff (buildOk : List Str → Bool) (d : JVal) (r : UReport) :
    fromJsonU buildOk d = .ok r ↔ ∃ ms cb fs entries, d = .obj ms ∧
      lookup (cp! "root") ms = some r.root ∧ lookup (cp! "uuid") ms = some r.uuid ∧
      r.version = (lookup (cp! "version") ms).getD .null ∧
      (match lookup (cp! "repository") ms with
       | some x => ∃ p, readRepositoryU x = .ok p ∧ r.repository = some p
       | none => r.repository = none) ∧
      lookup (cp! "codebase") ms = some (.obj cb) ∧ lookup (cp! "files") cb = some (.obj fs) ∧
      All2 (fun kv e => readFileU kv.1 kv.2 = .ok e) fs entries ∧
      buildOk (entries.map (·.1)) = true ∧ r.files = dictOfPairs entries := by
  cases d with
  | obj ms =>
    unfold fromJsonU
    simp only [getOpt, ok_bind]
    cases hrep : lookup (cp! "repository") ms with
    | none =>
      simp only [bind_ok_iff, getKey_ok_iff, items_ok_iff, mapM_ok_iff, guard_ok_iff]
      constructor
      · rintro ⟨root, ⟨_, h0, h1⟩, uuid, ⟨_, h2, h3⟩, fs, ⟨_, ⟨_, ⟨_, h4, h5⟩, cb, rfl, h6⟩, rfl⟩, entries, h7, h8, h9⟩
        cases h0; cases h2; cases h4; cases h9
        refine ⟨ms, cb, fs, entries, rfl, h1, h3, ?_, ?_, h5, h6, h7, h8, rfl⟩
        · cases lookup (cp! "version") ms <;> rfl
        · rw [hrep]
      · rintro ⟨_, cb, fs, entries, h0, h1, h2, h3, h4, h5, h6, h7, h8, h9⟩
        cases h0
        rw [hrep] at h4
        obtain ⟨v, u, ro, rp, fl⟩ := r
        simp only at h1 h2 h3 h4 h9
        subst h4 h9
        refine ⟨ro, ⟨ms, rfl, h1⟩, u, ⟨ms, rfl, h2⟩, fs, ⟨_, ⟨_, ⟨ms, rfl, h5⟩, cb, rfl, h6⟩, rfl⟩, entries, h7, h8, ?_⟩
        rw [h3]
        cases lookup (cp! "version") ms <;> rfl
    | some x =>
      simp only [bind_ok_iff, getKey_ok_iff, items_ok_iff, mapM_ok_iff, guard_ok_iff, map_some_ok_iff]
      constructor
      · rintro ⟨root, ⟨_, h0, h1⟩, _, ⟨p, hp, rfl⟩, uuid, ⟨_, h2, h3⟩, fs, ⟨_, ⟨_, ⟨_, h4, h5⟩, cb, rfl, h6⟩, rfl⟩, entries, h7, h8, h9⟩
        cases h0; cases h2; cases h4; cases h9
        refine ⟨ms, cb, fs, entries, rfl, h1, h3, ?_, ?_, h5, h6, h7, h8, rfl⟩
        · cases lookup (cp! "version") ms <;> rfl
        · rw [hrep]; exact ⟨p, hp, rfl⟩
      · rintro ⟨_, cb, fs, entries, h0, h1, h2, h3, h4, h5, h6, h7, h8, h9⟩
        cases h0
        rw [hrep] at h4
        obtain ⟨p, hp, hp2⟩ := h4
        obtain ⟨v, u, ro, rp, fl⟩ := r
        simp only at h1 h2 h3 hp2 h9
        subst hp2 h9
        refine ⟨ro, ⟨ms, rfl, h1⟩, _, ⟨p, hp, rfl⟩, u, ⟨ms, rfl, h2⟩, fs, ⟨_, ⟨_, ⟨ms, rfl, h5⟩, cb, rfl, h6⟩, rfl⟩, entries, h7, h8, ?_⟩
        rw [h3]
        cases lookup (cp! "version") ms <;> rfl
  | _ =>
    simp only [fromJsonU, getKey, bind, Except.bind]
    constructor
    · intro h; cases h
    · rintro ⟨_, _, _, _, h, _⟩; cases h

/-- the keys the reader returns are the keys of the document -/
theorem all2_readFileU_keys {fs : List (Str × JVal)} {entries : List (Str × UFile)}
    (h : All2 (fun kv e => readFileU kv.1 kv.2 = .ok e) fs entries) : entries.map (·.1) = fs.map (·.1) := by
  induction h with
  | nil => rfl
  | cons hab _ ih =>
    obtain ⟨_, _, _, _, _, _, _, _, _, _, _, hk⟩ := (readFileU_ok_iff _ _ _).1 hab
    simp [ih, hk]

theorem docShape_iff (buildOk : List Str → Bool) (d : JVal) :
    (∃ r, fromJsonU buildOk d = .ok r) ↔ ∃ fs, DocShape d fs ∧ buildOk (fs.map (·.1)) = true := by
  constructor
  · rintro ⟨r, h⟩
    obtain ⟨ms, cb, fs, entries, rfl, h1, h2, h3, h4, h5, h6, h7, h8, h9⟩ := (fromJsonU_ok_iff _ _ _).1 h
    refine ⟨fs, ⟨ms, cb, rfl, by simp [h1], by simp [h2], ?_, h5, h6, ?_⟩, ?_⟩
    · intro x hx
      rw [hx] at h4
      obtain ⟨p, hp, _⟩ := h4
      exact (repoShape_iff x).2 ⟨p, hp⟩
    · intro kv hkv
      obtain ⟨e, _, he⟩ := h7.forall_left kv hkv
      exact (fileShape_iff kv.1 kv.2).2 ⟨e, he⟩
    · rw [← all2_readFileU_keys h7]; exact h8
  · rintro ⟨fs, ⟨ms, cb, rfl, h1, h2, h3, h4, h5, h6⟩, hb⟩
    obtain ⟨ro, hro⟩ := Option.isSome_iff_exists.1 h1
    obtain ⟨u, hu⟩ := Option.isSome_iff_exists.1 h2
    obtain ⟨entries, he⟩ := all2_of_forall_exists (R := fun (kv : Str × JVal) e => readFileU kv.1 kv.2 = .ok e) fs
      (fun kv hkv => (fileShape_iff kv.1 kv.2).1 (h6 kv hkv))
    have hb' : buildOk (entries.map (·.1)) = true := by rw [all2_readFileU_keys he]; exact hb
    cases hrep : lookup (cp! "repository") ms with
    | none =>
      exact ⟨⟨(lookup (cp! "version") ms).getD .null, u, ro, none, dictOfPairs entries⟩,
        (fromJsonU_ok_iff _ _ _).2 ⟨ms, cb, fs, entries, rfl, hro, hu, rfl, by rw [hrep], h4, h5, he, hb', rfl⟩⟩
    | some x =>
      obtain ⟨p, hp⟩ := (repoShape_iff x).1 (h3 x hrep)
      exact ⟨⟨(lookup (cp! "version") ms).getD .null, u, ro, some p, dictOfPairs entries⟩,
        (fromJsonU_ok_iff _ _ _).2 ⟨ms, cb, fs, entries, rfl, hro, hu, rfl, by rw [hrep]; exact ⟨p, hp, rfl⟩, h4, h5, he, hb', rfl⟩⟩


/-! ## the typed reader of `Model/Report.lean` against the dynamically typed one -/

theorem asInt_ok_iff (v : JVal) (n : Int) : asInt v = .ok n ↔ v = .num n := by
  cases v <;> simp [asInt]

theorem asStr_ok_iff (v : JVal) (s : Str) : asStr v = .ok s ↔ v = .str s := by
  cases v <;> simp [asStr]

theorem asOptStr_ok_iff (v : JVal) (o : Option Str) : asOptStr v = .ok o ↔ v = optJson o := by
  cases v <;> cases o <;> simp [asOptStr, optJson]

theorem readMeasurement_untyped (j : JVal) (m : Meas) (h : readMeasurement j = .ok m) :
    readMeasurementU j = .ok m.untyped := by
  unfold readMeasurement at h
  simp only [bind_ok_iff, getKey_ok_iff, asInt_ok_iff, asStr_ok_iff] at h
  obtain ⟨sl, ⟨_, ⟨_, ⟨ms, rfl, h1⟩, st, rfl, h2⟩, rfl⟩, sc, ⟨_, ⟨_, ⟨_, h3, h4⟩, st', h5, h6⟩, rfl⟩,
    el, ⟨_, ⟨_, ⟨_, h7, h8⟩, en, rfl, h9⟩, rfl⟩, ec, ⟨_, ⟨_, ⟨_, h10, h11⟩, en', h12, h13⟩, rfl⟩,
    nm, ⟨_, ⟨_, h14, h15⟩, rfl⟩, v, ⟨_, ⟨_, h16, h17⟩, rfl⟩, h18⟩ := h
  cases h3; cases h7; cases h10; cases h14; cases h16; cases h18
  rw [h1] at h4; cases h4; rw [h8] at h11; cases h11; cases h5; cases h12
  exact (readMeasurementU_ok_iff _ _).2 ⟨ms, st, en, rfl, h1, h8, h2, h6, h9, h13, h15, h17⟩

theorem All2.map_right {α β γ : Type} {R : α → β → Prop} {S : α → γ → Prop} (g : β → γ)
    (h : ∀ a b, R a b → S a (g b)) : ∀ {l : List α} {r : List β}, All2 R l r → All2 S l (r.map g)
  | _, _, .nil => .nil
  | _, _, .cons hab t => .cons (h _ _ hab) (All2.map_right g h t)

theorem readFile_untyped (profileOf : List Meas → List Int) (k : Str) (v : JVal) (kf : Str × FileData)
    (h : readFile profileOf k v = .ok kf) : readFileU k v = .ok (kf.1, kf.2.untyped) := by
  unfold readFile at h
  simp only [bind_ok_iff, getKey_ok_iff, iterMeasurements_ok_iff, mapM_ok_iff, asInt_ok_iff, asStr_ok_iff] at h
  obtain ⟨its, ⟨_, ⟨ms, rfl, h1⟩, rfl⟩, mm, h2, c, ⟨_, ⟨_, h3, h4⟩, rfl⟩, l, ⟨_, ⟨_, h5, h6⟩, rfl⟩, n, ⟨_, ⟨_, h7, h8⟩, rfl⟩, h9⟩ := h
  cases h3; cases h5; cases h7; cases h9
  refine (readFileU_ok_iff _ _ _).2 ⟨ms, its, rfl, h1, ?_, h4, h6, h8, ?_, rfl, rfl, rfl⟩
  · exact All2.map_right Meas.untyped (fun a b hab => readMeasurement_untyped a b hab) h2
  · simp only [FileData.untyped, List.all_map, List.all_eq_true]
    intro m _; rfl

theorem readRepository_untyped (v : JVal) (r : Repo) (h : readRepository v = .ok r) :
    ∃ p, readRepositoryU v = .ok p := by
  cases v with
  | obj ms =>
    simp only [readRepository] at h
    simp only [readRepositoryU]
    split at h
    · rename_i hall
      rw [if_pos hall]
      cases ho : lookup (cp! "owner") ms <;> cases hn : lookup (cp! "name") ms <;> simp [ho, hn] at h ⊢
    · cases h
  | _ => simp [readRepository] at h


theorem dictInsert_map {α β : Type} (g : α → β) (d : List (Str × α)) (k : Str) (v : α) :
    dictInsert (d.map fun kv => (kv.1, g kv.2)) k (g v) = (dictInsert d k v).map fun kv => (kv.1, g kv.2) := by
  induction d with
  | nil => rfl
  | cons h t ih =>
    simp only [List.map_cons, dictInsert]
    split <;> simp [ih]

theorem dictOfPairs_map {α β : Type} (g : α → β) (l : List (Str × α)) :
    dictOfPairs (l.map fun kv => (kv.1, g kv.2)) = (dictOfPairs l).map fun kv => (kv.1, g kv.2) := by
  unfold dictOfPairs
  have : ∀ (acc : List (Str × α)),
      List.foldl (fun d kv => dictInsert d kv.1 kv.2) (acc.map fun kv => (kv.1, g kv.2)) (l.map fun kv => (kv.1, g kv.2)) =
      (List.foldl (fun d kv => dictInsert d kv.1 kv.2) acc l).map fun kv => (kv.1, g kv.2) := by
    induction l with
    | nil => intro acc; rfl
    | cons h t ih =>
      intro acc
      simp only [List.map_cons, List.foldl_cons]
      rw [dictInsert_map, ih]
  simpa using this []

theorem rows?_map_untyped (l : List (Str × FileData)) :
    (l.map fun kv => (kv.1, kv.2.untyped)).mapM (fun kv : Str × UFile => kv.2.row? kv.1) = some (l.map fun kv => kv.2.row kv.1) := by
  induction l with
  | nil => rfl
  | cons kv t ih => simp [List.mapM_cons, row?_untyped, ih]

theorem docFiles_eq {ms cb : List (Str × JVal)} {fs : List (Str × JVal)}
    (h1 : lookup (cp! "codebase") ms = some (.obj cb)) (h2 : lookup (cp! "files") cb = some (.obj fs)) :
    docFiles (.obj ms) = fs := by
  simp [docFiles, getKey, h1, h2, items, bind, Except.bind]

theorem fromJson_untyped (build : List (Str × FileData) → List (Str × Totals) × List (Str × Folder))
    (profileOf : List Meas → List Int) (now : Str) (buildOk : List Str → Bool) (v : JVal) (t : ReportData)
    (h : fromJson build profileOf now v = .ok t) (hb : buildOk ((docFiles v).map (·.1)) = true) :
    ∃ u, fromJsonU buildOk v = .ok u ∧ u.wellFormed = true ∧ u.rows? = some t.rows ∧
      u.version = optJson t.version ∧ u.uuid = .str t.uuid ∧ u.root = .str t.root := by
  cases v with
  | obj ms =>
    unfold fromJson at h
    simp only [getOpt, ok_bind] at h
    have key : ∀ (hrepo : match lookup (cp! "repository") ms with
          | some x => ∃ p, readRepositoryU x = .ok p
          | none => True)
        (root uuid : Str) (ver : Option Str) (cb fs : List (Str × JVal)) (entries : List (Str × FileData)),
        lookup (cp! "root") ms = some (.str root) → lookup (cp! "uuid") ms = some (.str uuid) →
        (lookup (cp! "version") ms).getD .null = optJson ver →
        lookup (cp! "codebase") ms = some (.obj cb) → lookup (cp! "files") cb = some (.obj fs) →
        All2 (fun (kv : Str × JVal) e => readFile profileOf kv.1 kv.2 = .ok e) fs entries →
        t.version = ver → t.uuid = uuid → t.root = root → t.files = dictOfPairs entries →
        ∃ u, fromJsonU buildOk (.obj ms) = .ok u ∧ u.wellFormed = true ∧ u.rows? = some t.rows ∧
          u.version = optJson t.version ∧ u.uuid = .str t.uuid ∧ u.root = .str t.root := by
      intro hrepo root uuid ver cb fs entries h1 h2 h3 h5 h6 h7 e1 e2 e3 e4
      have hU : All2 (fun (kv : Str × JVal) e => readFileU kv.1 kv.2 = .ok e) fs
          (entries.map fun kf => (kf.1, kf.2.untyped)) :=
        All2.map_right (fun kf : Str × FileData => (kf.1, kf.2.untyped))
          (fun a b hab => readFile_untyped profileOf a.1 a.2 b hab) h7
      have hb' : buildOk ((entries.map fun kf : Str × FileData => (kf.1, kf.2.untyped)).map (·.1)) = true := by
        rw [all2_readFileU_keys hU, ← docFiles_eq h5 h6]; exact hb
      have hfiles : dictOfPairs (entries.map fun kf : Str × FileData => (kf.1, kf.2.untyped)) =
          t.files.map fun kv => (kv.1, kv.2.untyped) := by
        rw [dictOfPairs_map FileData.untyped entries, e4]
      cases hrep : lookup (cp! "repository") ms with
      | none =>
        refine ⟨⟨optJson ver, .str uuid, .str root, none, t.files.map fun kv => (kv.1, kv.2.untyped)⟩,
          (fromJsonU_ok_iff _ _ _).2 ⟨ms, cb, fs, _, rfl, h1, h2, h3.symm, by rw [hrep], h5, h6, hU, hb', hfiles.symm⟩, ?_, ?_, ?_, ?_, ?_⟩
        · simp [UReport.wellFormed, wellFormed_untyped_file]
        · simp only [UReport.rows?, ReportData.rows]; exact rows?_map_untyped t.files
        · simp [e1]
        · simp [e2]
        · simp [e3]
      | some x =>
        rw [hrep] at hrepo
        obtain ⟨p, hp⟩ := hrepo
        refine ⟨⟨optJson ver, .str uuid, .str root, some p, t.files.map fun kv => (kv.1, kv.2.untyped)⟩,
          (fromJsonU_ok_iff _ _ _).2 ⟨ms, cb, fs, _, rfl, h1, h2, h3.symm, by rw [hrep]; exact ⟨p, hp, rfl⟩, h5, h6, hU, hb', hfiles.symm⟩, ?_, ?_, ?_, ?_, ?_⟩
        · simp [UReport.wellFormed, wellFormed_untyped_file]
        · simp only [UReport.rows?, ReportData.rows]; exact rows?_map_untyped t.files
        · simp [e1]
        · simp [e2]
        · simp [e3]
    cases hrep : lookup (cp! "repository") ms with
    | none =>
      rw [hrep] at h
      cases hver : lookup (cp! "version") ms with
      | none =>
        rw [hver] at h
        simp only [bind_ok_iff, getKey_ok_iff, items_ok_iff, mapM_ok_iff, asStr_ok_iff] at h
        obtain ⟨root, ⟨_, ⟨_, h0, h1⟩, rfl⟩, uuid, ⟨_, ⟨_, h2, h3⟩, rfl⟩, fs, ⟨_, ⟨_, ⟨_, h4, h5⟩, cb, rfl, h6⟩, rfl⟩, entries, h7, h8⟩ := h
        cases h0; cases h2; cases h4; cases h8
        exact key (by rw [hrep]; trivial) root uuid none cb fs entries h1 h3 (by rw [hver]; rfl) h5 h6 h7 rfl rfl rfl rfl
      | some vv =>
        rw [hver] at h
        simp only [bind_ok_iff, getKey_ok_iff, items_ok_iff, mapM_ok_iff, asStr_ok_iff, asOptStr_ok_iff] at h
        obtain ⟨root, ⟨_, ⟨_, h0, h1⟩, rfl⟩, ver, rfl, uuid, ⟨_, ⟨_, h2, h3⟩, rfl⟩, fs, ⟨_, ⟨_, ⟨_, h4, h5⟩, cb, rfl, h6⟩, rfl⟩, entries, h7, h8⟩ := h
        cases h0; cases h2; cases h4; cases h8
        exact key (by rw [hrep]; trivial) root uuid ver cb fs entries h1 h3 (by rw [hver]; rfl) h5 h6 h7 rfl rfl rfl rfl
    | some x =>
      rw [hrep] at h
      cases hver : lookup (cp! "version") ms with
      | none =>
        rw [hver] at h
        simp only [bind_ok_iff, getKey_ok_iff, items_ok_iff, mapM_ok_iff, asStr_ok_iff, map_some_ok_iff] at h
        obtain ⟨root, ⟨_, ⟨_, h0, h1⟩, rfl⟩, _, ⟨rp, hrp, rfl⟩, uuid, ⟨_, ⟨_, h2, h3⟩, rfl⟩, fs, ⟨_, ⟨_, ⟨_, h4, h5⟩, cb, rfl, h6⟩, rfl⟩, entries, h7, h8⟩ := h
        cases h0; cases h2; cases h4; cases h8
        exact key (by rw [hrep]; exact readRepository_untyped x rp hrp) root uuid none cb fs entries h1 h3 (by rw [hver]; rfl) h5 h6 h7 rfl rfl rfl rfl
      | some vv =>
        rw [hver] at h
        simp only [bind_ok_iff, getKey_ok_iff, items_ok_iff, mapM_ok_iff, asStr_ok_iff, asOptStr_ok_iff, map_some_ok_iff] at h
        obtain ⟨root, ⟨_, ⟨_, h0, h1⟩, rfl⟩, _, ⟨rp, hrp, rfl⟩, ver, rfl, uuid, ⟨_, ⟨_, h2, h3⟩, rfl⟩, fs, ⟨_, ⟨_, ⟨_, h4, h5⟩, cb, rfl, h6⟩, rfl⟩, entries, h7, h8⟩ := h
        cases h0; cases h2; cases h4; cases h8
        exact key (by rw [hrep]; exact readRepository_untyped x rp hrp) root uuid ver cb fs entries h1 h3 (by rw [hver]; rfl) h5 h6 h7 rfl rfl rfl rfl
  | _ => simp [fromJson, getKey, bind, Except.bind] at h


/-! ## well-formedness is typability -/

theorem option_mapM_isSome {α β : Type} (f : α → Option β) (l : List α) :
    (l.mapM f).isSome = l.all fun x => (f x).isSome := by
  induction l with
  | nil => rfl
  | cons a t ih =>
    rw [List.mapM_cons, List.all_cons, ← ih]
    cases f a <;> cases List.mapM f t <;> rfl

theorem row?_isSome (k : Str) (f : UFile) : (f.row? k).isSome = f.wellFormed := by
  have hm : (f.measurements.mapM UMeas.typed?).isSome = f.measurements.all UMeas.wellFormed := by
    rw [option_mapM_isSome]
    congr 1
    funext m
    exact typed?_isSome m
  simp only [UFile.wellFormed, isInt_eq, isStr_eq, UFile.row?, ← hm]
  cases f.checksum.str? <;> cases f.language.str? <;> cases f.loc.num? <;>
    cases f.measurements.mapM UMeas.typed? <;> rfl

theorem rows?_isSome (r : UReport) : r.rows?.isSome = r.wellFormed := by
  unfold UReport.rows? UReport.wellFormed
  rw [option_mapM_isSome]
  congr 1
  funext kv
  exact row?_isSome kv.1 kv.2

theorem versionIs_iff (cur : Str) (v : JVal) : versionIs cur v = true ↔ versionTag v = some cur := by
  cases v <;> simp [versionIs, versionTag]


end CL.Json
