import CodeLimit.Lemmas.SelectScan
/-!
# `check_command` with the working directory at the root of the tree
-/
namespace CL.Sel

/-! ## path lookup in a well-formed tree -/

theorem getList_of_mem : ∀ {l : List Node}, wfDir l = true → ∀ {x : Node}, x ∈ l → ∀ (cs : List Str),
    getList l x.name cs = getNode x cs
  | [], _, x, hx, _ => by simp at hx
  | y :: r, h, x, hx, cs => by
    obtain ⟨_, h2, h3⟩ := wfDir_cons.1 h
    by_cases hn : y.name = x.name
    · have : y = x := wfDir_unique h (by simp) hx hn
      subst this
      simp [getList]
    · rcases List.mem_cons.1 hx with rfl | hx
      · exact absurd rfl hn
      · simp only [getList, hn, if_false]
        exact getList_of_mem h3 hx cs

theorem getNode_dir_cons (rn : Str) (ch : List Node) (c : Str) (cs : List Str) :
    getNode (.dir rn ch) (c :: cs) = getList ch c cs := by
  rw [getNode]

theorem getNode_nil (n : Node) : getNode n [] = some n := by
  cases n <;> rw [getNode]

theorem baseName_cons {d : Str} {p : List Str} (h : p ≠ []) : baseName (d :: p) = baseName p := by
  cases p with
  | nil => exact absurd rfl h
  | cons x r => simp [baseName]

/-- the path of a file of a well-formed tree resolves to that file -/
theorem getNode_fileAt {ch : List Node} {p : List Str} {c : Str} (h : FileAt ch p c) :
    ∀ (rn : Str), wfDir ch = true → getNode (.dir rn ch) p = some (.file (baseName p) c) := by
  induction h with
  | @here ch n c hm =>
    intro rn hwf
    have := getList_of_mem hwf hm []
    simp only [Node.name] at this
    rw [getNode_dir_cons, this, getNode_nil]
    simp [baseName]
  | @under ch sub d p c hm hf ih =>
    intro rn hwf
    have h1 := getList_of_mem hwf hm p
    simp only [Node.name] at h1
    have hsub := wfDir_mem hwf hm
    simp only [Node.wf, Bool.and_eq_true] at hsub
    rw [baseName_cons hf.ne_nil, getNode_dir_cons, h1]
    exact ih d hsub.2

theorem DirAt.wf {ch sub : List Node} {d : List Str} (h : DirAt ch d sub) :
    wfDir ch = true → wfDir sub = true := by
  induction h with
  | root => exact id
  | under hm _ ih =>
    intro hwf
    have hsub := wfDir_mem hwf hm
    simp only [Node.wf, Bool.and_eq_true] at hsub
    exact ih hsub.2

/-- the path of a directory of a well-formed tree resolves to that directory -/
theorem getNode_dirAt {ch sub : List Node} {d : List Str} (h : DirAt ch d sub) :
    ∀ (rn : Str), wfDir ch = true → ∃ n, getNode (.dir rn ch) d = some (.dir n sub) := by
  induction h with
  | root => intro rn _; exact ⟨rn, getNode_nil _⟩
  | @under ch sub sub' d p hm _ ih =>
    intro rn hwf
    have h1 := getList_of_mem hwf hm p
    simp only [Node.name] at h1
    have hsub := wfDir_mem hwf hm
    simp only [Node.wf, Bool.and_eq_true] at hsub
    rw [getNode_dir_cons, h1]
    exact ih d hsub.2

/-- a file below a directory of the tree is a file of the tree -/
theorem DirAt.fileAt {ch sub : List Node} {d : List Str} (h : DirAt ch d sub) {q : List Str} {c : Str}
    (hf : FileAt sub q c) : FileAt ch (d ++ q) c := by
  induction h with
  | root => simpa using hf
  | under hm _ ih => exact .under hm (ih hf)

theorem relTo_nil (p : List Str) : relTo [] p = some p := by cases p <;> rfl

/-! ## the loop of the directory branch -/

/-- `check_file` once the language is known -/
def checkOne (O : Oracles) (abs : Bool) (x : List Str × Nat × Str) (st : CheckSt) : CheckSt × Option Err :=
  match O.analyze x.2.1 (O.decode x.2.2) with
  | .error e => (⟨st.analysed ++ [⟨abs, x.1⟩], st.fileList⟩, some e)
  | .ok ms => (⟨st.analysed ++ [⟨abs, x.1⟩], st.fileList ++ [(⟨abs, x.1⟩, risksOf ms)]⟩, none)

/-- with the working directory at the root, the directory branch of `check_command` is one loop
over the candidates of the walk that pass the same two tests as in `scan_path` -/
theorem check_loops_flat (O : Oracles) (pre : List Str) (ch : List Node) (st : CheckSt) :
    forE (checkDirBody O []) (walkTop keepV pre ch) st =
      forE (checkOne O true) ((cands pre ch).filterMap (passes O)) st := by
  rw [forE_filterMap, cands, forE_flatMap]
  apply forE_congr
  intro step _ s
  simp only [checkDirBody, stepFiles, forE_map]
  apply forE_congr
  intro f _ s
  simp only [checkBody, relTo_nil, passes, baseName_append_singleton]
  by_cases hx : O.excluded (step.1 ++ [f.1]) = true
  · simp [hx]
  · simp only [hx, checkFile, List.getLastD_eq_getLast?, List.getLast?_append, List.getLast?_singleton]
    simp only [Option.some_or, Option.getD_some]
    rcases O.langOf f.1 with _ | l
    · simp
    · simp only [Option.map_some, Bool.false_eq_true, if_false, checkOne]
      rcases O.analyze l (O.decode f.2) with e | ms <;> simp

/-- checking the selected files one after the other -/
def runCheck (O : Oracles) (abs : Bool) : List (List Str × Nat × Str) →
    List CPath × Except Err (List (CPath × List Measurement))
  | [] => ([], .ok [])
  | x :: r =>
    match O.analyze x.2.1 (O.decode x.2.2) with
    | .error e => ([⟨abs, x.1⟩], .error e)
    | .ok ms =>
      (⟨abs, x.1⟩ :: (runCheck O abs r).1,
        match (runCheck O abs r).2 with
        | .ok fl => .ok ((⟨abs, x.1⟩, risksOf ms) :: fl)
        | .error e => .error e)

theorem check_run (O : Oracles) (abs : Bool) : ∀ (sel : List (List Str × Nat × Str)) (st : CheckSt),
    (forE (checkOne O abs) sel st).1.analysed = st.analysed ++ (runCheck O abs sel).1 ∧
    (match (runCheck O abs sel).2 with
     | .ok fl => (forE (checkOne O abs) sel st).2 = none ∧
        (forE (checkOne O abs) sel st).1.fileList = st.fileList ++ fl
     | .error e => (forE (checkOne O abs) sel st).2 = some e)
  | [], st => by simp [forE, runCheck]
  | x :: r, st => by
    rcases ha : O.analyze x.2.1 (O.decode x.2.2) with e | ms
    · simp [forE, runCheck, checkOne, ha]
    · have ih := check_run O abs r ⟨st.analysed ++ [⟨abs, x.1⟩], st.fileList ++ [(⟨abs, x.1⟩, risksOf ms)]⟩
      simp only [forE, checkOne, runCheck, ha]
      refine ⟨by simp [ih.1], ?_⟩
      have ih2 := ih.2
      rcases hr : (runCheck O abs r).2 with e | fl
      · simp only [hr] at ih2 ⊢; exact ih2
      · simp only [hr] at ih2 ⊢
        exact ⟨ih2.1, by rw [ih2.2]; simp⟩

/-- the outcome of `check_command` on one directory argument, working directory at the root -/
theorem checkCommand_dir (O : Oracles) (rn : Str) (ch sub : List Node) (d : List Str) (arg : CheckArg)
    (harg : arg = .relDir d ∨ arg = .absDir d) (hwf : wfDir ch = true) (hd : DirAt ch d sub) :
    checkPaths O (.dir rn ch) [] [arg] =
      ⟨(runCheck O true ((cands d sub).filterMap (passes O))).1,
       (runCheck O true ((cands d sub).filterMap (passes O))).2⟩ := by
  obtain ⟨n, hn⟩ := getNode_dirAt hd rn hwf
  have hbody : checkArgBody O (.dir rn ch) [] arg ⟨[], []⟩ =
      forE (checkOne O true) ((cands d sub).filterMap (passes O)) ⟨[], []⟩ := by
    rcases harg with rfl | rfl <;>
      simp only [checkArgBody, CheckArg.isAbs, CheckArg.comps, List.nil_append, hn, Bool.false_eq_true,
        if_false, if_true] <;>
      exact check_loops_flat O d sub _
  have hrun := check_run O true ((cands d sub).filterMap (passes O)) ⟨[], []⟩
  simp only [checkPaths, forE, hbody]
  generalize forE (checkOne O true) ((cands d sub).filterMap (passes O)) ⟨[], []⟩ = out at hrun
  obtain ⟨st, err⟩ := out
  simp only [List.nil_append] at hrun
  rcases hr : (runCheck O true ((cands d sub).filterMap (passes O))).2 with e | fl
  · simp only [hr] at hrun
    obtain ⟨h1, h2⟩ := hrun
    subst h2
    simp [h1]
  · simp only [hr] at hrun
    obtain ⟨h1, h2, h3⟩ := hrun
    subst h2
    simp [h1, h3]

/-! ## what the sequential check returns -/

/-- `check_file` on one item of a selection: the path and its risks, or the exception -/
def checkItem (O : Oracles) (abs : Bool) (x : List Str × Nat × Str) : Except Err (CPath × List Measurement) :=
  match O.analyze x.2.1 (O.decode x.2.2) with
  | .error e => .error e
  | .ok ms => .ok (⟨abs, x.1⟩, risksOf ms)

theorem runCheck_ok {O : Oracles} {abs : Bool} : ∀ {sel : List (List Str × Nat × Str)}
    {fl : List (CPath × List Measurement)}, (runCheck O abs sel).2 = .ok fl →
      (runCheck O abs sel).1 = sel.map (fun x => ⟨abs, x.1⟩) ∧
      sel.map (checkItem O abs) = fl.map Except.ok
  | [], fl, h => by simp [runCheck] at h; subst h; simp [runCheck]
  | x :: r, fl, h => by
    simp only [runCheck] at h ⊢
    rcases ha : O.analyze x.2.1 (O.decode x.2.2) with e | ms
    · simp [ha] at h
    · simp only [ha] at h ⊢
      rcases hr : (runCheck O abs r).2 with e | fl'
      · simp [hr] at h
      · simp only [hr, Except.ok.injEq] at h
        subst h
        obtain ⟨h1, h2⟩ := runCheck_ok hr
        exact ⟨by simp [h1], by simp [h2, ha, checkItem]⟩

theorem runCheck_error {O : Oracles} {abs : Bool} : ∀ {sel : List (List Str × Nat × Str)} {e : Err},
    (runCheck O abs sel).2 = .error e → ∃ x ∈ sel, O.analyze x.2.1 (O.decode x.2.2) = .error e
  | [], e, h => by simp [runCheck] at h
  | x :: r, e, h => by
    simp only [runCheck] at h
    rcases ha : O.analyze x.2.1 (O.decode x.2.2) with e' | ms
    · simp only [ha, Except.error.injEq] at h
      exact ⟨x, by simp, h ▸ ha⟩
    · simp only [ha] at h
      rcases hr : (runCheck O abs r).2 with e' | fl'
      · simp only [hr, Except.error.injEq] at h
        obtain ⟨y, hy, hy2⟩ := runCheck_error hr
        exact ⟨y, List.mem_cons_of_mem _ hy, h ▸ hy2⟩
      · simp [hr] at h

theorem runCheck_analysed_subset (O : Oracles) (abs : Bool) : ∀ (sel : List (List Str × Nat × Str)),
    ∀ cp ∈ (runCheck O abs sel).1, ∃ x ∈ sel, cp = ⟨abs, x.1⟩
  | [], cp, h => by simp [runCheck] at h
  | x :: r, cp, h => by
    simp only [runCheck] at h
    rcases ha : O.analyze x.2.1 (O.decode x.2.2) with e' | ms
    · simp only [ha, List.mem_singleton] at h
      exact ⟨x, by simp, h⟩
    · simp only [ha, List.mem_cons] at h
      rcases h with h | h
      · exact ⟨x, by simp, h⟩
      · obtain ⟨y, hy, hy2⟩ := runCheck_analysed_subset O abs r cp h
        exact ⟨y, List.mem_cons_of_mem _ hy, hy2⟩

/-- same selection, same analyses: the check of a list of files and the scan of the same list
agree entry by entry (paths printed, risks computed from the scan's measurements) -/
theorem runCheck_vs_runSel (O : Oracles) (abs : Bool) : ∀ (sel : List (List Str × Nat × Str)),
    (runCheck O abs sel).1.map (fun p => joinPath p.comps) = (runSel O sel).1 ∧
    (match (runSel O sel).2 with
     | .ok es => ∃ fl, (runCheck O abs sel).2 = .ok fl ∧
         fl.map (fun pr => (joinPath pr.1.comps, pr.2)) = es.map (fun e => (e.path, risksOf e.ms)) ∧
         fl.map (·.1) = sel.map (fun x => ⟨abs, x.1⟩)
     | .error e => (runCheck O abs sel).2 = .error e)
  | [] => by simp [runCheck, runSel]
  | x :: r => by
    obtain ⟨ih1, ih2⟩ := runCheck_vs_runSel O abs r
    simp only [runCheck, runSel]
    rcases ha : O.analyze x.2.1 (O.decode x.2.2) with e | ms
    · simp [keyOf]
    · simp only [List.map_cons, ih1, keyOf, true_and]
      rcases hr : (runSel O r).2 with e | es
      · simp only [hr] at ih2 ⊢
        simp [ih2]
      · simp only [hr] at ih2 ⊢
        obtain ⟨fl, h1, h2, h3⟩ := ih2
        exact ⟨(⟨abs, x.1⟩, risksOf ms) :: fl, by simp [h1], by simp [h2, entryOf], by simp [h3]⟩

theorem runCheck_total {O : Oracles} {abs : Bool} {sel : List (List Str × Nat × Str)}
    (h : ∀ x ∈ sel, ∃ ms, O.analyze x.2.1 (O.decode x.2.2) = .ok ms) :
    ∃ fl, (runCheck O abs sel).2 = .ok fl := by
  rcases hr : (runCheck O abs sel).2 with e | fl
  · obtain ⟨x, hx, he⟩ := runCheck_error hr
    obtain ⟨ms, hms⟩ := h x hx
    rw [hms] at he
    cases he
  · exact ⟨fl, rfl⟩

theorem mem_of_map_checkItem {O : Oracles} {abs : Bool} {sel : List (List Str × Nat × Str)}
    {fl : List (CPath × List Measurement)} (h : sel.map (checkItem O abs) = fl.map Except.ok)
    (pr : CPath × List Measurement) :
    pr ∈ fl ↔ ∃ x ∈ sel, ∃ ms, O.analyze x.2.1 (O.decode x.2.2) = .ok ms ∧ pr = (⟨abs, x.1⟩, risksOf ms) := by
  have : (Except.ok pr : Except Err (CPath × List Measurement)) ∈ fl.map Except.ok ↔ pr ∈ fl := by simp
  rw [← this, ← h, List.mem_map]
  constructor
  · rintro ⟨x, hx, he⟩
    refine ⟨x, hx, ?_⟩
    simp only [checkItem] at he
    rcases ha : O.analyze x.2.1 (O.decode x.2.2) with e | ms
    · simp [ha] at he
    · simp only [ha, Except.ok.injEq] at he
      exact ⟨ms, rfl, he.symm⟩
  · rintro ⟨x, hx, ms, hms, rfl⟩
    exact ⟨x, hx, by simp [checkItem, hms]⟩

/-- a directory of a well-formed tree is not a file -/
theorem DirAt.not_fileAt {ch sub : List Node} {d : List Str} (h : DirAt ch d sub) {c : Str} :
    wfDir ch = true → ¬ FileAt ch d c := by
  induction h with
  | root => intro _ hf; exact hf.ne_nil rfl
  | @under ch sub sub' x p hm hd ih =>
    intro hwf hf
    have hsub := wfDir_mem hwf hm
    simp only [Node.wf, Bool.and_eq_true] at hsub
    cases hf with
    | here hm' => exact absurd (wfDir_unique hwf hm hm' rfl) (by simp)
    | under hm' hf' =>
      have := wfDir_unique hwf hm hm' rfl
      simp only [Node.dir.injEq, true_and] at this
      subst this
      exact ih hsub.2 hf'

/-- a file of the tree whose path continues the path of a directory lies in that directory -/
theorem DirAt.fileAt_inv {ch sub : List Node} {d : List Str} (h : DirAt ch d sub) {q : List Str} {c : Str} :
    wfDir ch = true → FileAt ch (d ++ q) c → FileAt sub q c := by
  induction h with
  | root => intro _ hf; simpa using hf
  | @under ch sub sub' x p hm hd ih =>
    intro hwf hf
    have hsub := wfDir_mem hwf hm
    simp only [Node.wf, Bool.and_eq_true] at hsub
    rcases fileAt_iff.1 hf with ⟨n, hp, hm'⟩ | ⟨d', sub1, r, hp, hm', hf'⟩
    · simp only [List.cons_append, List.cons.injEq] at hp
      obtain ⟨rfl, _⟩ := hp
      exact absurd (wfDir_unique hwf hm hm' rfl) (by simp)
    · simp only [List.cons_append, List.cons.injEq] at hp
      obtain ⟨rfl, rfl⟩ := hp
      have := wfDir_unique hwf hm hm' rfl
      simp only [Node.dir.injEq, true_and] at this
      subst this
      exact ih hsub.2 hf'

theorem mem_dir_selection {O : Oracles} {d : List Str} {sub : List Node} {p : List Str} {c : Str} {lang : Nat} :
    (p, lang, c) ∈ (cands d sub).filterMap (passes O) ↔ ReachedThrough O d sub p c lang := by
  simp only [mem_passes, mem_cands, ReachedThrough]
  constructor
  · rintro ⟨⟨q, rfl, h1, h2⟩, h3, h4⟩; exact ⟨q, rfl, h1, h2, h3, h4⟩
  · rintro ⟨q, rfl, h1, h2, h3, h4⟩; exact ⟨⟨q, rfl, h1, h2⟩, h3, h4⟩

/-! ## `risks` -/

theorem check_lists_iff (m : Measurement) :
    decide (Gen.Logic.check_lists (m.len : Int)) = true ↔ 30 < m.len := by
  simp only [Gen.Logic.check_lists, decide_eq_true_eq]
  omega

theorem mem_risksOf {ms : List Measurement} {m : Measurement} :
    m ∈ risksOf ms ↔ m ∈ ms ∧ 30 < m.len := by
  simp only [risksOf, (List.mergeSort_perm _ _).mem_iff, List.mem_filter, check_lists_iff]

end CL.Sel
