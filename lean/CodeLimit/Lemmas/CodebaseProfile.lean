import CodeLimit.Spec.Codebase
/-!
# Profiles: `merge_profiles` is a commutative monoid, `make_profile` / `make_count_profile`
-/
namespace CL.Codebase

open Gen.Logic

@[ext] theorem Profile.ext' {a b : Profile} (h0 : a.p0 = b.p0) (h1 : a.p1 = b.p1) (h2 : a.p2 = b.p2)
    (h3 : a.p3 = b.p3) : a = b := by
  cases a; cases b; simp_all

theorem merge_zero (a : Profile) : mergeProfiles a Profile.zero = a := by
  ext <;> simp [mergeProfiles, Profile.zero]

theorem zero_merge (a : Profile) : mergeProfiles Profile.zero a = a := by
  ext <;> simp [mergeProfiles, Profile.zero]

theorem merge_comm (a b : Profile) : mergeProfiles a b = mergeProfiles b a := by
  ext <;> simp [mergeProfiles] <;> omega

theorem merge_assoc (a b c : Profile) :
    mergeProfiles (mergeProfiles a b) c = mergeProfiles a (mergeProfiles b c) := by
  ext <;> simp [mergeProfiles] <;> omega

theorem psum_append (l1 l2 : List Profile) : psum (l1 ++ l2) = mergeProfiles (psum l1) (psum l2) := by
  induction l1 with
  | nil => simp [psum, zero_merge]
  | cons a t ih => simp [psum, ih, merge_assoc]

theorem psum_singleton (a : Profile) : psum [a] = a := by simp [psum, merge_zero]

theorem psum_map_merge {α : Type} (l : List α) (f g : α → Profile) :
    psum (l.map fun x => mergeProfiles (f x) (g x)) = mergeProfiles (psum (l.map f)) (psum (l.map g)) := by
  induction l with
  | nil => simp [psum, merge_zero]
  | cons a t ih =>
    simp only [List.map_cons, psum, ih]
    ext <;> simp [mergeProfiles] <;> omega

theorem psum_map_zero {α : Type} (l : List α) : psum (l.map fun _ => Profile.zero) = Profile.zero := by
  induction l with
  | nil => rfl
  | cons a t ih => simp [psum, ih, merge_zero]

/-- in a duplicate-free list, a sum that is `x` at `a` and zero elsewhere is `x` -/
theorem psum_map_single {α : Type} [DecidableEq α] (l : List α) (hl : l.Nodup) (a : α) (ha : a ∈ l)
    (x : Profile) : psum (l.map fun b => if b = a then x else Profile.zero) = x := by
  induction l with
  | nil => cases ha
  | cons c t ih =>
    simp only [List.nodup_cons] at hl
    simp only [List.map_cons, psum]
    by_cases hc : c = a
    · subst hc
      have : t.map (fun b => if b = c then x else Profile.zero) = t.map (fun _ => Profile.zero) := by
        apply List.map_congr_left
        intro b hb
        have : b ≠ c := fun e => hl.1 (e ▸ hb)
        simp [this]
      rw [this, psum_map_zero]; simp [merge_zero]
    · have : a ∈ t := by
        rcases List.mem_cons.mp ha with e | h
        · exact absurd e.symm hc
        · exact h
      rw [ih hl.2 this]; simp [hc, zero_merge]

theorem get_addAt (p : Profile) (b : Nat) (v : Int) (i : Nat) (hi : i < 4) :
    (p.addAt b v).get i = p.get i + if b = i then v else 0 := by
  have : i = 0 ∨ i = 1 ∨ i = 2 ∨ i = 3 := by omega
  rcases this with rfl | rfl | rfl | rfl <;>
    (unfold Profile.addAt; split <;> simp_all [Profile.get]) <;> omega

theorem get_zero (i : Nat) : Profile.zero.get i = 0 := by
  unfold Profile.get Profile.zero; split <;> rfl

theorem foldl_profile_get (ms : List Int) (acc : Profile) (i : Nat) (hi : i < 4) :
    (ms.foldl (fun r v => r.addAt (make_profile_bucket v) v) acc).get i = acc.get i + bucketSum i ms := by
  induction ms generalizing acc with
  | nil => simp [bucketSum]
  | cons v t ih =>
    simp only [List.foldl_cons, ih, get_addAt _ _ _ _ hi, bucketSum, List.filter_cons]
    by_cases h : make_profile_bucket v = i <;> simp [h] <;> omega

theorem foldl_count_get (ms : List Int) (acc : Profile) (i : Nat) (hi : i < 4) :
    (ms.foldl (fun r v => r.addAt (make_count_profile_bucket v) 1) acc).get i = acc.get i + bucketCount i ms := by
  induction ms generalizing acc with
  | nil => simp [bucketCount]
  | cons v t ih =>
    simp only [List.foldl_cons, ih, get_addAt _ _ _ _ hi, bucketCount, List.filter_cons]
    by_cases h : make_count_profile_bucket v = i <;> simp [h] <;> omega

/-- `make_profile(ms)[i]` is the sum of the lengths in bucket `i` -/
theorem makeProfile_get (ms : List Int) (i : Nat) (hi : i < 4) : (makeProfile ms).get i = bucketSum i ms := by
  simp [makeProfile, foldl_profile_get _ _ _ hi, get_zero]

/-- `make_count_profile(ms)[i]` is the number of lengths in bucket `i` -/
theorem makeCountProfile_get (ms : List Int) (i : Nat) (hi : i < 4) :
    (makeCountProfile ms).get i = bucketCount i ms := by
  simp [makeCountProfile, foldl_count_get _ _ _ hi, get_zero]

theorem bucket_lt (v : Int) : make_profile_bucket v < 4 := by
  unfold make_profile_bucket; grind

/-- every length lands in exactly one of the four buckets -/
theorem bucketSum_total (ms : List Int) :
    bucketSum 0 ms + bucketSum 1 ms + bucketSum 2 ms + bucketSum 3 ms = ms.sum := by
  induction ms with
  | nil => simp [bucketSum]
  | cons v t ih =>
    have hb := bucket_lt v
    have : make_profile_bucket v = 0 ∨ make_profile_bucket v = 1 ∨ make_profile_bucket v = 2 ∨
        make_profile_bucket v = 3 := by omega
    simp only [bucketSum, List.filter_cons, List.sum_cons] at ih ⊢
    rcases this with h | h | h | h <;> simp [h] <;> omega

theorem profile_eq_of_get {a b : Profile} (h : ∀ i, i < 4 → a.get i = b.get i) : a = b := by
  ext
  · exact h 0 (by omega)
  · exact h 1 (by omega)
  · exact h 2 (by omega)
  · exact h 3 (by omega)

theorem get_merge (a b : Profile) (i : Nat) : (mergeProfiles a b).get i = a.get i + b.get i := by
  unfold Profile.get mergeProfiles; split <;> simp

theorem bucketSum_append (i : Nat) (l1 l2 : List Int) :
    bucketSum i (l1 ++ l2) = bucketSum i l1 + bucketSum i l2 := by
  simp [bucketSum, List.filter_append, List.sum_append]

theorem makeProfile_append (l1 l2 : List Int) :
    makeProfile (l1 ++ l2) = mergeProfiles (makeProfile l1) (makeProfile l2) := by
  apply profile_eq_of_get
  intro i hi
  rw [get_merge, makeProfile_get _ _ hi, makeProfile_get _ _ hi, makeProfile_get _ _ hi, bucketSum_append]

/-- `make_profile` of a concatenation of measurement lists is the sum of the profiles -/
theorem makeProfile_flatMap {α : Type} (l : List α) (f : α → List Int) :
    makeProfile (l.flatMap f) = psum (l.map fun x => makeProfile (f x)) := by
  induction l with
  | nil => rfl
  | cons a t ih => simp [List.flatMap_cons, makeProfile_append, ih, psum]

end CL.Codebase
