import CodeLimit.Lemmas.ProgTreeLocate
/-!
# Program trees: well-formedness does not depend on the locations

`wfCore`, `noAdj` and `allCode` of a located forest `locate s p` are those of the forest `p`
itself (tokens without locations, viewed at a dummy location: `Prog.bare`).
-/
namespace CL

/-- same kind and text -/
def Tok.Same (a b : Tok) : Prop := a.kind = b.kind ∧ a.val = b.val

theorem Tok.Same.isSymbol {a b : Tok} (h : Tok.Same a b) (s : Str) : a.isSymbol s = b.isSymbol s := by
  unfold Tok.isSymbol; rw [h.1, h.2]

theorem Tok.Same.noBrace {a b : Tok} (h : Tok.Same a b) : a.noBrace = b.noBrace := by
  unfold Tok.noBrace; rw [h.isSymbol, h.isSymbol]

theorem Tok.Same.isName {a b : Tok} (h : Tok.Same a b) : a.isName = b.isName := by
  unfold Tok.isName; rw [h.1]

theorem Tok.Same.isCode {a b : Tok} (h : Tok.Same a b) : a.isCode = b.isCode := by
  unfold Tok.isCode Tok.isWhitespace Tok.isComment; rw [h.1, h.2]

theorem same_put (s : Nat × Nat) (t : PTok) : Tok.Same (t.put s) t.bare := by
  unfold PTok.put PTok.bare Tok.Same
  split <;> exact ⟨rfl, rfl⟩

theorem place_all {P : Tok → Bool} (hP : ∀ a b, Tok.Same a b → P a = P b) :
    ∀ (l : List PTok) (s : Nat × Nat), (place s l).all P = (l.map PTok.bare).all P
  | [], _ => rfl
  | t :: l, s => by
    simp only [place, List.map_cons, List.all_cons, place_all hP l, hP _ _ (same_put s t)]

theorem place_getD {P : Tok → Bool} (hP : ∀ a b, Tok.Same a b → P a = P b) :
    ∀ (l : List PTok) (s : Nat × Nat) (k : Nat),
      P ((place s l).getD k default) = P ((l.map PTok.bare).getD k default)
  | [], _, _ => rfl
  | t :: l, s, 0 => by
    simp only [place, List.map_cons, List.getD_cons_zero]
    exact hP _ _ (same_put s t)
  | t :: l, s, k + 1 => by
    simp only [place, List.map_cons, List.getD_cons_succ]
    exact place_getD hP l _ k

theorem flat_map {α β : Type} (f : α → β) : ∀ (p : Prog α), (p.map f).flat = p.flat.map f
  | .nil => rfl
  | .leaf t rest => by simp only [Prog.map, Prog.flat, List.map_cons, flat_map f rest]
  | .group op cl items rest => by
    simp only [Prog.map, Prog.flat, List.map_cons, List.map_append, flat_map f items,
      flat_map f rest]
  | .fn hdr k gap op cl body rest => by
    simp only [Prog.map, Prog.flat, List.map_cons, List.map_append, flat_map f hdr,
      flat_map f body, flat_map f rest]

theorem size_map {α β : Type} (f : α → β) : ∀ (p : Prog α), (p.map f).size = p.size
  | .nil => rfl
  | .leaf t rest => by simp only [Prog.map, Prog.size, size_map f rest]
  | .group op cl items rest => by simp only [Prog.map, Prog.size, size_map f items, size_map f rest]
  | .fn hdr k gap op cl body rest => by
    simp only [Prog.map, Prog.size, size_map f hdr, size_map f body, size_map f rest,
      List.length_map]

theorem size_locate : ∀ (p : Prog PTok) (s : Nat × Nat), (locate s p).size = p.size
  | .nil, _ => rfl
  | .leaf t rest, s => by simp only [locate, Prog.size, size_locate rest]
  | .group op cl items rest, s => by simp only [locate, Prog.size, size_locate items, size_locate rest]
  | .fn hdr k gap op cl body rest, s => by
    simp only [locate, Prog.size, size_locate hdr, size_locate body, size_locate rest,
      length_place]

theorem noFn_map {α β : Type} (f : α → β) : ∀ (p : Prog α), (p.map f).noFn = p.noFn
  | .nil => rfl
  | .leaf t rest => by simp only [Prog.map, Prog.noFn, noFn_map f rest]
  | .group op cl items rest => by simp only [Prog.map, Prog.noFn, noFn_map f items, noFn_map f rest]
  | .fn .. => rfl

theorem noFn_locate : ∀ (p : Prog PTok) (s : Nat × Nat), (locate s p).noFn = p.noFn
  | .nil, _ => rfl
  | .leaf t rest, s => by simp only [locate, Prog.noFn, noFn_locate rest]
  | .group op cl items rest, s => by simp only [locate, Prog.noFn, noFn_locate items, noFn_locate rest]
  | .fn .., _ => rfl

theorem startsWithLeaf_map {α β : Type} (f : α → β) (p : Prog α) :
    (p.map f).startsWithLeaf = p.startsWithLeaf := by cases p <;> rfl

theorem startsWithLeaf_locate (p : Prog PTok) (s : Nat × Nat) :
    (locate s p).startsWithLeaf = p.startsWithLeaf := by cases p <;> rfl

theorem startsWithGroup_locate (p : Prog PTok) (s : Nat × Nat) :
    (locate s p).startsWithGroup = p.startsWithGroup := by cases p <;> rfl

/-- the canonical-fragment restriction does not depend on the locations -/
theorem noAdj_locate : ∀ (p : Prog PTok) (s : Nat × Nat), (locate s p).noAdj = p.noAdj
  | .nil, _ => rfl
  | .leaf t rest, s => by simp only [locate, Prog.noAdj, noAdj_locate rest]
  | .group op cl items rest, s => by
    simp only [locate, Prog.noAdj, noAdj_locate items, noAdj_locate rest]
  | .fn hdr k gap op cl body rest, s => by
    simp only [locate, Prog.noAdj, noAdj_locate hdr, noAdj_locate body, noAdj_locate rest,
      startsWithGroup_locate]

/-- structural well-formedness does not depend on the locations -/
theorem wfCore_locate : ∀ (p : Prog PTok) (s : Nat × Nat), (locate s p).wfCore = p.bare.wfCore
  | .nil, _ => rfl
  | .leaf t rest, s => by
    simp only [Prog.bare, locate, Prog.map, Prog.wfCore, (same_put s t).noBrace]
    rw [wfCore_locate rest]; rfl
  | .group op cl items rest, s => by
    simp only [Prog.bare, locate, Prog.map, Prog.wfCore, (same_put _ op).isSymbol,
      (same_put _ cl).isSymbol]
    rw [wfCore_locate items, wfCore_locate rest]; rfl
  | .fn hdr k gap op cl body rest, s => by
    simp only [Prog.bare, locate, Prog.map, Prog.wfCore, (same_put _ op).isSymbol,
      (same_put _ cl).isSymbol, startsWithLeaf_locate, startsWithLeaf_map, noFn_locate, noFn_map,
      size_locate, size_map, flat_locate, flat_map,
      place_getD (P := Tok.isName) (fun _ _ h => h.isName),
      place_all (P := Tok.noBrace) (fun _ _ h => h.noBrace)]
    rw [wfCore_locate hdr, wfCore_locate body, wfCore_locate rest]; rfl

/-- being code tokens does not depend on the locations -/
theorem allCode_locate (p : Prog PTok) (s : Nat × Nat) : (locate s p).allCode = p.bare.allCode := by
  unfold Prog.allCode Prog.bare
  rw [flat_locate, flat_map]
  exact place_all (fun _ _ h => h.isCode) _ _

end CL
