import CodeLimit.Spec.Gitignore
/-!
# Helper lemmas for `Spec/Gitignore.lean` (used by `Props/C11pat.lean`)
-/
namespace CL.Gi

/-! ## segments against components -/

theorem lit_matches {x c : Str} : (Seg.lit x).matches c = true ↔ c = x := by
  simp [Seg.matches]

theorem suffix_matches {e c : Str} : (Seg.suffix e).matches c = true ↔ e <:+ c := by
  simp [Seg.matches]

theorem any_matches {c : Str} : Seg.any.matches c = true ↔ c ≠ [] := by
  cases c <;> simp [Seg.matches]

/-- plain names from the start of the path: the names are a prefix of the components -/
theorem matchFrom_lits : ∀ (ps : List Str) (p : Path),
    matchFrom false (ps.map .lit) p = true ↔ ps <+: p
  | [], p => by simp [matchFrom]
  | x :: ps, [] => by simp [matchFrom]
  | x :: ps, c :: cs => by
    simp only [List.map_cons, matchFrom, Bool.and_eq_true, lit_matches, matchFrom_lits ps cs,
      List.cons_prefix_cons]
    constructor
    · rintro ⟨rfl, h⟩; exact ⟨rfl, h⟩
    · rintro ⟨rfl, h⟩; exact ⟨rfl, h⟩

/-- one floating segment, anything may follow: some component matches -/
theorem matchAny_single (s : Seg) : ∀ (p : Path),
    matchAny false [s] p = true ↔ ∃ c ∈ p, s.matches c = true
  | [] => by simp [matchAny, matchFrom]
  | c :: cs => by
    simp only [matchAny, matchFrom, Bool.or_eq_true, Bool.and_eq_true, matchAny_single s cs,
      List.mem_cons, exists_eq_or_imp]
    simp

/-- one floating segment, something must follow: some component other than the last matches -/
theorem matchAny_single_dir (s : Seg) : ∀ (p : Path),
    matchAny true [s] p = true ↔ ∃ c ∈ p.dropLast, s.matches c = true
  | [] => by simp [matchAny, matchFrom]
  | [c] => by simp [matchAny, matchFrom]
  | c :: d :: cs => by
    have ih := matchAny_single_dir s (d :: cs)
    simp only [matchAny, matchFrom, Bool.or_eq_true, Bool.and_eq_true, List.dropLast_cons_cons,
      List.mem_cons, exists_eq_or_imp] at ih ⊢
    rw [ih]
    simp

/-- the tail rules let anything follow a match -/
theorem matchFrom_append (d : Bool) : ∀ (segs : List Seg) (p r : Path),
    matchFrom d segs p = true → matchFrom d segs (p ++ r) = true
  | [], p, r => by
    cases d <;> simp [matchFrom]
    intro h; simp [h]
  | _ :: _, [], r => by simp [matchFrom]
  | s :: ss, c :: cs, r => by
    simp only [List.cons_append, matchFrom, Bool.and_eq_true]
    exact fun ⟨h1, h2⟩ => ⟨h1, matchFrom_append d ss cs r h2⟩

theorem matchAny_append (d : Bool) (segs : List Seg) : ∀ (p r : Path),
    matchAny d segs p = true → matchAny d segs (p ++ r) = true
  | [], r => by
    intro h
    have h' := matchFrom_append d segs [] r h
    simp only [List.nil_append] at h' ⊢
    cases r with
    | nil => exact h
    | cons x xs => simp [matchAny, h']
  | c :: cs, r => by
    simp only [List.cons_append, matchAny, Bool.or_eq_true]
    rintro (h | h)
    · exact .inl (matchFrom_append d segs (c :: cs) r h)
    · exact .inr (matchAny_append d segs cs r h)

/-- a floating line that matches a path matches every path that ends in it -/
theorem matchAny_prepend (d : Bool) (segs : List Seg) : ∀ (q p : Path),
    matchAny d segs p = true → matchAny d segs (q ++ p) = true
  | [], p => by simp
  | c :: cs, p => by
    intro h
    simp only [List.cons_append, matchAny, Bool.or_eq_true]
    exact .inr (matchAny_prepend d segs cs p h)

/-! ## the pattern list -/

theorem excludedBy_iff {pats : List Pat} {p : Path} :
    excludedBy pats p = true ↔ ∃ q ∈ pats, q.matches p = true := by
  simp [excludedBy]

theorem excludedBy_false_iff {pats : List Pat} {p : Path} :
    excludedBy pats p = false ↔ ∀ q ∈ pats, q.matches p = false := by
  simp [excludedBy]

theorem excludedBy_append {a b : List Pat} {p : Path} :
    excludedBy (a ++ b) p = (excludedBy a p || excludedBy b p) := by
  simp [excludedBy]

/-- a list of bare names: some component is one of the names -/
theorem excludedBy_names {xs : List Str} {p : Path} :
    excludedBy (xs.map .name) p = true ↔ ∃ c ∈ p, c ∈ xs := by
  simp only [excludedBy_iff, List.mem_map]
  constructor
  · rintro ⟨_, ⟨x, hx, rfl⟩, h⟩
    simp only [Pat.matches, Pat.norm, Norm.matches, if_true] at h
    obtain ⟨c, hc, hm⟩ := (matchAny_single _ p).1 h
    exact ⟨c, hc, lit_matches.1 hm ▸ hx⟩
  · rintro ⟨c, hc, hx⟩
    refine ⟨.name c, ⟨c, hx, rfl⟩, ?_⟩
    simp only [Pat.matches, Pat.norm, Norm.matches, if_true]
    exact (matchAny_single _ p).2 ⟨c, hc, lit_matches.2 rfl⟩

theorem filterMap_congr_mem {α β : Type} {f g : α → Option β} : ∀ {l : List α},
    (∀ x ∈ l, f x = g x) → l.filterMap f = l.filterMap g
  | [], _ => rfl
  | a :: l, h => by
    simp only [List.filterMap_cons, h a (by simp),
      filterMap_congr_mem (l := l) (fun x hx => h x (List.mem_cons_of_mem _ hx))]

/-! ## split and join -/

theorem splitSlash_ne_nil : ∀ (s : Str), splitSlash s ≠ []
  | [] => by simp [splitSlash]
  | c :: r => by
    unfold splitSlash
    split
    · simp
    · split <;> simp

/-- joining what was split gives the text back -/
theorem joinSlash_splitSlash : ∀ (s : Str), joinSlash (splitSlash s) = s
  | [] => by simp [splitSlash, joinSlash]
  | c :: r => by
    have ih := joinSlash_splitSlash r
    have hne := splitSlash_ne_nil r
    unfold splitSlash
    by_cases hc : c = 47
    · subst hc
      simp only [if_true]
      rcases hs : splitSlash r with _ | ⟨s, ss⟩
      · exact absurd hs hne
      · rw [hs] at ih
        simp [joinSlash, ih]
    · simp only [hc, if_false]
      rcases hs : splitSlash r with _ | ⟨s, ss⟩
      · exact absurd hs hne
      · rw [hs] at ih
        simp only []
        cases ss with
        | nil => simp only [joinSlash] at ih ⊢; rw [ih]
        | cons t tt => simp only [joinSlash, List.cons_append] at ih ⊢; rw [ih]

theorem splitSlash_slash (t : Str) : splitSlash (47 :: t) = [] :: splitSlash t := by
  rw [splitSlash]; simp

theorem splitSlash_noSlash : ∀ (s : Str), 47 ∉ s → splitSlash s = [s]
  | [], _ => rfl
  | c :: r, h => by
    simp only [List.mem_cons, not_or] at h
    have hc : c ≠ 47 := fun e => h.1 e.symm
    unfold splitSlash
    simp [hc, splitSlash_noSlash r h.2]

theorem splitSlash_append_slash : ∀ (s t : Str), 47 ∉ s → splitSlash (s ++ 47 :: t) = s :: splitSlash t
  | [], t, _ => splitSlash_slash t
  | c :: r, t, h => by
    simp only [List.mem_cons, not_or] at h
    have hc : c ≠ 47 := fun e => h.1 e.symm
    simp only [List.cons_append]
    rw [splitSlash]
    simp [hc, splitSlash_append_slash r t h.2]

/-- splitting what was joined gives the segments back (segments without `/`, at least one) -/
theorem splitSlash_joinSlash : ∀ (ps : List Str), ps ≠ [] → (∀ x ∈ ps, 47 ∉ x) →
    splitSlash (joinSlash ps) = ps
  | [], h, _ => absurd rfl h
  | [s], _, hs => by simpa [joinSlash] using splitSlash_noSlash s (hs s (by simp))
  | s :: t :: r, _, hs => by
    have := splitSlash_joinSlash (t :: r) (by simp) (fun x hx => hs x (List.mem_cons_of_mem _ hx))
    show splitSlash (s ++ 47 :: joinSlash (t :: r)) = _
    rw [splitSlash_append_slash s _ (hs s (by simp)), this]

theorem plainChar_not_slash {c : Nat} (h : plainChar c = true) : c ≠ 47 := by
  intro e; subst e; simp [plainChar] at h

theorem plainChar_not_star {c : Nat} (h : plainChar c = true) : c ≠ 42 := by
  intro e; subst e; simp [plainChar] at h

theorem plainName_noSlash {x : Str} (h : plainName x = true) : 47 ∉ x := by
  simp only [plainName, Bool.and_eq_true, List.all_eq_true] at h
  exact fun hm => plainChar_not_slash (h.1.1.2 47 hm) rfl

theorem plainName_ne_nil {x : Str} (h : plainName x = true) : x ≠ [] := by
  intro e; subst e; simp [plainName] at h

theorem plainName_noStar {x : Str} (h : plainName x = true) : 42 ∉ x := by
  simp only [plainName, Bool.and_eq_true, List.all_eq_true] at h
  exact fun hm => plainChar_not_star (h.1.1.2 42 hm) rfl

theorem isExt_noSlash {e : Str} (h : isExt e = true) : 47 ∉ e := by
  unfold isExt at h
  split at h
  · rename_i r
    simp only [List.all_eq_true] at h
    simp only [List.mem_cons, not_or]
    exact ⟨by decide, fun hm => plainChar_not_slash (h 47 hm) rfl⟩
  · cases h

theorem isExt_not_plainName {e : Str} : plainName (42 :: e) = false := by
  simp [plainName, plainChar]

/-! ## `parse` -/

theorem plainName_star : plainName [42] = false := by decide

/-- what `classify` answers is written as the segments say, with names as its class demands -/
theorem classify_some {segs : List Str} {q : Pat} (h : classify segs = some q) :
    q.wfNames = true ∧ q.text = joinSlash segs := by
  unfold classify at h
  split at h
  · cases h
  · rename_i x
    split at h
    · rename_i hp
      cases h
      exact ⟨hp, rfl⟩
    · split at h
      · rename_i e
        split at h
        · rename_i he
          cases h
          exact ⟨he, rfl⟩
        · cases h
      · cases h
  · rename_i x y r
    split at h
    · rename_i hx
      subst hx
      split at h
      · rename_i hp
        cases h
        exact ⟨by simpa [Pat.wfNames] using hp, by simp [Pat.text, joinSlash]⟩
      · cases h
    · split at h
      · rename_i hry
        obtain ⟨rfl, rfl⟩ := hry
        split at h
        · rename_i hp
          cases h
          exact ⟨hp, by simp [Pat.text, joinSlash]⟩
        · cases h
      · split at h
        · rename_i hry
          obtain ⟨rfl, rfl⟩ := hry
          split at h
          · rename_i hp
            cases h
            exact ⟨hp, by simp [Pat.text, joinSlash]⟩
          · cases h
        · split at h
          · rename_i hp
            cases h
            exact ⟨by simpa [Pat.wfNames] using hp, rfl⟩
          · cases h

/-- the segments of a line of the fragment are classified as that line -/
theorem classify_text {q : Pat} (h : q.wfNames = true) : classify (splitSlash q.text) = some q := by
  cases q with
  | name x =>
    simp only [Pat.wfNames] at h
    simp [Pat.text, splitSlash_noSlash x (plainName_noSlash h), classify, h]
  | dirOnly d =>
    simp only [Pat.wfNames] at h
    have : splitSlash (d ++ [47]) = [d, []] := by
      rw [splitSlash_append_slash d [] (plainName_noSlash h)]; rfl
    simp [Pat.text, this, classify, h, plainName_ne_nil h]
  | ext e =>
    simp only [Pat.wfNames] at h
    have hs : 47 ∉ (42 :: e) := by
      simp only [List.mem_cons, not_or]; exact ⟨by decide, isExt_noSlash h⟩
    simp [Pat.text, splitSlash_noSlash _ hs, classify, isExt_not_plainName, h]
  | rel ps =>
    simp only [Pat.wfNames, Bool.and_eq_true, decide_eq_true_eq, List.all_eq_true] at h
    obtain ⟨hl, hp⟩ := h
    have hsplit : splitSlash (joinSlash ps) = ps :=
      splitSlash_joinSlash ps (by rintro rfl; simp at hl) (fun x hx => plainName_noSlash (hp x hx))
    match ps, hl, hp, hsplit with
    | x :: y :: r, _, hp, hsplit =>
      have hx := hp x (by simp)
      have hy := hp y (by simp)
      have hy42 : y ≠ [42] := by rintro rfl; simp [plainName_star] at hy
      have hall : (x :: y :: r).all plainName = true := List.all_eq_true.2 hp
      simp only [Pat.text, hsplit, classify, plainName_ne_nil hx, plainName_ne_nil hy, hy42, and_false,
        if_false, hall, if_true]
  | under a =>
    simp only [Pat.wfNames] at h
    have : splitSlash (a ++ [47, 42]) = [a, [42]] := by
      rw [splitSlash_append_slash a [42] (plainName_noSlash h)]; rfl
    simp [Pat.text, this, classify, h, plainName_ne_nil h]
  | rooted ps =>
    simp only [Pat.wfNames, Bool.and_eq_true, Bool.not_eq_true', List.isEmpty_eq_false_iff,
      List.all_eq_true] at h
    obtain ⟨hl, hp⟩ := h
    have hsplit : splitSlash (joinSlash ps) = ps :=
      splitSlash_joinSlash ps hl (fun x hx => plainName_noSlash (hp x hx))
    match ps, hl, hp, hsplit with
    | y :: r, _, hp, hsplit =>
      have hall : (y :: r).all plainName = true := List.all_eq_true.2 hp
      simp only [Pat.text, splitSlash_slash, hsplit, classify, if_true, hall]

theorem parse_iff' {s : Str} {q : Pat} : Pat.parse s = some q ↔ q.wf = true ∧ q.text = s := by
  constructor
  · intro h
    unfold Pat.parse at h
    split at h
    · cases h
    · rename_i c r
      split at h
      · cases h
      · rename_i hc
        obtain ⟨h1, h2⟩ := classify_some h
        rw [joinSlash_splitSlash] at h2
        refine ⟨?_, h2⟩
        simp only [Pat.wf, h1, h2, List.head?_cons, Bool.true_and, Bool.and_eq_true, bne_iff_ne, ne_eq,
          Option.some.injEq]
        exact ⟨fun e => hc (.inl e), fun e => hc (.inr e)⟩
  · rintro ⟨hwf, rfl⟩
    simp only [Pat.wf, Bool.and_eq_true, bne_iff_ne, ne_eq] at hwf
    obtain ⟨⟨h1, h2⟩, h3⟩ := hwf
    have hc := classify_text h1
    generalize q.text = s at h2 h3 hc ⊢
    cases s with
    | nil => simp [splitSlash, classify, plainName] at hc
    | cons c r =>
      simp only [List.head?_cons, Option.some.injEq] at h2 h3
      simp [Pat.parse, h2, h3, hc]

theorem plainName_all {x : Str} (h : plainName x = true) : ∀ c ∈ x, plainChar c = true := by
  simp only [plainName, Bool.and_eq_true, List.all_eq_true] at h
  exact h.1.1.2

theorem mem_joinSlash_plain {ps : List Str} (h : ∀ y ∈ ps, plainName y = true) {x : Nat}
    (hx : x ∈ joinSlash ps) : plainChar x = true ∨ x = 47 ∨ x = 42 := by
  induction ps with
  | nil => simp [joinSlash] at hx
  | cons y r ih =>
    have hy := plainName_all (h y List.mem_cons_self)
    cases r with
    | nil =>
      simp only [joinSlash] at hx
      exact .inl (hy x hx)
    | cons z r' =>
      simp only [joinSlash, List.mem_append, List.mem_cons] at hx
      rcases hx with hx | hx | hx
      · exact .inl (hy x hx)
      · exact .inr (.inl hx)
      · exact ih (fun w hw => h w (List.mem_cons_of_mem _ hw)) hx

/-! ## lists of lines: `parseAll` skips what pathspec ignores -/

theorem parseAll_cons_ignored {s : Str} (h : ignoredLine s = true) (r : List Str) :
    parseAll (s :: r) = parseAll r := by
  simp [parseAll, h]

theorem parseAll_cons_kept {s : Str} (h : ignoredLine s = false) (r : List Str) :
    parseAll (s :: r) = (Pat.parse s).bind (fun q => (parseAll r).map (q :: ·)) := by
  simp only [parseAll, h, Bool.false_eq_true, if_false]
  cases Pat.parse s <;> cases parseAll r <;> rfl

/-- the ignored lines play no role: the result is that of the list without them -/
theorem parseAll_filter (ls : List Str) : parseAll ls = parseAll (ls.filter (fun s => !ignoredLine s)) := by
  induction ls with
  | nil => rfl
  | cons s r ih =>
    cases h : ignoredLine s with
    | true => rw [parseAll_cons_ignored h, List.filter_cons_of_neg (by simp [h]), ih]
    | false =>
      rw [parseAll_cons_kept h, List.filter_cons_of_pos (by simp [h]), parseAll_cons_kept h, ih]

/-- **what `parseAll` returns**: the lines that are not ignored, each read by `Pat.parse`, in order -/
theorem parseAll_eq_some_iff (ls : List Str) (pats : List Pat) :
    parseAll ls = some pats ↔ (ls.filter (fun s => !ignoredLine s)).map Pat.parse = pats.map some := by
  induction ls generalizing pats with
  | nil =>
    cases pats <;> simp [parseAll]
  | cons s r ih =>
    cases h : ignoredLine s with
    | true => rw [parseAll_cons_ignored h, List.filter_cons_of_neg (by simp [h]), ih]
    | false =>
      rw [parseAll_cons_kept h, List.filter_cons_of_pos (by simp [h])]
      cases hs : Pat.parse s with
      | none => cases pats <;> simp [hs]
      | some q =>
        cases pats with
        | nil => cases parseAll r <;> simp
        | cons q' qs =>
          simp only [Option.bind_some, List.map_cons, List.cons.injEq, hs, Option.some.injEq, ← ih qs]
          cases parseAll r <;> simp [and_comm]

theorem parseAll_append {a b : List Str} {qa qb : List Pat} (ha : parseAll a = some qa)
    (hb : parseAll b = some qb) : parseAll (a ++ b) = some (qa ++ qb) := by
  rw [parseAll_eq_some_iff] at ha hb ⊢
  rw [List.filter_append, List.map_append, ha, hb, List.map_append]

theorem parseAll_append_iff (a b : List Str) (q : List Pat) :
    parseAll (a ++ b) = some q ↔ ∃ qa qb, parseAll a = some qa ∧ parseAll b = some qb ∧ q = qa ++ qb := by
  constructor
  · intro h
    rw [parseAll_eq_some_iff, List.filter_append, List.map_append] at h
    obtain ⟨qa, qb, rfl, h1, h2⟩ := List.map_eq_append_iff.1 h.symm
    exact ⟨qa, qb, (parseAll_eq_some_iff _ _).2 h1.symm, (parseAll_eq_some_iff _ _).2 h2.symm, rfl⟩
  · rintro ⟨qa, qb, ha, hb, rfl⟩
    exact parseAll_append ha hb

/-- a line of the six classes is never an ignored line -/
theorem parse_some_not_ignored {s : Str} {q : Pat} (h : Pat.parse s = some q) : ignoredLine s = false := by
  cases s with
  | nil => simp [Pat.parse] at h
  | cons c r =>
    simp only [Pat.parse] at h
    split at h
    · cases h
    · rename_i hc
      have hc35 : c ≠ 35 := fun e => hc (.inr e)
      -- the first character is not a blank: blanks are not plain and a segment is plain, `*e`, or empty before `/`
      by_cases hb : c = 32 ∨ c = 9
      · exfalso
        obtain ⟨h1, h2⟩ := classify_some h
        rw [joinSlash_splitSlash] at h2
        have hmem : ∀ x ∈ q.text, plainChar x = true ∨ x = 47 ∨ x = 42 := by
          intro x hx
          cases q with
          | name y =>
            exact .inl (plainName_all h1 x hx)
          | dirOnly d =>
            simp only [Pat.text, List.mem_append, List.mem_singleton] at hx
            rcases hx with hx | hx
            · exact .inl (plainName_all h1 x hx)
            · exact .inr (.inl hx)
          | ext e =>
            simp only [Pat.text, List.mem_cons] at hx
            rcases hx with hx | hx
            · exact .inr (.inr hx)
            · simp only [Pat.wfNames, isExt] at h1
              cases e with
              | nil => cases h1
              | cons d r' =>
                split at h1
                · rename_i heq
                  cases heq
                  simp only [List.mem_cons] at hx
                  rcases hx with hx | hx
                  · subst hx; exact .inl (by decide)
                  · exact .inl (List.all_eq_true.1 h1 x hx)
                · cases h1
          | rel ps =>
            simp only [Pat.wfNames, Bool.and_eq_true, List.all_eq_true] at h1
            exact mem_joinSlash_plain h1.2 hx
          | under a =>
            simp only [Pat.text, List.mem_append, List.mem_cons, List.not_mem_nil, or_false] at hx
            rcases hx with hx | hx | hx
            · exact .inl (plainName_all h1 x hx)
            · exact .inr (.inl hx)
            · exact .inr (.inr hx)
          | rooted ps =>
            simp only [Pat.wfNames, Bool.and_eq_true, List.all_eq_true] at h1
            simp only [Pat.text, List.mem_cons] at hx
            rcases hx with hx | hx
            · exact .inr (.inl hx)
            · exact mem_joinSlash_plain h1.2 hx
        have := hmem c (by rw [h2]; exact List.mem_cons_self)
        rcases hb with rfl | rfl <;> revert this <;> decide
      · have h32 : (c == 32) = false := by simpa using fun e => hb (.inl e)
        have h9 : (c == 9) = false := by simpa using fun e => hb (.inr e)
        simp [ignoredLine, List.dropWhile, h32, h9, hc35]

end CL.Gi
