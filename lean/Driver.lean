import CodeLimit.Model.Basic
import CodeLimit.Model.Regex
import CodeLimit.Model.Pattern
/-!
Line-protocol driver for the executable models (`lean_exe cldriver`).
One request per line, one reply per line, words separated by single blanks.
-/
open CL

abbrev P := StateM (List String)

def nextWord : P (Option String) := do
  match (← get) with
  | [] => pure none
  | w :: ws => set ws; pure (some w)

def nextNat : P Nat := do
  match (← nextWord) with
  | some w => pure (w.toNat?.getD 0)
  | none => pure 0

/-- prefix-form regular expression over `Nat` atoms: `a n | c r r | u r r | o r | s r | p r` -/
partial def parseRx : P (Rx Nat) := do
  match (← nextWord) with
  | some "a" => return .atom (← nextNat)
  | some "c" => let l ← parseRx; let r ← parseRx; return .cat l r
  | some "u" => let l ← parseRx; let r ← parseRx; return .alt l r
  | some "o" => return .opt (← parseRx)
  | some "s" => return .star (← parseRx)
  | some "p" => return .plus (← parseRx)
  | _ => return .atom 0

def parseNats : P (List Nat) := do
  let n ← nextNat
  let mut out := #[]
  for _ in [0:n] do
    out := out.push (← nextNat)
  return out.toList

def showOptNat : Except Err (Option Nat) → String
  | .error e => s!"err {e.code}"
  | .ok none => "ok none"
  | .ok (some n) => s!"ok {n}"

def showMatches : Except Err (List (Match Nat)) → String
  | .error e => s!"err {e.code}"
  | .ok ms => "ok " ++ toString ms.length ++ String.join (ms.map fun m =>
      s!" {m.s} {m.e} {m.toks.length}" ++ String.join (m.toks.map fun t => s!" {t}"))

def handle (line : String) : String :=
  let ws := (line.trimAscii.toString.splitOn " ").filter (· ≠ "")
  match ws with
  | [] => "bad-op"
  | cmd :: rest =>
    let run {α} (p : P α) : α := (p.run rest).1
    match cmd with
    | "match" => run do
        let base ← nextNat; let r ← parseRx; let w ← parseNats
        return showOptNat (matchFull r base id w)
    | "sw" => run do
        let base ← nextNat; let r ← parseRx; let w ← parseNats
        return showOptNat (startsWith r base id w)
    | "nfa" => run do
        let base ← nextNat; let r ← parseRx; let w ← parseNats
        return (if nfaMatch r base w then "ok T" else "ok F")
    | "findall" => run do
        let base ← nextNat; let r ← parseRx; let w ← parseNats
        return showMatches (findAllId r base id w)
    | _ => "bad-op"

partial def loop (h : IO.FS.Stream) (out : IO.FS.Stream) : IO Unit := do
  let line ← h.getLine
  if line.isEmpty then return ()
  out.putStrLn (handle line)
  if line.startsWith "!" then out.flush
  loop h out

def main : IO Unit := do
  let out ← IO.getStdout
  loop (← IO.getStdin) out
  out.flush
