import CodeLimit.Model.Basic
import CodeLimit.Model.Regex
import CodeLimit.Model.Pattern
import CodeLimit.Model.Scopes
import CodeLimit.Model.Check
import CodeLimit.Model.RenderOps
import CodeLimit.Model.CodebaseOps
import CodeLimit.Model.CacheOps
import CodeLimit.Model.ReportOps
import CodeLimit.Model.SelectOps
import CodeLimit.Model.ProgTreeOps
import CodeLimit.Model.GitignoreOps
import CodeLimit.Model.PyTreeOps
import CodeLimit.Model.ProgMarkOps
import CodeLimit.Model.GapsOps
import CodeLimit.Model.EntryOps
/-!
Line-protocol driver for the executable models (`lean_exe cldriver`).
One request per line, one reply per line, words separated by single blanks.
-/
open CL

abbrev P := StateM (List String)

def nextWord : P (Option String) := do
  match (← get) with
  | [] => pure none
  | w :: ws => set ws; pure (some w)

def nextNat : P Nat := do
  match (← nextWord) with
  | some w => pure (w.toNat?.getD 0)
  | none => pure 0

/-- prefix-form regular expression over `Nat` atoms: `a n | c r r | u r r | o r | s r | p r` -/
partial def parseRx : P (Rx Nat) := do
  match (← nextWord) with
  | some "a" => return .atom (← nextNat)
  | some "c" => let l ← parseRx; let r ← parseRx; return .cat l r
  | some "u" => let l ← parseRx; let r ← parseRx; return .alt l r
  | some "o" => return .opt (← parseRx)
  | some "s" => return .star (← parseRx)
  | some "p" => return .plus (← parseRx)
  | _ => return .atom 0

def parseNats : P (List Nat) := do
  let n ← nextNat
  let mut out := #[]
  for _ in [0:n] do
    out := out.push (← nextNat)
  return out.toList

def parseStr : P Str := parseNats

partial def parsePred : P Pred := do
  match (← nextWord) with
  | some "N" => return .name
  | some "K" => return .keyword (← parseStr)
  | some "S" => return .symbol (← parseStr)
  | some "O" => return .operator (← parseStr)
  | some "V" => return .value (← parseStr)
  | some "I" => return .ident (← parseStr)
  | some "!" => return .not (← parsePred)
  | some "&" => let l ← parsePred; let r ← parsePred; return .and l r
  | some "|" => let l ← parsePred; let r ← parsePred; return .or l r
  | some "B" => let l ← parsePred; let r ← parsePred; return .balanced l r
  | _ => return .ident []

partial def parseRxP : P (Rx Pred) := do
  match (← nextWord) with
  | some "a" => return .atom (← parsePred)
  | some "c" => let l ← parseRxP; let r ← parseRxP; return .cat l r
  | some "u" => let l ← parseRxP; let r ← parseRxP; return .alt l r
  | some "o" => return .opt (← parseRxP)
  | some "s" => return .star (← parseRxP)
  | some "p" => return .plus (← parseRxP)
  | _ => return .atom (.ident [])

def parseLanguage : P Language := do
  let py ← nextNat; let nested ← nextNat; let hasPrev ← nextNat
  let prev ← if hasPrev == 1 then (some <$> parsePred) else pure none
  let n ← nextNat
  let mut pats := #[]
  for _ in [0:n] do
    let e ← parseRxP
    let hf ← nextNat
    let f ← if hf == 1 then (some <$> parseRxP) else pure none
    pats := pats.push ⟨e, f⟩
  return ⟨pats.toList, py == 1, nested == 1, prev⟩

def parseRaw : P (List RawTok) := do
  let n ← nextNat
  let mut out := #[]
  for _ in [0:n] do
    let off ← nextNat; let kind ← nextNat; let ty ← nextNat; let v ← parseStr
    out := out.push ⟨off, kind, ty, v⟩
  return out.toList

def showStr (s : Str) : String := toString s.length ++ String.join (s.map fun c => s!" {c}")

def showMeasurements : Except Err (List Measurement × Nat) → String
  | .error e => s!"err {e.code}"
  | .ok (ms, total) => s!"ok {ms.length}" ++ String.join (ms.map fun m =>
      " " ++ showStr m.name ++ s!" {m.sl} {m.sc} {m.el} {m.ec} {m.len}") ++ s!" {total}"

def showOptNat : Except Err (Option Nat) → String
  | .error e => s!"err {e.code}"
  | .ok none => "ok none"
  | .ok (some n) => s!"ok {n}"

def showMatches : Except Err (List (Match Nat)) → String
  | .error e => s!"err {e.code}"
  | .ok ms => "ok " ++ toString ms.length ++ String.join (ms.map fun m =>
      s!" {m.s} {m.e} {m.toks.length}" ++ String.join (m.toks.map fun t => s!" {t}"))

def handle (langs : Array Language) (line : String) : String :=
  let ws := (line.trimAscii.toString.splitOn " ").filter (· ≠ "")
  match ws with
  | [] => "bad-op"
  | cmd :: rest =>
    let run {α} (p : P α) : α := (p.run rest).1
    match cmd with
    | "match" => run do
        let base ← nextNat; let r ← parseRx; let w ← parseNats
        return showOptNat (matchFull r base id w)
    | "sw" => run do
        let base ← nextNat; let r ← parseRx; let w ← parseNats
        return showOptNat (startsWith r base id w)
    | "nfa" => run do
        let base ← nextNat; let r ← parseRx; let w ← parseNats
        return (if nfaMatch r base w then "ok T" else "ok F")
    | "findall" => run do
        let base ← nextNat; let r ← parseRx; let w ← parseNats
        return showMatches (findAllId r base id w)
    | "scan" => run do
        let li ← nextNat; let code ← parseStr; let raw ← parseRaw
        return showMeasurements (analyze (langs.getD li default) code raw)
    | "lexpos" => run do
        let fc ← nextNat; let code ← parseStr; let raw ← parseRaw
        let ts := lex code raw (fc == 1)
        return s!"ok {ts.length}" ++ String.join (ts.map fun t => s!" {t.line} {t.col} {t.kind}")
    | "loc2idx" => run do
        let code ← parseStr; let l ← nextNat; let c ← nextNat
        return showOptNat ((locationToIndex code l c).map some)
    | "ftok" => run do
        let r ← parseRxP
        let n ← nextNat
        let mut toks := #[]
        for _ in [0:n] do
          let kind ← nextNat; let v ← parseStr
          toks := toks.push (⟨kind, 0, v, 1, toks.size + 1⟩ : Tok)
        return match compileTok r with
          | .error e => s!"err {e.code}"
          | .ok D => match findAll (dfaMachine D tokAcceptor) toks.toList with
            | .error e => s!"err {e.code}"
            | .ok ms => s!"ok {ms.length}" ++ String.join (ms.map fun m => s!" {m.s} {m.e} {m.toks.length}")
    | "classify" => run do
        let sgn ← nextNat; let n ← nextNat
        let L : Int := if sgn == 1 then -(n : Int) else (n : Int)
        let b (p : Prop) [Decidable p] : String := if p then "1" else "0"
        return String.intercalate " " ["ok", toString (Gen.Logic.make_profile_bucket L), toString (Gen.Logic.make_count_profile_bucket L),
          Gen.Logic.style_color L, Gen.Logic.emoji L, Gen.Logic.format_unit_color L,
          b (Gen.Logic.check_counts_hard L), b (Gen.Logic.check_counts_unmaintainable L), b (Gen.Logic.check_lists L),
          b (Gen.Logic.units_keeps L Gen.Logic.findings_threshold_text), b (Gen.Logic.units_keeps L Gen.Logic.findings_threshold_markdown),
          b (Gen.Logic.md_cross_without_repository L), b (Gen.Logic.md_cross_with_repository L)]
    | "check" => run do
        let quiet ← nextNat; let nf ← nextNat
        let mut files : Array (List Int) := #[]
        for _ in [0:nf] do
          let ms ← parseNats
          files := files.push (ms.map (fun (n : Nat) => (n : Int)))
        let o := checkCommand (quiet == 1) files.toList
        return s!"ok {o.exitCode} {if o.printed then 1 else 0} {if o.saysRefactoring then 1 else 0} {o.count} {o.listed.length}" ++
          String.join (o.listed.map fun l => s!" {l.length}" ++ String.join (l.map fun v => s!" {v}"))
    | "qpp" => run do
        let p0 ← nextNat; let p1 ← nextNat; let p2 ← nextNat; let p3 ← nextNat
        let r := Gen.Logic.quality_profile_percentage p0 p1 p2 p3
        let vt := Gen.Logic.verdict_text r.1 r.2.1 r.2.2.1 r.2.2.2
        let vm := Gen.Logic.verdict_markdown r.1 r.2.1 r.2.2.1 r.2.2.2
        let b (p : Prop) [Decidable p] : String := if p then "1" else "0"
        return s!"ok {r.1} {r.2.1} {r.2.2.1} {r.2.2.2} {vt.1} {vt.2} {vm.1} {vm.2} " ++
          b (Gen.Logic.summary_red r.2.2.2) ++ " " ++ b (Gen.Logic.summary_orange r.2.2.1) ++ " " ++ b (Gen.Logic.summary_green r.2.2.1 r.2.2.2)
    | "nocl" => run do
        let v ← parseStr
        return (if isNoclText v then "ok T" else "ok F")
    | _ =>
      -- operations contributed by the other models (each handler returns `none` for foreign commands)
      let hs : List (String → List String → Option String) := [CL.RenderOps.handleRender, CL.Codebase.handleCodebase, CL.Cache.handleCache, CL.Json.Ops.handleReport, CL.Sel.handleSelect, CL.TreeOps.handleTree, CL.Gi.handleGitignore, CL.PyTreeOps.handlePyTree, CL.MarkOps.handleMark, CL.Gaps.Ops.handleGaps, CL.Entry.Ops.handleEntry]
      (hs.findSome? (fun h => h cmd rest)).getD "bad-op"

partial def loop (h : IO.FS.Stream) (out : IO.FS.Stream) (langs : Array Language) : IO Unit := do
  let line ← h.getLine
  if line.isEmpty then return ()
  if line.startsWith "lang " then
    let ws := (line.trimAscii.toString.splitOn " ").filter (· ≠ "")
    let (l, _) := (parseLanguage.run (ws.drop 2))
    let id := ((ws.getD 1 "0").toNat?.getD 0)
    let langs := if id < langs.size then langs.set! id l else (langs ++ Array.replicate (id - langs.size) default).push l
    out.putStrLn "ok"
    loop h out langs
  else
    out.putStrLn (handle langs line)
    loop h out langs

def main : IO Unit := do
  let out ← IO.getStdout
  loop (← IO.getStdin) out #[]
  out.flush
